"""C06 Read transactions see one consistent committed state — structural clauses.

Decided (DESIGN.md C06):
 (a) K1-snapshot-fixed: the snapshot handles of QueryServerReadTransaction / BackendReadTransaction / IdlArcSqliteReadTransaction /
     IdlSqliteReadTransaction are set only when the transaction object is constructed, in the `read()` constructors: no other
     function constructs these types, assigns or swaps a handle field, and no function that has a read transaction in hand calls a
     snapshot acquirer (`.read()` of a shared cell) again.  So a repeated query inside one read transaction uses the same handles.
 (b) K6-acquire-order: the order the code itself demands — entry cache before database in IdlArcSqlite::read / ::write, database
     commit before every cache commit in IdlArcSqliteWriteTransaction::commit.
 (c) K6-atomic-acquire: QueryServer::read acquires N>1 snapshots one by one and QueryServerWriteTransaction::commit publishes M>1 cells
     one by one; the rule looks for an exclusion that spans both sequences (a Mutex/RwLock or single-permit semaphore of QueryServer
     taken by both the read path and the write path) or a single versioned root (N == 1).  None exists today: finding F5
     (torn snapshot, reproduced), reported as ONE violation with a stable key.
Not decided: anything about actual schedules; SQLite's snapshot isolation itself.
"""
import re

from .lib.hir import *
from .lib.x_order import Body, last_seg, erase_lifetimes, strip_closure
from .lib import x_txn as T

META = dict(
    technique="static who-may-construct / who-may-assign rules for the snapshot handles, order-dominance rules for acquisition and publication order, "
              "and a lock-span search (which QueryServer lock fields are taken by both the read path and the write path, and are they exclusive)",
    level_text="Structural clauses of snapshot consistency: handles fixed at construction (all constructors/assignments/re-acquisitions enumerated crate-wide), "
               "entry cache taken before the database snapshot and database committed before the caches, and a search for an exclusion spanning the reader's multi-step "
               "acquisition and the writer's multi-step publication. Tests never interleave a reader with a committing writer.",
    level_note="Clause claim: (a) and (b) are decided; (c) decides only whether an exclusion construct exists (none today = known finding F5). Actual schedules are not explored. "
               "Trusted: rustc call resolution, the list of lock primitives in rules/C06.py.",
)

LIB = T.LIB
QS_READ = "kanidmd_lib::server::QueryServer::read"
BE_READ = "kanidmd_lib::be::Backend::read"
ARC_READ = "kanidmd_lib::be::idl_arc_sqlite::IdlArcSqlite::read"
ARC_WRITE = "kanidmd_lib::be::idl_arc_sqlite::IdlArcSqlite::write"
SQL_RNEW = "kanidmd_lib::be::idl_sqlite::IdlSqliteReadTransaction::new"
SQL_READ = "kanidmd_lib::be::idl_sqlite::IdlSqlite::read"
SQL_WRITE = "kanidmd_lib::be::idl_sqlite::IdlSqlite::write"
SQL_WCOMMIT = "kanidmd_lib::be::idl_sqlite::IdlSqliteWriteTransaction::commit"

READ_TXNS = {       # struct def-path -> its only constructor function
    "kanidmd_lib::server::QueryServerReadTransaction": QS_READ,
    "kanidmd_lib::be::BackendReadTransaction": BE_READ,
    "kanidmd_lib::be::idl_arc_sqlite::IdlArcSqliteReadTransaction": ARC_READ,
    "kanidmd_lib::be::idl_sqlite::IdlSqliteReadTransaction": SQL_RNEW,
}
RX_LOCK_TYPE = re.compile(r"\b(Semaphore|Mutex|RwLock|FairMutex|ReentrantMutex)\b")
LOCK_VERBS = ("acquire", "try_acquire", "acquire_many", "try_acquire_many", "acquire_owned", "try_acquire_owned", "acquire_many_owned",
              "lock", "try_lock", "blocking_lock", "read", "write", "try_read", "try_write", "blocking_read", "blocking_write", "lock_owned", "read_owned", "write_owned")
F5_KEY = ("K6-atomic-acquire", QS_READ, "no-exclusion-between-read-acquisition-and-commit-publication")


def short_ty(defpath):
    return defpath[len("kanidmd_lib::"):]


def is_handle_type(ty):
    return bool(re.search(r"ReadTxn\b|ReadTransaction\b", ty or ""))


def is_lock_call(n):
    c = callee_of(n) or ""
    return n.get("e") == "mcall" and last_seg(c) in LOCK_VERBS and RX_LOCK_TYPE.search(c) is not None and not c.startswith("concread::")


def is_acquirer_name(c):
    """A snapshot acquirer: `read` of a concread cell or of a kanidmd_lib shared structure (not a lock primitive)."""
    return last_seg(c) == "read" and (c.startswith("concread::") or c.startswith("kanidmd_lib::")) and not RX_LOCK_TYPE.search(c)


def field_of(n, owner_sub):
    """Field name when expression `n` is (a reference to / deref of) `<x>.<f>` with x of a type containing owner_sub."""
    n = unwrap(n)
    while isinstance(n, dict) and n.get("e") == "mcall" and last_seg(callee_of(n)) in ("deref", "as_ref", "clone", "borrow"):
        n = unwrap(n["recv"])
    if isinstance(n, dict) and n.get("e") == "field" and owner_sub in (n.get("xty") or ""):
        return n["f"]
    return None


def run(ctx):
    _run_main(ctx)
    database_snapshot_opened(ctx)


def _run_main(ctx):
    F = ctx.facts
    ctx.explanation = ("(a) snapshot handles of the read transactions are fixed at construction (K1: constructors, assignments, swaps and re-acquisitions enumerated crate-wide); "
                       "(b) entry cache before database on acquisition, database before caches on commit (K6); (c) search for an exclusion spanning QueryServer::read's multi-step "
                       "acquisition and commit's multi-step publication (none today: known finding F5).")

    # ---- (a) handles fixed at construction ------------------------------------------------------
    ctor_bodies = {}
    for ty, ctor in READ_TXNS.items():
        crec = ctx.fn(LIB, ctor)
        ctor_bodies[ctor] = Body(crec)
        it = F.item(LIB, "struct", ty)
        if not ctx.check(it is not None, "K1-snapshot-fixed", ty, "struct-found", "struct found", f"struct {ty} not found (anchor missing)"):
            continue
        handles = [f["f"] for f in it["variants"][0]["fields"] if is_handle_type(f["ty"]) or "rusqlite::Connection" in f["ty"]]
        ctx.floor("K1-snapshot-fixed", f"snapshot handle fields of {last_seg(ty)}", len(handles), 1)
        makers = []
        for name in F.fns_mentioning(LIB, '"def":"' + ty + '"'):
            rec = F.fn(LIB, name)
            if any(n.get("e") == "struct" and n["path"].get("def") == ty for n in walk(rec["body"])):
                makers.append(name.split("#")[0])
        ctx.check(makers == [ctor], "K1-snapshot-fixed", ctor, f"only-constructor-of:{last_seg(ty)}",
                  f"{last_seg(ty)} is constructed only in {T.nice(ctor)}",
                  f"{last_seg(ty)} is constructed in {makers}; expected only {ctor} — a second constructor can combine handles taken at different times",
                  file=crec["file"], line=crec["line"])
    callers = {}
    for (caller, callee, resolved, ln, exp, sty) in F.calls(LIB):
        for t in (callee, resolved):
            if t in (SQL_RNEW, ARC_READ, BE_READ):
                callers.setdefault(t, set()).add(strip_closure(caller))
    for callee, expect in ((SQL_RNEW, {SQL_READ}), (ARC_READ, {BE_READ}), (BE_READ, {QS_READ})):
        got = callers.get(callee, set())
        ctx.check(got == expect, "K1-snapshot-fixed", callee, "only-caller",
                  f"{T.nice(callee)} is called only from {sorted(T.nice(x) for x in expect)}",
                  f"{T.nice(callee)} is called from {sorted(got)}; expected only {sorted(expect)} — a layer's snapshot would be taken outside the enclosing read() constructor")

    # assignments / swaps of handle fields, anywhere in the crate
    ty_subs = [short_ty(t) for t in READ_TXNS]
    handle_fields = {}
    for ty in READ_TXNS:
        it = F.item(LIB, "struct", ty)
        if it:
            handle_fields[short_ty(ty)] = {f["f"] for f in it["variants"][0]["fields"] if is_handle_type(f["ty"]) or "rusqlite::Connection" in f["ty"]}

    def handle_field_node(n):
        n = unwrap(n)
        while isinstance(n, dict) and n.get("e") in ("field", "index"):
            if n.get("e") == "field":
                xt = erase_lifetimes(n.get("xty") or "")
                for sub, fs in handle_fields.items():
                    if xt.startswith(sub) and n["f"] in fs:
                        return f"{last_seg(sub)}.{n['f']}"
            n = unwrap(n["x"])
        return None
    n_scanned = 0
    for name in F.fns_mentioning(LIB, "ReadTransaction"):
        base = name.split("#")[0]
        raw = F._load_raw(LIB)[name]
        if '"e":"assign' not in raw and "core::mem::" not in raw:
            continue
        rec = F.fn(LIB, name)
        n_scanned += 1
        for n in walk(rec["body"]):
            hit = None
            if n.get("e") in ("assign", "assignop"):
                hit = handle_field_node(n["l"])
            elif n.get("e") == "call" and re.match(r"core::mem::(swap|replace|take)$", callee_of(n) or ""):
                for a in n.get("args", []):
                    hit = hit or handle_field_node(a)
            if hit and not (base in (SQL_RNEW,) or base.endswith("IdlSqliteReadTransaction as core::ops::drop::Drop>::drop")):
                ctx.violation("K1-snapshot-fixed", base, f"handle-reassigned:{hit}",
                              f"{base} line {n.get('line')}: snapshot handle `{hit}` of a read transaction is assigned/swapped after construction; a later query in the same "
                              "read transaction would see a different committed state than an earlier one", file=rec["file"], line=n.get("line"))
    ctx.ok("K1-snapshot-fixed", "-", "no-handle-reassignment", f"{n_scanned} functions mentioning a read transaction and containing an assignment or mem::swap/replace/take scanned")

    # re-acquisition by code that already holds a read transaction
    acq = set()
    n_acq_sites = {}
    for ctor, b in ctor_bodies.items():
        sites = [c for c in b.calls() if is_acquirer_name(callee_of(c) or "")]
        n_acq_sites[ctor] = sites
        acq |= {callee_of(c) for c in sites}
    acq.add(SQL_READ)
    ctx.floor("K1-snapshot-fixed", "snapshot acquisitions in QueryServer::read", len(n_acq_sites[QS_READ]), 9)
    for ctor, sites in n_acq_sites.items():
        ctx.sample(f"{T.nice(ctor)} acquires: " + ", ".join(f"{T.nice(callee_of(c))}@{c.get('line')}" for c in sites))
    ctx.floor("K1-snapshot-fixed", "snapshot acquisitions in Backend::read", len(n_acq_sites[BE_READ]), 3)
    ctx.floor("K1-snapshot-fixed", "snapshot acquisitions in IdlArcSqlite::read", len(n_acq_sites[ARC_READ]), 6)
    traits = ("kanidmd_lib::server::QueryServerTransaction::", "kanidmd_lib::be::BackendTransaction::",
              "kanidmd_lib::be::idl_arc_sqlite::IdlArcSqliteTransaction::", "kanidmd_lib::be::idl_sqlite::IdlSqliteTransaction::")
    n_holders = 0
    for name, raw in F._load_raw(LIB).items():
        base = name.split("#")[0]
        if base in READ_TXNS.values() or base == SQL_READ:
            continue
        if '::read"' not in raw:
            continue                      # calls nothing named `read`
        if "ReadTransaction" not in raw and not base.startswith(traits):
            continue
        rec = F.fn(LIB, name)
        ptys = " ".join(str(p.get("ty", "")) for p in rec.get("params", []))
        holds = any(s in ptys or s in base for s in ty_subs) or any(last_seg(t) + "<" in base or (last_seg(t) + " ") in base for t in READ_TXNS) or base.startswith(traits)
        if not holds:
            continue
        n_holders += 1
        for c in all_calls(rec["body"]):
            cal = callee_of(c) or ""
            if cal in acq or (is_acquirer_name(cal) and cal.startswith("concread::")):
                ctx.violation("K1-snapshot-fixed", base, f"reacquires:{T.nice(cal)}",
                              f"{base} line {c.get('line')}: code that holds a read transaction calls the snapshot acquirer {cal}; the fresh handle can belong to a later commit than "
                              "the transaction's other handles (repeated queries would disagree)", file=rec["file"], line=c.get("line"))
    ctx.ok("K1-snapshot-fixed", "-", "no-reacquisition", f"{n_holders} functions that hold a read transaction and call some `read` were examined; none calls a snapshot acquirer")
    # trait-default methods (shared by read and write transactions) are covered by the same scan through the `traits` prefixes

    # ---- (b) acquisition / publication order ---------------------------------------------------
    def entry_cache_call(b, verb):
        return [c for c in b.calls() if last_seg(callee_of(c)) == verb and (callee_of(c) or "").startswith("concread::arcache::ARCache::")
                and "entry::Entry<" in (c.get("recv_ty") or "")]
    for fn, verb, dbfn in ((ARC_READ, "read", SQL_READ), (ARC_WRITE, "write", SQL_WRITE)):
        rec = ctx.fn(LIB, fn)
        b = ctor_bodies.get(fn) or Body(rec)
        ec = entry_cache_call(b, verb)
        dbc = T.calls_exact(b, dbfn)
        if not ctx.check(len(ec) == 1 and len(dbc) >= 1, "K6-acquire-order", fn, "anchors", "entry-cache and database acquisitions found",
                         f"{T.nice(fn)}: expected one entry-cache `{verb}` (ARCache of entries) and a call to {T.nice(dbfn)}; found {len(ec)}/{len(dbc)} (shape not understood)",
                         file=rec["file"], line=rec["line"]):
            continue
        for d in dbc:
            if b.precedes(ec[0], d):
                ctx.sample(f"{rec['file']}:{ec[0].get('line')} {T.nice(fn)} :: entry cache {verb} (line {ec[0].get('line')}) precedes {T.nice(dbfn)} (line {d.get('line')})")
            ctx.check(b.precedes(ec[0], d), "K6-acquire-order", fn, "entry-cache-before-database",
                      f"entry cache {verb} is evaluated before {T.nice(dbfn)}",
                      f"{T.nice(fn)}: the database snapshot ({T.nice(dbfn)}, line {d.get('line')}) is no longer taken after the entry cache {verb} (line {ec[0].get('line')}): "
                      "with the database first, a commit between the two leaves an entry cache NEWER than the database snapshot, and cache misses would insert stale entries under the new generation",
                      file=rec["file"], line=d.get("line"))
    crec = ctx.fn(LIB, T.ARC_COMMIT)
    cb = Body(crec)
    dbcommit = T.calls_exact(cb, SQL_WCOMMIT)
    cache_commits = [c for c in cb.calls() if re.match(r"concread::.*::commit$", callee_of(c) or "")]
    ctx.floor("K6-acquire-order", "cache/cell publications in IdlArcSqliteWriteTransaction::commit", len(cache_commits), 8)
    if ctx.check(bool(dbcommit), "K6-acquire-order", T.ARC_COMMIT, "anchors", "database commit found",
                 "IdlArcSqliteWriteTransaction::commit no longer calls IdlSqliteWriteTransaction::commit", file=crec["file"], line=crec["line"]):
        ids = {id(x) for x in dbcommit}
        late = [c for c in cache_commits if not (cb.site_gates(c) & ids)]
        ctx.check(not late, "K6-acquire-order", T.ARC_COMMIT, "database-commit-before-cache-commits",
                  f"all {len(cache_commits)} cache publications run after the database commit returned Ok",
                  f"{len(late)} cache publication(s) (lines {[c.get('line') for c in late]}) are not after the database commit: a reader could pair the new cache with the old database",
                  file=crec["file"], line=(late[0].get("line") if late else crec["line"]))

    # ---- (c) exclusion spanning acquisition and publication -----------------------------------
    qb = ctor_bodies[QS_READ]
    reads = n_acq_sites[QS_READ]
    wrec = ctx.fn(LIB, T.QS_WRITE)
    wb = Body(wrec)
    commit_rec = ctx.fn(LIB, T.QS_COMMIT)
    commit_b = Body(commit_rec)
    pubs = [c for c in commit_b.calls() if last_seg(callee_of(c)) == "commit" and callee_of(c) != T.BE_COMMIT]
    ctx.floor("K6-atomic-acquire", "publication steps in QueryServerWriteTransaction::commit", len(pubs), 2)

    def locks_of(body, depth=1):
        """{field: set(verbs)} for lock acquisitions on QueryServer fields in `body` and in QueryServer helper methods it calls."""
        out = {}
        for c in body.calls(skip_exp=False):
            if is_lock_call(c):
                f = field_of(c["recv"], "server::QueryServer")
                if f:
                    out.setdefault(f, {"verbs": set(), "type": callee_of(c), "sites": []})
                    out[f]["verbs"].add(last_seg(callee_of(c)))
                    out[f]["sites"].append((body, c))
            elif depth > 0 and (callee_of(c) or "").startswith("kanidmd_lib::server::QueryServer::") and c.get("e") == "mcall":
                sub = F.fn(LIB, callee_of(c))
                if sub is not None and sub is not body.rec:
                    ctx.analysed_fns.add(callee_of(c))
                    for f, v in locks_of(Body(sub), depth - 1).items():
                        out.setdefault(f, {"verbs": set(), "type": v["type"], "sites": []})
                        out[f]["verbs"] |= v["verbs"]
                        out[f]["sites"].append((body, c))     # the helper call is the acquisition point in this body
        return out
    lr = locks_of(qb)
    lw = locks_of(wb)
    for f, v in locks_of(commit_b, 0).items():
        lw.setdefault(f, v)
    common = sorted(set(lr) & set(lw))
    # capacity of semaphores: initialiser in QueryServer::new
    nrec = ctx.fn(LIB, T.QS_NEW)
    caps = {}
    for n in walk(nrec["body"]):
        if n.get("e") == "struct" and n["path"].get("def") == "kanidmd_lib::server::QueryServer":
            for fl in n["fields"]:
                for c in all_calls(fl["x"]):
                    if re.search(r"Semaphore::new$", callee_of(c) or "") and c.get("args"):
                        a = unwrap(c["args"][0])
                        while a.get("e") == "wrap" or (a.get("e") == "path" and False):
                            a = unwrap(a["x"])
                        caps[fl["f"]] = int(a["v"]) if a.get("e") == "lit" and str(a.get("v", "")).isdigit() else None
    exclusive = []
    why_not = []
    for f in common:
        ty = lr[f]["type"]
        if "Semaphore" in ty:
            if caps.get(f) == 1:
                exclusive.append(f)
            else:
                why_not.append(f"`{f}` is a counting semaphore (capacity {'not a literal 1' if caps.get(f) is None else caps.get(f)}): readers and the writer hold permits at the same time")
        elif "RwLock" in ty:
            if lw[f]["verbs"] & {"write", "try_write", "blocking_write", "write_owned"}:
                exclusive.append(f)
            else:
                why_not.append(f"`{f}` is an RwLock the write path only takes for reading")
        else:
            exclusive.append(f)
    spanning = []
    for f in exclusive:
        first = reads[0] if reads else None
        pre = any(body is qb and first is not None and qb.precedes(site, first) for (body, site) in lr[f]["sites"])
        if pre:
            spanning.append(f)
        else:
            why_not.append(f"`{f}` is exclusive but is not acquired before the first snapshot acquisition in QueryServer::read")
    single_root = len(reads) <= 1
    ctx.extra["read_acquisitions"] = [f"{T.nice(callee_of(c))} (line {c.get('line')})" for c in reads]
    ctx.extra["commit_publications"] = len(pubs)
    ctx.extra["locks_read_path"] = {f: sorted(v["verbs"]) for f, v in lr.items()}
    ctx.extra["locks_write_path"] = {f: sorted(v["verbs"]) for f, v in lw.items()}
    ctx.sample(f"QueryServer::read takes {len(reads)} snapshots one by one; commit publishes {len(pubs)} cells one by one; read path locks {sorted(lr)}; write path locks {sorted(lw)}")
    if spanning or single_root:
        ctx.ok(*F5_KEY[:2], "exclusion-spans-acquisition-and-publication",
               f"exclusive lock(s) {spanning} taken by both paths" if spanning else "a single versioned root is acquired")
    else:
        ctx.violation(*F5_KEY,
                      f"QueryServer::read acquires {len(reads)} snapshots one by one ({', '.join(T.nice(callee_of(c)) for c in reads[:9])}) and QueryServerWriteTransaction::commit publishes "
                      f"{len(pubs)} cells one by one, but no exclusive lock or single versioned root spans both sequences. Locks on the read path: {sorted(lr) or 'none'}; on the write path: {sorted(lw) or 'none'}; "
                      f"shared: {common or 'none'}" + ("; " + "; ".join(why_not) if why_not else "") +
                      ". Expected: a Mutex/RwLock/single-permit semaphore of QueryServer taken before the first acquisition in read() and held by the writer across all publications, or one versioned cell. "
                      "A commit landing between two acquisitions gives the reader old schema with new entries, or an old entry cache with a new SQLite snapshot (torn snapshot, finding F5).",
                      file=qb.rec["file"], line=(reads[0].get("line") if reads else qb.rec["line"]))


# ---------------------------------------------------------------------------------------------------------------------
# The database half of a read transaction's snapshot exists only while an SQL transaction is open on its connection:
# without one every statement runs in autocommit mode and a lookup that misses the caches returns whatever the latest
# commit wrote. (added after seeded change C06: `BEGIN DEFERRED` replaced by a temporary rusqlite Transaction guard that is
# dropped - and rolled back - at the end of the statement)

def database_snapshot_opened(ctx):
    from .lib.x_order import lit_text
    R = "K1-read-snapshot-opened"
    T = "kanidmd_lib::be::idl_sqlite::IdlSqliteReadTransaction::"
    new = ctx.fn(LIB, T + "new")
    begins = []
    for n in walk(new["body"]):
        if n.get("e") == "mcall" and n.get("name") in ("execute", "execute_batch") and "Connection" in str(n.get("recv_ty", "")):
            sql = " ".join(filter(None, (lit_text(x) for x in walk({"a": n.get("args", [])}))))
            if sql.strip().upper().startswith("BEGIN"):
                begins.append((n, sql))
    ctx.check(len(begins) >= 1, R, new["fn"], "begin-executed-on-connection", f"executes {[b[1] for b in begins]}",
              "IdlSqliteReadTransaction::new no longer executes a BEGIN statement on the pooled connection: the read transaction has no database snapshot, "
              "every lookup that misses the caches sees the newest committed state, and a repeated query inside one read transaction can change its answer",
              file=new["file"], line=new["line"])
    # the guard-object API would end the transaction when the temporary is dropped
    guard_api = [n for n in walk(new["body"]) if n.get("e") == "mcall" and n.get("name") in ("unchecked_transaction", "transaction", "savepoint")]
    ctx.check(not guard_api, R, new["fn"], "no-transaction-guard-object", "no rusqlite Transaction guard",
              "IdlSqliteReadTransaction::new opens the SQL transaction through a rusqlite guard object; unless that guard is stored in the read transaction it is "
              "dropped (rolled back) at the end of the statement and the snapshot is gone", file=new["file"], line=guard_api[0].get("line") if guard_api else None)
    # the struct is built only after BEGIN succeeded
    ctor = [n for n in walk(new["body"]) if n.get("e") == "struct" and n["path"].get("def", "").endswith("idl_sqlite::IdlSqliteReadTransaction")]
    ctx.check(bool(ctor) and bool(begins) and all(c.get("line", 0) >= begins[0][0].get("line", 0) for c in ctor), R, new["fn"], "constructed-after-begin",
              "the transaction object is built after BEGIN", "IdlSqliteReadTransaction is constructed before / without the BEGIN statement",
              file=new["file"], line=new["line"])
