"""C21 POSIX ids never land in reserved ranges — complete (K7 interval / known-bits, K9 call-graph, K2 pipeline).

Obligations (DESIGN.md C21), all over the 2^32 possible values, by intervals:
 G  the only value apply_gidnumber stores into gidnumber is  new_uint32((uuid_to_gid_u32(uuid) & MASK) | PREFIX);
    its known-bits image lies inside one accepted range and is disjoint from every reserved range;
 A  the user-supplied number is accepted (Ok) exactly when the extracted range condition holds; the accepted set
    (union of the RangeInclusive constants) is disjoint from
        [0,999] u [60001,60577] u [61184,65519] u {65534,65535} u [2^31,2^32);
 R  every other value reaches Err, and every Ok exit of apply_gidnumber is one of: generated / range-checked /
    no single uint32 gidnumber on the entry;
 D  generation is a deterministic function of the uuid: no RNG or clock is reachable in the call graph from
    uuid_to_gid_u32 or apply_gidnumber (positive control: Base::pre_create_transform does reach Uuid::new_v4);
 P  GidNumber's own hook (which maps apply_gidnumber over every candidate and propagates its error) is in the three
    pre-write registries and the operations run them before the backend write.
Constants are the compiler-evaluated values from the item facts, never source text.
"""
import re

from .lib.hir import walk, unwrap, callee_of, callee_any, ends, short, def_of, tokens, has_token
from .lib.x_plugins import Pipelines, Flow, success_exits, hook_fn, LIB

LEVEL = "proof"

META = dict(
    technique="interval / known-bits evaluation (K7) of the mask expression and range condition extracted from type-checked HIR with "
              "compiler-evaluated constants; call-graph effect rule (K9); plugin pipeline extraction (K2)",
    level_text="Complete finite argument over all 2^32 uuid-derived inputs and all 2^32 user-supplied numbers, by intervals: generated ids lie in "
               "an accepted range, accepted ranges are disjoint from every reserved range, everything else is rejected, generation reaches no RNG or clock, "
               "and the plugin runs on every create/modify path. Tests check a handful of uuids and boundaries.",
    level_note="Every obligation of the argument is enumerated and discharged. Assumptions: an entry whose gidnumber is multi-valued or not a uint32 is "
               "rejected by schema validation (C15) rather than by this plugin; replicated entries are not re-checked (they were checked at their origin). "
               "Trusted: rustc's constant evaluation and name resolution, the reserved-range table in rules/C21.py.",
)

U32 = (1 << 32) - 1
RESERVED = [(0, 999, "system users/groups"), (60001, 60577, "systemd-homed"), (61184, 65519, "systemd dynamic users"),
            (65534, 65535, "nobody / 16-bit -1"), (1 << 31, U32, "upper half (kernel/signed issues)")]
RNG_CLOCK = ("rand::", "rand_core::", "getrandom::", "uuid::Uuid::new_v4", "uuid::v4::", "std::time::SystemTime", "std::time::Instant",
             "time::OffsetDateTime::now", "::now_utc", "duration_from_epoch_now", "openssl::rand", "tokio::time::Instant", "std::time::", "rand_chacha::")
LOG_PREFIX = ("tracing::", "tracing_core::", "log::", "core::fmt::", "alloc::fmt::", "sketching::")
GIDATTR = "kanidm_proto::attribute::Attribute::GidNumber"
READERS = ("attribute_pres", "get_ava_single_uint32", "attribute_equality", "get_ava_set", "get_ava_single")


# ---- interval sets over u32 -----------------------------------------------------------------------------------
def norm(iv):
    iv = sorted((max(0, a), min(U32, b)) for a, b in iv if a <= b)
    out = []
    for a, b in iv:
        if out and a <= out[-1][1] + 1:
            out[-1] = (out[-1][0], max(out[-1][1], b))
        else:
            out.append((a, b))
    return out


def union(x, y):
    return norm(list(x) + list(y))


def inter(x, y):
    out = []
    for a, b in x:
        for c, d in y:
            lo, hi = max(a, c), min(b, d)
            if lo <= hi:
                out.append((lo, hi))
    return norm(out)


def compl(x):
    out, cur = [], 0
    for a, b in norm(x):
        if a > cur:
            out.append((cur, a - 1))
        cur = b + 1
    if cur <= U32:
        out.append((cur, U32))
    return out


def size(x):
    return sum(b - a + 1 for a, b in x)


def show(x):
    return " u ".join(f"[{a},{b}]" if a != b else f"{{{a}}}" for a, b in x) or "(empty)"


class Eval:
    def __init__(self, ctx, rec):
        self.ctx = ctx
        self.F = ctx.facts
        self.rec = rec
        self.binds = {}
        for n in walk(rec["body"]):
            if n.get("s") == "let" and "init" in n and n["pat"].get("p") == "bind" and "sub" not in n["pat"] and not n["pat"].get("mut"):
                self.binds[n["pat"]["local"]] = n["init"]
        self.sources = []

    def const(self, e):
        """exact integer value of a literal / const path (compiler-evaluated), else None"""
        e = unwrap(e)
        if e.get("e") == "lit" and e.get("lk") == "int":
            try:
                return int(str(e["v"]).split("_u")[0].replace("_", ""), 0)
            except ValueError:
                return None
        if e.get("e") == "path" and "def" in e["res"]:
            return self.F.const_val(LIB, e["res"]["def"])
        if e.get("e") == "path" and "local" in e["res"] and e["res"]["local"] in self.binds:
            return self.const(self.binds[e["res"]["local"]])
        if e.get("e") == "bin" and e["op"] in ("+", "-", "*", "<<", ">>"):
            l, r = self.const(e["l"]), self.const(e["r"])
            if l is None or r is None:
                return None
            v = {"+": l + r, "-": l - r, "*": l * r, "<<": l << r if 0 <= r < 64 else None, ">>": l >> r if 0 <= r < 64 else None}[e["op"]]
            return v if v is not None and 0 <= v <= U32 else None      # overflow would not compile / would panic: not understood
        return None

    def bits(self, e, depth=0):
        """(known0, known1) of a u32 expression, or None when the shape is not understood."""
        if depth > 12:
            return None
        raw = e
        e = unwrap(e)
        if isinstance(raw, dict) and raw.get("e") == "wrap" and raw.get("cast"):
            return None
        c = self.const(e)
        if c is not None:
            return ((~c) & U32, c & U32)
        k = e.get("e")
        if k == "path" and "local" in e["res"]:
            init = self.binds.get(e["res"]["local"])
            return self.bits(init, depth + 1) if init is not None else None
        if k == "bin" and e["op"] in ("&", "|"):
            l, r = self.bits(e["l"], depth + 1), self.bits(e["r"], depth + 1)
            if l is None or r is None:
                return None
            if e["op"] == "&":
                return (l[0] | r[0], l[1] & r[1])
            return (l[0] & r[0], l[1] | r[1])
        if k == "call":
            self.sources.append(callee_of(e))
            if callee_of(e) == "kanidmd_lib::utils::uuid_to_gid_u32":
                return (0, 0)
            return None
        return None

    def var_local(self, e):
        e = unwrap(e)
        if e.get("e") == "path" and "local" in e["res"]:
            return e["res"]["local"]
        return None

    def cond_set(self, c, var):
        """set of values of local `var` for which the boolean expression holds; None = shape not understood"""
        c = unwrap(c)
        k = c.get("e")
        if k == "bin" and c["op"] in ("||", "&&"):
            l, r = self.cond_set(c["l"], var), self.cond_set(c["r"], var)
            if l is None or r is None:
                return None
            return union(l, r) if c["op"] == "||" else inter(l, r)
        if k == "un" and c.get("op") == "Not":
            x = self.cond_set(c["x"], var)
            return None if x is None else compl(x)
        if k == "mcall" and callee_of(c) in ("core::ops::range::RangeInclusive::<Idx>::contains", "core::ops::range::Range::<Idx>::contains"):
            if len(c["args"]) != 1 or self.var_local(c["args"][0]) != var:
                return None
            r = unwrap(c["recv"])
            incl = "RangeInclusive" in callee_of(c)
            lo = hi = None
            if r.get("e") == "call" and callee_of(r).endswith("RangeInclusive::<Idx>::new") and len(r["args"]) == 2:
                lo, hi = self.const(r["args"][0]), self.const(r["args"][1])
            elif r.get("e") == "struct" and short(r["path"].get("def", ""), 1) in ("Range", "RangeInclusive"):
                fs = {f["f"]: f["x"] for f in r["fields"]}
                lo, hi = self.const(fs.get("start", {})), self.const(fs.get("end", {}))
            if lo is None or hi is None:
                return None
            return norm([(lo, hi if incl else hi - 1)])
        if k == "bin" and c["op"] in ("<", "<=", ">", ">=", "==", "!="):
            op = c["op"]
            if self.var_local(c["l"]) == var:
                v = self.const(c["r"])
            elif self.var_local(c["r"]) == var:
                v = self.const(c["l"])
                op = {"<": ">", "<=": ">=", ">": "<", ">=": "<=", "==": "==", "!=": "!="}[op]
            else:
                return None
            if v is None:
                return None
            return {"<": norm([(0, v - 1)]), "<=": norm([(0, v)]), ">": norm([(v + 1, U32)]), ">=": norm([(v, U32)]),
                    "==": norm([(v, v)]), "!=": compl([(v, v)])}[op]
        return None


def tail_leaves(e, chain=()):
    """(leaf expr, ((if-node, 'then'|'else'), ...)) for every expression in return position of `e`."""
    if not isinstance(e, dict):
        return
    k = e.get("e")
    if k == "blockexpr":
        yield from tail_leaves(e["b"], chain)
    elif k == "block":
        if "tail" in e:
            yield from tail_leaves(e["tail"], chain)
        else:
            yield (e, chain)
    elif k == "if":
        yield from tail_leaves(e["then"], chain + ((e, "then"),))
        if "else" in e:
            yield from tail_leaves(e["else"], chain + ((e, "else"),))
        else:
            yield (e, chain + ((e, "else"),))
    elif k == "match" and e.get("src") == "Normal":
        for a in e["arms"]:
            yield from tail_leaves(a["body"], chain + ((e, "arm"),))
    else:
        yield (e, chain)


def is_ctor(e, name):
    e = unwrap(e)
    return isinstance(e, dict) and e.get("e") == "call" and ends(e.get("ctor") or "", "core::result::Result::" + name)


def contains_node(root, node):
    return any(n is node for n in walk(root))


def run(ctx):
    F = ctx.facts
    ctx.explanation = ("Complete interval argument: (G) the stored generated id is ((x & MASK) | PREFIX) whose known-bits image lies in an accepted "
                       "range and outside every reserved range; (A) the accepted set extracted from the range condition is disjoint from the reserved "
                       "ranges; (R) all other values reach Err and every Ok exit is generated / range-checked / no-single-gid; (D) no RNG or clock "
                       "reachable from uuid_to_gid_u32 / apply_gidnumber; (P) GidNumber is in the three pre-write registries, bracketed before the write.")
    rule7 = "K7-gid"
    ag = ctx.fn(LIB, "kanidmd_lib::plugins::gidnumber::apply_gidnumber")
    u2g = ctx.fn(LIB, "kanidmd_lib::utils::uuid_to_gid_u32")
    ev = Eval(ctx, ag)
    body = ag["body"]

    # ---- the range check --------------------------------------------------------------------------------------------
    range_ifs = []
    for n in walk(body):
        if n.get("e") == "if" and not n.get("exp") and any(
                x.get("e") == "mcall" and "::contains" in callee_of(x) and "ops::range" in callee_of(x) for x in walk(n["cond"], into_closures=False)):
            range_ifs.append(n)
    if not ctx.check(len(range_ifs) == 1, rule7, ag["fn"], "range-check-found", "one range condition",
                     f"expected exactly one `if (A..=B).contains(&gid) || ...` in apply_gidnumber, found {len(range_ifs)} (shape not understood)",
                     file=ag["file"], line=ag["line"]):
        return
    R = range_ifs[0]
    # the checked variable: bound by `if let Some(gid) = e.get_ava_single_uint32(Attribute::GidNumber)`
    guard_if, var = None, None
    for n in walk(body):
        if n.get("e") == "if" and unwrap(n["cond"]).get("e") == "let" and contains_node(n["then"], R):
            c = unwrap(n["cond"])
            init = unwrap(c["init"])
            p = c["pat"]
            if init.get("e") == "mcall" and ends(callee_of(init), "get_ava_single_uint32") and has_token(tokens(init), "def", GIDATTR) \
                    and p.get("p") == "tstruct" and ends(p["path"].get("def", ""), "core::option::Option::Some") \
                    and len(p["pats"]) == 1 and p["pats"][0].get("p") == "bind":
                guard_if, var = n, p["pats"][0]["local"]
    if not ctx.check(var is not None, rule7, ag["fn"], "checked-value-is-stored-gid", "range condition tests the entry's single uint32 gidnumber",
                     "the range condition is not guarded by `if let Some(gid) = e.get_ava_single_uint32(Attribute::GidNumber)`: "
                     "cannot tie the tested number to the stored attribute", file=ag["file"], line=R.get("line")):
        return
    accepted = ev.cond_set(R["cond"], var)
    if not ctx.check(accepted is not None, rule7, ag["fn"], "range-condition-understood", f"accepted = {show(accepted or [])}",
                     "the range condition contains an atom that is not `<const range>.contains(&gid)` / a comparison of gid with a constant "
                     "(shape not understood, fail closed)", file=ag["file"], line=R.get("line")):
        return
    ctx.floor(rule7, "accepted ranges (after merging adjacent ones)", len(accepted), 3)
    ctx.sample(f"accepted user-supplied gidnumbers: {show(accepted)}")
    # then => Ok, else => Err
    then_leaves = list(tail_leaves(R["then"]))
    else_leaves = list(tail_leaves(R["else"])) if "else" in R else []
    ctx.check(bool(then_leaves) and all(is_ctor(l, "Ok") for l, _ in then_leaves), rule7, ag["fn"], "accepted=>Ok",
              "condition true => Ok(())", "the branch taken when the range condition holds does not end in Ok(..) (shape not understood)",
              file=ag["file"], line=R.get("line"))
    rejected = compl(accepted)
    ctx.check(bool(else_leaves) and all(is_ctor(l, "Err") for l, _ in else_leaves), rule7, ag["fn"], "rejected=>Err",
              f"all {size(rejected)} other values => Err",
              "a value outside the accepted ranges does not reach Err(..): the else branch of the range condition is missing or can return Ok — "
              "a reserved gidnumber supplied by a user would be stored", file=ag["file"], line=R.get("line"))
    # A: accepted n reserved = 0
    for lo, hi, what in RESERVED:
        ov = inter(accepted, [(lo, hi)])
        ctx.check(not ov, rule7, ag["fn"], f"accepted-disjoint:[{lo},{hi}]", f"accepted n [{lo},{hi}] ({what}) = empty",
                  f"user-supplied gidnumbers {show(ov)} are accepted but lie in the reserved range [{lo},{hi}] ({what})",
                  file=ag["file"], line=R.get("line"))

    # ---- generation ---------------------------------------------------------------------------------------------------
    writers = []
    for n in walk(body):
        if n.get("e") in ("call", "mcall") and not n.get("exp") and has_token(tokens({"a": n.get("args", [])}), "def", GIDATTR):
            nm = short(callee_of(n), 1)
            if nm not in READERS:
                writers.append(n)
    ctx.check(len(writers) >= 1, rule7, ag["fn"], "generator-found", f"{len(writers)} write(s) of gidnumber",
              "apply_gidnumber no longer writes gidnumber (generation removed or shape not understood)", file=ag["file"], line=ag["line"])
    gen_ok_blocks = []
    for w in writers:
        key = f"generated:{short(callee_of(w), 1)}"
        vals = [x for x in walk({"a": w.get("args", [])}) if x.get("e") == "call" and ends(callee_of(x), "value::Value::new_uint32")]
        # value passed directly or through a local
        if not vals:
            for x in walk({"a": w.get("args", [])}):
                if x.get("e") == "path" and "local" in x["res"] and x["res"]["local"] in ev.binds:
                    i = unwrap(ev.binds[x["res"]["local"]])
                    if i.get("e") == "call" and ends(callee_of(i), "value::Value::new_uint32"):
                        vals.append(i)
        if not ctx.check(len(vals) == 1 and len(vals[0]["args"]) == 1, rule7, ag["fn"], key + ":shape", "value is Value::new_uint32(expr)",
                         f"gidnumber is written by {short(callee_of(w))} with a value that is not a single Value::new_uint32(expr) (shape not understood)",
                         file=ag["file"], line=w.get("line")):
            continue
        ev.sources = []
        kb = ev.bits(vals[0]["args"][0])
        if not ctx.check(kb is not None, rule7, ag["fn"], key + ":expr", "expr is a &/| combination of constants and uuid_to_gid_u32(uuid)",
                         f"the generated gidnumber expression uses something other than `&`/`|` with constants over uuid_to_gid_u32(..) "
                         f"(calls seen: {[short(s) for s in ev.sources]}) — cannot bound it, fail closed", file=ag["file"], line=w.get("line")):
            continue
        k0, k1 = kb
        lo, hi = k1, (~k0) & U32
        ctx.check("kanidmd_lib::utils::uuid_to_gid_u32" in ev.sources and all(s == "kanidmd_lib::utils::uuid_to_gid_u32" for s in ev.sources),
                  rule7, ag["fn"], key + ":source", "input is uuid_to_gid_u32(uuid) only",
                  f"generated gidnumber does not derive (only) from uuid_to_gid_u32: {[short(s) for s in ev.sources]}", file=ag["file"], line=w.get("line"))
        inside = [r for r in accepted if r[0] <= lo and hi <= r[1]]
        ctx.check(bool(inside), rule7, ag["fn"], key + ":in-accepted",
                  f"generated ids in [{lo:#x},{hi:#x}] (known0={k0:#010x}, known1={k1:#010x}) lie inside accepted {show(inside)}",
                  f"generated ids range over [{lo:#x},{hi:#x}] (known-bits image of (x & mask) | prefix), which is not inside one accepted range "
                  f"{show(accepted)} — the plugin would generate an id it would itself reject", file=ag["file"], line=w.get("line"))
        for rlo, rhi, what in RESERVED:
            ov = inter([(lo, hi)], [(rlo, rhi)])
            ctx.check(not ov, rule7, ag["fn"], key + f":disjoint:[{rlo},{rhi}]", f"generated n [{rlo},{rhi}] = empty",
                      f"generated ids can fall in {show(ov)}, inside the reserved range [{rlo},{rhi}] ({what}) "
                      f"(image of (x & mask) | prefix is [{lo:#x},{hi:#x}])", file=ag["file"], line=w.get("line"))
        ctx.sample(f"generated gid = (uuid_to_gid_u32(u) & {F.const_val(LIB, 'kanidmd_lib::plugins::gidnumber::GID_SYSTEM_NUMBER_MASK')}) | "
                   f"{F.const_val(LIB, 'kanidmd_lib::plugins::gidnumber::GID_SYSTEM_NUMBER_PREFIX')} in [{lo:#x},{hi:#x}]")
        gen_ok_blocks.append(w)

    # ---- R: classification of every Ok exit -----------------------------------------------------------------------------
    n_ok = 0
    for leaf, chain in tail_leaves(body):
        if is_ctor(leaf, "Err"):
            continue
        n_ok += 1
        cls = None
        for (node, br) in chain:
            if node is R and br == "then":
                cls = "range-checked"
            elif node is guard_if and br == "else":
                cls = cls or "no-single-gidnumber"
            elif br == "then" and any(contains_node(node["then"], w) for w in gen_ok_blocks):
                cls = cls or "generated"
        ctx.check(cls is not None and is_ctor(leaf, "Ok"), rule7, ag["fn"], f"ok-exit:{cls or 'unclassified'}",
                  f"Ok exit is {cls}", "apply_gidnumber has a success exit that is neither the generated branch, the accepted-range branch nor the "
                  "no-gidnumber branch: a gidnumber could be stored unchecked", file=ag["file"], line=leaf.get("line"))
    ctx.floor(rule7, "Ok exits of apply_gidnumber classified", n_ok, 3)
    # error exits through `?` before the write are fine; the function must not be async / contain loops we do not understand
    ctx.check(not any(n.get("e") == "loop" and not n.get("exp") for n in walk(body)), rule7, ag["fn"], "no-loops", "straight-line",
              "apply_gidnumber contains a loop (shape not understood)", file=ag["file"], line=ag["line"])

    # ---- D: K9 no RNG / clock ----------------------------------------------------------------------------------------------
    graph = {}
    closures = {}
    for (caller, callee, resolved, ln, exp, sty) in F.calls(LIB):
        tgt = resolved or callee
        if exp and tgt.startswith(LOG_PREFIX):
            continue
        graph.setdefault(caller, set()).add(tgt)
        if callee and callee != tgt and not callee.startswith("core::") and not resolved:
            graph[caller].add(callee)
        if "::{closure#" in caller:
            closures.setdefault(caller.split("::{closure#")[0], set()).add(caller)

    # dynamic dispatch / unresolved trait calls: over-approximate by every impl of that trait method in the crate
    impls = {}
    for caller in graph:
        m_ = re.match(r"^kanidmd_lib::<.+ as ([\w:]+)(?:<.*>)?>::(\w+)$", caller.split("::{closure#")[0])
        if m_:
            impls.setdefault(LIB + "::" + m_.group(1) + "::" + m_.group(2), set()).add(caller.split("::{closure#")[0])

    def reach(roots):
        seen, todo, hits = set(), list(roots), []
        while todo:
            f = todo.pop()
            if f in seen:
                continue
            seen.add(f)
            for c in closures.get(f, ()):
                todo.append(c)
            for i in impls.get(f, ()):
                todo.append(i)
            for t in graph.get(f, ()):
                if any(p in t for p in RNG_CLOCK):
                    hits.append((f, t))
                if t.startswith(LIB + "::") and t not in seen:
                    todo.append(t)
        return seen, hits

    roots = [u2g["fn"], ag["fn"]]
    seen, hits = reach(roots)
    ctx.check(not hits, "K9-deterministic", ag["fn"], "no-rng-or-clock",
              f"{len(seen)} functions reachable from uuid_to_gid_u32/apply_gidnumber, none is an RNG or clock",
              f"gid generation reaches an RNG/clock: {[(short(a), short(b)) for a, b in hits[:4]]} — the generated number would not be a function of the uuid",
              file=ag["file"], line=ag["line"])
    ctx.floor("K9-deterministic", "functions reachable from the generation path", len(seen), 5)
    base = ctx.fn(LIB, "kanidmd_lib::<plugins::base::Base as plugins::Plugin>::pre_create_transform")
    _, ctl = reach([base["fn"]])
    ctx.check(any("new_v4" in t for _, t in ctl), "K9-deterministic", base["fn"], "positive-control:new_v4",
              "control: Base::pre_create_transform reaches Uuid::new_v4 (call graph is live)",
              "positive control failed: the call graph no longer shows Base::pre_create_transform reaching Uuid::new_v4, so an empty graph could pass")
    # uuid_to_gid_u32 reads only its argument
    pure_ok = all(not any(p in c for p in RNG_CLOCK) for c in graph.get(u2g["fn"], ()))
    ctx.check(pure_ok and len(u2g["params"]) == 1 and "Uuid" in u2g["params"][0]["ty"] and u2g["ret"] == "u32", "K9-deterministic", u2g["fn"],
              "signature:Uuid->u32", "uuid_to_gid_u32(Uuid) -> u32 with no effectful callee",
              "uuid_to_gid_u32 is no longer a plain function of one Uuid", file=u2g["file"], line=u2g["line"])

    # ---- P: pipeline -----------------------------------------------------------------------------------------------------------
    P = Pipelines(ctx)
    pre = ["run_pre_create_transform", "run_pre_modify", "run_pre_batch_modify"]
    for r in pre:
        P.contains("K2-contains", r, "GidNumber", "a posix account/group written on this path gets no generated id and a supplied id is not range-checked")
    P.check_registries("K2-propagated", pre, {"GidNumber"})
    P.check_ops("K2-op", pre, need_post=False)
    for hook in ["pre_create_transform", "pre_modify", "pre_batch_modify"]:
        rec = hook_fn(ctx, "gidnumber", "GidNumber", hook)
        is_apply = lambda n: (n.get("e") in ("call", "mcall") and ends(callee_of(n), "Iterator::try_for_each", "try_for_each")
                              and has_token(tokens({"a": n.get("args", [])}), "def", "plugins::gidnumber::apply_gidnumber")) \
            or (n.get("e") == "call" and callee_of(n) == ag["fn"])
        fl = Flow(F, LIB, {"A": is_apply}, no_inline={ag["fn"]})
        succ = success_exits(fl.run(rec))
        ctx.check(bool(succ) and all("A" in x.st.must for x in succ), "K2-hook-body", rec["fn"], "applies-to-every-candidate",
                  "cand.iter_mut().try_for_each(apply_gidnumber) propagated",
                  f"GidNumber::{hook} can succeed without `try_for_each(apply_gidnumber)` having succeeded for every candidate — "
                  f"an Err from the range check would be dropped", file=rec["file"], line=rec["line"])
        # ... and over EVERY candidate: the iterator handed to try_for_each is the whole candidate list (added after seeded change C21:
        # a `.filter(..)` that skipped batch candidates whose modlist used Modify::Set, i.e. every SCIM PUT)
        from .lib.x_chain import chain, lossy
        cand_local = None
        for p in rec["params"]:
            if "Vec<" in p["ty"] and "EntryInvalid" in p["ty"] and p["pat"].get("p") == "bind":
                cand_local = p["pat"]["local"]
        tfe = [n for n in walk(rec["body"]) if n.get("e") == "mcall" and n.get("name") == "try_for_each"
               and has_token(tokens({"a": n.get("args", [])}), "def", "plugins::gidnumber::apply_gidnumber")]
        for n in tfe:
            root, names = chain(n["recv"])
            bad = lossy(names)
            ctx.check(root is not None and root == cand_local and not bad, "K2-hook-body", rec["fn"], "iterates-every-candidate",
                      "the range check / generation runs over the whole candidate list",
                      f"GidNumber::{hook} applies apply_gidnumber to a subset of the candidates only (adapters {names}, root "
                      f"{'candidates' if root == cand_local else 'not the candidate list'}): an entry skipped by the filter keeps whatever gidnumber the "
                      "request set, including reserved system ids", file=rec["file"], line=n.get("line"))
    ctx.exhaustive = True
