"""C18 Dynamic groups contain exactly the matching entries — clause: hook completeness of DynGroup (K2).

DynGroup has no registry entry of its own: it is driven from MemberOf. Decided: `DynGroup::post_create` /
`DynGroup::post_modify` are invoked (propagated) from MemberOf's create / modify inner functions *before* the memberOf
fix-point on every success path of each MemberOf hook: post-create, post-repl-refresh (create flavour) and
post-modify, post-batch-modify, post-repl-incremental (modify flavour), helpers inlined; MemberOf is in
the corresponding registries and the operations call them after the backend write.
Not decided: that apply_dyngroup_change computes exactly the set of entries matching the filter.
"""
from .lib.hir import ends, callee_any, short
from .lib.x_plugins import Pipelines, Flow, success_exits, hook_fn, LIB

META = dict(
    technique="static pipeline extraction (K2): plugin registries resolved to own impl methods, must/may flow analysis of MemberOf's hooks "
              "(DynGroup invocation dominates the memberOf fix-point)",
    level_text="Every write path that can change a candidate entry or a dynamic group's filter is enumerated and shown to reach DynGroup's "
               "update, propagated, before memberOf is recomputed. A missing invocation provably leaves dynmember stale; the plugin's own verify() checks nothing "
               "and tests add/remove one entry against a fixed filter.",
    level_note="Decides the hook-completeness clause only. NOT decided: the plugin's own logic, i.e. exact dynamic membership (that "
               "apply_dyngroup_change adds/removes exactly the entries matching each filter); delete paths rely on ReferentialIntegrity (C16) to drop members. "
               "Trusted: rustc's method resolution, rules/lib/x_plugins.py tables.",
)

WHY = "dynamic group membership would not follow this kind of write"
CREATE_FLAVOUR = ["run_post_create", "run_post_repl_refresh"]
MODIFY_FLAVOUR = ["run_post_modify", "run_post_batch_modify", "run_post_repl_incremental"]
HOOK_TO_DYN = {"post_create": "post_create", "post_repl_refresh": "post_create",
               "post_modify": "post_modify", "post_batch_modify": "post_modify", "post_repl_incremental": "post_modify"}


def is_to(*sfx):
    return lambda n: n.get("e") in ("call", "mcall") and any(ends(c, *sfx) for c in callee_any(n))


def run(ctx):
    ctx.explanation = ("K2 hook completeness for DynGroup: MemberOf (own hooks, propagated) in post-create/-modify/-batch-modify/-repl-refresh/"
                       "-repl-incremental; each of those hooks goes through MemberOf::post_{create,modify}_inner, which calls "
                       "DynGroup::post_{create,modify} with `?` before apply_memberof on every success path; DynGroup's functions reach "
                       "apply_dyngroup_change. Exactness of the computed membership is not decided.")
    P = Pipelines(ctx)
    runs = CREATE_FLAVOUR + MODIFY_FLAVOUR
    for r in runs:
        P.contains("K2-contains", r, "MemberOf", "DynGroup is only driven from MemberOf's hooks; " + WHY)
    P.check_registries("K2-propagated", runs, {"MemberOf"})
    P.check_ops("K2-op", runs, need_pre=False)
    # every MemberOf hook: DynGroup's update (propagated) on every success path, and before the memberOf fix-point.
    # Helper functions of MemberOf (today post_create_inner / post_modify_inner) are inlined, so their names do not matter.
    for hook, flavour in HOOK_TO_DYN.items():
        dyn = "plugins::dyngroup::DynGroup::" + flavour
        rec = hook_fn(ctx, "memberof", "MemberOf", hook)
        fl = Flow(ctx.facts, LIB, {"D": is_to(dyn), "A": is_to("plugins::memberof::apply_memberof")},
                  no_inline={"kanidmd_lib::" + dyn, "kanidmd_lib::plugins::memberof::apply_memberof"})
        succ = success_exits(fl.run(rec))
        dsites, asites = fl.ordered_sites("D"), fl.ordered_sites("A")
        ctx.check(bool(dsites) and bool(succ) and all("D" in x.st.must for x in succ), "K2-dyngroup", rec["fn"], f"calls:{short(dyn, 2)}",
                  f"{short(dyn, 2)} propagated on every success path of MemberOf::{hook}",
                  f"MemberOf::{hook} has a success path without a propagated call of {short(dyn, 2)} (directly or through its helpers) — {WHY}",
                  file=rec["file"], line=rec["line"])
        ctx.check(bool(asites) and all("D" in a.st.must for a in asites), "K2-dyngroup", rec["fn"], "dyngroup-before-fixpoint",
                  f"{short(dyn, 2)} succeeded before apply_memberof",
                  f"MemberOf::{hook} runs apply_memberof at a point where {short(dyn, 2)} has not succeeded: memberOf would be computed from stale dynmember values",
                  file=rec["file"], line=(asites[0].node.get("line") if asites else rec["line"]))
        ctx.sample(f"MemberOf::{hook}: " + " > ".join(f"{s_.ev}@{short(s_.fn, 1)}:{s_.node.get('line')}" for s_ in fl.ordered_sites()))
    # DynGroup's own entry points reach the change function (propagated wherever it is called)
    for fn_ in ("post_create", "post_modify"):
        rec = ctx.fn(LIB, "kanidmd_lib::plugins::dyngroup::DynGroup::" + fn_)
        tgt = "plugins::dyngroup::DynGroup::apply_dyngroup_change"
        fl = Flow(ctx.facts, LIB, {"C": is_to(tgt)}, no_inline={"kanidmd_lib::" + tgt})
        fl.run(rec)
        cs = fl.ordered_sites("C")
        # the call is conditional (only when dyn groups / candidates exist) but when made, its failure must not be swallowed
        swallowed = [c for c in cs if not c.propagated]
        ctx.check(bool(cs) and not swallowed, "K2-dyngroup", rec["fn"], "reaches:apply_dyngroup_change",
                  f"{len(cs)} call(s) of apply_dyngroup_change, result propagated",
                  f"DynGroup::{fn_} " + ("no longer calls apply_dyngroup_change" if not cs else
                                         "can return success after apply_dyngroup_change was called without propagating its result") + f" — {WHY}",
                  file=rec["file"], line=rec["line"])
    dyngroup_cache_follows_the_entry(ctx)


# ---------------------------------------------------------------------------------------------------------------------
# Later creates / modifies of candidate entries are matched against the *cached* parsed filter of every dynamic group
# (DynGroupCache.insts). The cache is only the entry's filter if apply_dyngroup_change overwrites the cached value whenever it
# (re)processes a dynamic group. (added after seeded change C18: `insts.entry(uuid).or_insert(scope_i)` keeps the OLD filter when
# a group's dyngroup_filter is modified)

def dyngroup_cache_follows_the_entry(ctx):
    from .lib.hir import walk, unwrap
    R = "K4-dyngroup-cache-overwritten"
    f = ctx.fn(LIB, "kanidmd_lib::plugins::dyngroup::DynGroup::apply_dyngroup_change")

    def on_insts(n):
        r = unwrap(n.get("recv", {}))
        while isinstance(r, dict):
            if r.get("e") == "field":
                if r.get("f") == "insts":
                    return True
                r = unwrap(r["x"])
            elif r.get("e") == "mcall":
                r = unwrap(r["recv"])
            else:
                return False
        return False

    inserts = [n for n in walk(f["body"]) if n.get("e") == "mcall" and n.get("name") == "insert" and on_insts(n)]
    keep_old = [n for n in walk(f["body"]) if n.get("e") == "mcall" and n.get("name") in ("or_insert", "or_insert_with", "or_default", "try_insert", "or_insert_with_key")
                and on_insts(n)]
    ctx.check(len(inserts) >= 1 and not keep_old, R, f["fn"], "insts-overwritten-with-parsed-filter",
              "dyn_groups.insts.insert(uuid, <parsed filter>)",
              "apply_dyngroup_change " + ("keeps an existing cache entry (`" + keep_old[0]["name"] + "`)" if keep_old else "no longer inserts the parsed filter into the cache") +
              ": after a dynamic group's filter is modified the cache still holds the OLD filter, so entries created or modified afterwards are matched against "
              "it — new matches are not added as members and entries that only match the old filter are", file=f["file"],
              line=(keep_old or [f])[0].get("line"))
