"""C16 No dangling references — clause: hook completeness of ReferentialIntegrity (K2).

Decided (DESIGN.md "C16 ... C22"): `ReferentialIntegrity`'s own hook runs, unconditionally and with its result
propagated, in every registry that follows a write which can add, change or remove a reference or its target:
post-create, post-modify, post-batch-modify, post-delete, post-repl-refresh, post-repl-incremental-conflict (last),
post-repl-incremental (before MemberOf); and the write operations call those registries after the backend write on
every success path.
Not decided: the plugin's own logic (that the checks/removals it performs leave no dangling reference after
arbitrary histories).
"""
from .lib.x_plugins import Pipelines, hook_nontrivial

META = dict(
    technique="static pipeline extraction (K2): ordered plugin-hook lists of Plugins::run_* resolved to the impl's own methods, "
              "must/may flow analysis of the write operations",
    level_text="Every write path (create, modify, batch modify, delete, revive, replication refresh and incremental) is enumerated from the "
               "type-checked code and shown to invoke ReferentialIntegrity's own hook after the backend write, with failures propagated. "
               "A missing hook provably lets dangling references be committed; tests only script single deletes/modifies.",
    level_note="Decides the hook-completeness clause only. NOT decided: the plugin's own logic, i.e. the absence of dangling references over "
               "arbitrary histories (exact reference scan/removal inside refint.rs). Trusted: rustc's method resolution, the registry/operation tables in rules/lib/x_plugins.py.",
)

PLUGIN = "ReferentialIntegrity"
WHY = "a write could commit a reference to a non-live entry (or keep references to a deleted one) unchecked"
POST = ["run_post_create", "run_post_modify", "run_post_batch_modify", "run_post_delete", "run_post_repl_refresh",
        "run_post_repl_incremental_conflict", "run_post_repl_incremental"]


def run(ctx):
    ctx.explanation = ("K2 hook completeness: ReferentialIntegrity's own (non-default) hook is present, unconditional and propagated in the "
                       "seven post-write registries, ordered last in post-repl-incremental-conflict and before MemberOf in post-repl-incremental; "
                       "every write operation runs the matching post registry after the backend write on all success paths. "
                       "The reference-checking logic of the plugin itself is not decided.")
    P = Pipelines(ctx)
    for run_ in POST:
        P.contains("K2-contains", run_, PLUGIN, WHY)
    P.check_registries("K2-propagated", POST, {PLUGIN})
    P.last("K2-order", "run_post_repl_incremental_conflict", PLUGIN,
           "references to entries that other plugins (AttrUnique) moved to the conflict state must be cleaned after they did so")
    P.before("K2-order", "run_post_repl_incremental", PLUGIN, "MemberOf",
             "memberOf must be recomputed after dangling members were removed")
    P.check_ops("K2-op", POST, need_pre=False)
    for hook in ["post_create", "post_modify", "post_batch_modify", "post_delete", "post_repl_refresh",
                 "post_repl_incremental_conflict", "post_repl_incremental"]:
        hook_nontrivial(ctx, "K2-hook-body", "refint", PLUGIN, hook)
    reference_removal_visits_everything(ctx)


# ---------------------------------------------------------------------------------------------------------------------
# The plugin removes a deleted uuid from reference attributes through ValueSetT::remove (via Entry::remove_avas). A value
# set that stores references in several inner containers must visit all of them: a removal placed inside the closure of a
# short-circuiting adapter (`any`, `find`, `all`, `position`, ...) stops at the first hit and leaves the other references
# dangling. (added after seeded change C16: ValueSetOauthClaimMap::remove rewritten with `values_mut().any(|m| m.values.remove(u).is_some())`)

SHORT_CIRCUIT = ("any", "all", "find", "find_map", "position", "rposition", "take_while", "skip_while", "map_while")
REMOVERS = ("remove", "retain", "clear", "pop", "swap_remove", "drain", "truncate", "remove_entry", "take", "pop_first", "pop_last", "split_off")


def reference_removal_visits_everything(ctx):
    from .lib.hir import walk, unwrap
    R = "K4-reference-removal-visits-all"
    F = ctx.facts
    LIBC = "kanidmd_lib"
    names = F.find_fns(LIBC, r"^kanidmd_lib::<valueset::.* as valueset::ValueSetT>::remove$")
    names += F.find_fns(LIBC, r"^kanidmd_lib::entry::Entry::<.*>::remove_avas?$")
    names += F.find_fns(LIBC, r"^kanidmd_lib::plugins::refint::ReferentialIntegrity::remove_references$")
    ctx.floor(R, "reference-removal functions (ValueSetT::remove impls, Entry::remove_ava(s), refint)", len(names), 45)
    n_sc = 0
    for name in sorted(set(names)):
        f = ctx.fn(LIBC, name)
        for c in walk(f["body"]):
            if c.get("e") == "mcall" and c.get("name") in SHORT_CIRCUIT:
                for a in c.get("args", []):
                    a = unwrap(a)
                    if a.get("e") != "closure":
                        continue
                    n_sc += 1
                    muts = [m for m in walk(a["body"]) if m.get("e") == "mcall" and m.get("name") in REMOVERS and not m.get("exp")]
                    ty = name.split(" as ")[0].split("::")[-1]
                    where = f" (`.{muts[0]['name']}(..)` at line {muts[0].get('line')})" if muts else ""
                    ctx.check(not muts, R, name, f"no-removal-under:{c['name']}", f"`{c['name']}` closure has no removal side effect",
                              f"{ty}::remove removes values inside the closure of the short-circuiting adapter `{c['name']}`{where}: iteration stops at the "
                              "first container that held the value, so the same reference stays in the remaining containers — after its target is "
                              "deleted that is a dangling reference which later modifies never repair",
                              file=f["file"], line=c.get("line"))
    # positive control for the scanner itself: the crate does contain short-circuit closures (so an empty scan means broken facts)
    total = 0
    for nm in F.fns_mentioning(LIBC, '"name":"any"'):
        total += 1
        if total >= 20:
            break
    ctx.floor(R, "bodies with a short-circuit adapter in kanidmd_lib (scanner control)", total, 20)
