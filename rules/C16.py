"""C16 No dangling references — clause: hook completeness of ReferentialIntegrity (K2).

Decided (DESIGN.md "C16 ... C22"): `ReferentialIntegrity`'s own hook runs, unconditionally and with its result
propagated, in every registry that follows a write which can add, change or remove a reference or its target:
post-create, post-modify, post-batch-modify, post-delete, post-repl-refresh, post-repl-incremental-conflict (last),
post-repl-incremental (before MemberOf); and the write operations call those registries after the backend write on
every success path.
 K4-deleted-means-recycled-or-tombstone  post_repl_incremental's liveness tests use mask_recycled_ts on pre- and post-image (no partial predicate).
Not decided: the plugin's own logic (that the checks/removals it performs leave no dangling reference after
arbitrary histories).
 K4-reference-existence-per-uuid  check_uuids_exist_fast must establish existence per referenced uuid; today it tests an Inclusion under the
     hidden-entry exclusion (one live uuid vouches for recycled ones): known finding F18, findings/F18_C16.
"""
from .lib.x_plugins import Pipelines, hook_nontrivial

META = dict(
    technique="static pipeline extraction (K2): ordered plugin-hook lists of Plugins::run_* resolved to the impl's own methods, "
              "must/may flow analysis of the write operations",
    level_text="Every write path (create, modify, batch modify, delete, revive, replication refresh and incremental) is enumerated from the "
               "type-checked code and shown to invoke ReferentialIntegrity's own hook after the backend write, with failures propagated. "
               "A missing hook provably lets dangling references be committed; tests only script single deletes/modifies.",
    level_note="Decides the hook-completeness clause only. NOT decided: the plugin's own logic, i.e. the absence of dangling references over "
               "arbitrary histories (exact reference scan/removal inside refint.rs). Trusted: rustc's method resolution, the registry/operation tables in rules/lib/x_plugins.py.",
)

PLUGIN = "ReferentialIntegrity"
WHY = "a write could commit a reference to a non-live entry (or keep references to a deleted one) unchecked"
POST = ["run_post_create", "run_post_modify", "run_post_batch_modify", "run_post_delete", "run_post_repl_refresh",
        "run_post_repl_incremental_conflict", "run_post_repl_incremental"]


def run(ctx):
    _run_main(ctx)
    deleted_means_recycled_or_tombstone(ctx)
    existence_test_is_per_reference(ctx)


def _run_main(ctx):
    ctx.explanation = ("K2 hook completeness: ReferentialIntegrity's own (non-default) hook is present, unconditional and propagated in the "
                       "seven post-write registries, ordered last in post-repl-incremental-conflict and before MemberOf in post-repl-incremental; "
                       "every write operation runs the matching post registry after the backend write on all success paths. "
                       "The reference-checking logic of the plugin itself is not decided.")
    P = Pipelines(ctx)
    for run_ in POST:
        P.contains("K2-contains", run_, PLUGIN, WHY)
    P.check_registries("K2-propagated", POST, {PLUGIN})
    P.last("K2-order", "run_post_repl_incremental_conflict", PLUGIN,
           "references to entries that other plugins (AttrUnique) moved to the conflict state must be cleaned after they did so")
    P.before("K2-order", "run_post_repl_incremental", PLUGIN, "MemberOf",
             "memberOf must be recomputed after dangling members were removed")
    P.check_ops("K2-op", POST, need_pre=False)
    for hook in ["post_create", "post_modify", "post_batch_modify", "post_delete", "post_repl_refresh",
                 "post_repl_incremental_conflict", "post_repl_incremental"]:
        hook_nontrivial(ctx, "K2-hook-body", "refint", PLUGIN, hook)
    reference_removal_visits_everything(ctx)


# ---------------------------------------------------------------------------------------------------------------------
# The plugin removes a deleted uuid from reference attributes through ValueSetT::remove (via Entry::remove_avas). A value
# set that stores references in several inner containers must visit all of them: a removal placed inside the closure of a
# short-circuiting adapter (`any`, `find`, `all`, `position`, ...) stops at the first hit and leaves the other references
# dangling. (added after seeded change C16: ValueSetOauthClaimMap::remove rewritten with `values_mut().any(|m| m.values.remove(u).is_some())`)

SHORT_CIRCUIT = ("any", "all", "find", "find_map", "position", "rposition", "take_while", "skip_while", "map_while")
REMOVERS = ("remove", "retain", "clear", "pop", "swap_remove", "drain", "truncate", "remove_entry", "take", "pop_first", "pop_last", "split_off")


def reference_removal_visits_everything(ctx):
    from .lib.hir import walk, unwrap
    R = "K4-reference-removal-visits-all"
    F = ctx.facts
    LIBC = "kanidmd_lib"
    names = F.find_fns(LIBC, r"^kanidmd_lib::<valueset::.* as valueset::ValueSetT>::remove$")
    names += F.find_fns(LIBC, r"^kanidmd_lib::entry::Entry::<.*>::remove_avas?$")
    names += F.find_fns(LIBC, r"^kanidmd_lib::plugins::refint::ReferentialIntegrity::remove_references$")
    ctx.floor(R, "reference-removal functions (ValueSetT::remove impls, Entry::remove_ava(s), refint)", len(names), 45)
    n_sc = 0
    for name in sorted(set(names)):
        f = ctx.fn(LIBC, name)
        for c in walk(f["body"]):
            if c.get("e") == "mcall" and c.get("name") in SHORT_CIRCUIT:
                for a in c.get("args", []):
                    a = unwrap(a)
                    if a.get("e") != "closure":
                        continue
                    n_sc += 1
                    muts = [m for m in walk(a["body"]) if m.get("e") == "mcall" and m.get("name") in REMOVERS and not m.get("exp")]
                    ty = name.split(" as ")[0].split("::")[-1]
                    where = f" (`.{muts[0]['name']}(..)` at line {muts[0].get('line')})" if muts else ""
                    ctx.check(not muts, R, name, f"no-removal-under:{c['name']}", f"`{c['name']}` closure has no removal side effect",
                              f"{ty}::remove removes values inside the closure of the short-circuiting adapter `{c['name']}`{where}: iteration stops at the "
                              "first container that held the value, so the same reference stays in the remaining containers — after its target is "
                              "deleted that is a dangling reference which later modifies never repair",
                              file=f["file"], line=c.get("line"))
    # positive control for the scanner itself: the crate does contain short-circuit closures (so an empty scan means broken facts)
    total = 0
    for nm in F.fns_mentioning(LIBC, '"name":"any"'):
        total += 1
        if total >= 20:
            break
    ctx.floor(R, "bodies with a short-circuit adapter in kanidmd_lib (scanner control)", total, 20)


# ---------------------------------------------------------------------------------------------------------------------
# On incremental replication an entry can arrive recycled *or* already tombstoned (the supplier's recycle bin was purged in
# between). post_repl_incremental must treat both as "deleted" when it decides whose references to remove: its liveness
# tests use Entry::mask_recycled_ts on the pre- and the post-image, never one of the partial predicates (mask_recycled lets
# tombstones through, mask_tombstone lets recycled entries through).

def deleted_means_recycled_or_tombstone(ctx):
    from .lib.hir import all_calls, callee_of
    R_ = "K4-deleted-means-recycled-or-tombstone"
    names = ctx.facts.find_fns("kanidmd_lib", r"^kanidmd_lib::<plugins::refint::ReferentialIntegrity as plugins::Plugin>::post_repl_incremental$")
    if not ctx.check(len(names) == 1, R_, "kanidmd_lib::plugins::refint", "hook-found", "post_repl_incremental found",
                     f"expected one ReferentialIntegrity::post_repl_incremental, found {len(names)} (anchor drift)"):
        return
    fn = ctx.fn("kanidmd_lib", names[0])
    calls = [c for c in all_calls(fn["body"]) if not c.get("exp")]
    full = [c for c in calls if callee_of(c).endswith("::mask_recycled_ts")]
    partial = [c for c in calls if callee_of(c).endswith("::mask_recycled") or callee_of(c).endswith("::mask_tombstone")]
    rem = [c for c in calls if callee_of(c).endswith("::remove_references")]
    ctx.check(len(rem) >= 1, R_, fn["fn"], "removes-references", "remove_references called",
              "post_repl_incremental no longer calls remove_references: references to entries deleted by replication are never removed",
              file=fn["file"], line=fn["line"])
    ctx.check(len(full) >= 2 and not partial, R_, fn["fn"], "liveness:mask_recycled_ts(pre,post)",
              f"{len(full)} liveness tests with mask_recycled_ts, none with a partial predicate",
              f"post_repl_incremental decides which entries became deleted with {sorted({callee_of(c).rsplit('::', 1)[-1] for c in partial}) or 'fewer than two mask_recycled_ts tests'}"
              f" (mask_recycled_ts calls: {len(full)}): an entry that arrives already tombstoned (or recycled) is not treated as deleted, remove_references is not run for it "
              "and live entries keep pointing at it", file=fn["file"], line=(partial[0] if partial else fn).get("line"))


# ---------------------------------------------------------------------------------------------------------------------
# "A write that would create such a reference is refused": the plugin's fast existence test must hold for every referenced
# uuid separately. An Inclusion term (f_inc) yields the union of its terms once every term matched something - the uuid
# index also lists recycled entries - and the hidden-entry exclusion that filter! wraps around it is subtracted from that
# union afterwards. One live uuid therefore vouches for any number of recycled ones (finding F18).

def existence_test_is_per_reference(ctx):
    from .lib.hir import all_calls, callee_of
    R_ = "K4-reference-existence-per-uuid"
    names = [n for n in ctx.facts.fn_names("kanidmd_lib") if n.endswith("ReferentialIntegrity::check_uuids_exist_fast")]
    if not ctx.check(len(names) == 1, R_, "kanidmd_lib::plugins::refint", "fast-check-found", "check_uuids_exist_fast found",
                     f"expected one check_uuids_exist_fast, found {len(names)} (anchor drift)"):
        return
    fn = ctx.fn("kanidmd_lib", names[0])
    cs = {callee_of(c).rsplit("::", 1)[-1] for c in all_calls(fn["body"])}
    union_under_hidden = "f_inc" in cs and "new_ignore_hidden" in cs and "internal_exists" in cs
    ctx.check(not union_under_hidden, R_, fn["fn"], "inclusion-under-ignore-hidden",
              "existence is established per referenced uuid",
              "check_uuids_exist_fast asks internal_exists for filter!(f_inc(uuid terms)): the Inclusion is satisfied when every uuid matches *some* entry (recycled ones included) "
              "and the recycled/tombstone exclusion is applied to the union, so a write that references one live and one recycled entry is accepted",
              file=fn["file"], line=fn["line"])
