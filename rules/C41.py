"""C41 LDAP and SCIM filters mean what their standards say.

Decided (DESIGN.md C41):
 K5  FilterComp::from_ldap_ro / from_scim_ro are extracted from HIR as maps  protocol operator -> FilterComp template
     (unsupported => Err) and compared with the expected table of DESIGN.md (a template that differs from the table but is
     proven exact by K7, or is Err, is accepted: stricter / newly supported operators never alarm).
 K7  every template is evaluated under the boolean reference semantics of FilterComp (C01) against the standard's
     any-value semantics (RFC 4511 / RFC 7644) on every realisable small value set: value sets of size <= 2 over a 3-point
     ordered domain for presence/equality/substring-class operators and the boolean connectives; for the ordering operators
     the size bound per ordered syntax is 1 when *every* schema attribute of that syntax is single-valued, else 2.
 K8  the single-valuedness fact is checked on every SchemaAttribute literal of kanidmd_lib (all migration levels and the
     in-memory core schema); the set of ordered syntaxes is *derived*: syntaxes whose ValueSetT impl has a non-trivial `lessthan`.
 K5' sibling rule: every non-trivial ValueSetT::lessthan is  match pv { PartialValue::V(u) => set.iter().{any|all}(|x| x < u), _ => false }
     (strict `<`, set value on the left); `all` is exact only on single-valued syntaxes (observation O3).
Findings F1-F3 (what a translated filter then returns from the index algebra) belong to C01 and are not reported here.
Not decided: attribute-name mapping (ldap_attr_filter_map), value parsing, RFC 4511 substring ordering (the And[Stw,Cnt*,Enw]
template is a per-component approximation, compared with the table only), three-valued (Undefined) LDAP logic.
"""
import itertools
import re
from collections import defaultdict
from .lib.hir import *
from .lib.pathcond import try_inner

META = dict(
    technique="operator->template table extraction from type-checked HIR (K5) + exhaustive finite-domain evaluation of each template against the standard's any-value semantics (K7) + schema-constant fact (K8)",
    level_text="Every arm of both filter translators is extracted as a FilterComp template and evaluated against the protocol semantics on every "
               "value set of the bounded domain (complete enumeration; the bound for ordering operators is justified by a checked schema fact: "
               "which ordered syntaxes have multi-valued attributes). Tests translate a few fixed filters.",
    level_note="Decides: the operator->template maps, their exactness under boolean reference semantics on realisable value sets, orientation/"
               "strictness/quantifier of every non-trivial lessthan. Not decided: attribute name mapping, value parsing, RFC 4511 substring "
               "component ordering (table comparison only), LDAP Undefined logic; what the backend returns for the translated filter is C01.",
)

LIB = "kanidmd_lib"
FC = "kanidmd_lib::filter::FilterComp"
PV = "kanidmd_lib::value::PartialValue"
ST = "kanidmd_lib::value::SyntaxType"
F_LDAP = "kanidmd_lib::filter::FilterComp::from_ldap_ro"
F_SCIM = "kanidmd_lib::filter::FilterComp::from_scim_ro"

LDAP_EXPECT = {
    "And": "And[REC0*]", "Or": "Or[REC0*]", "Not": "AndNot(REC0)", "Equality": "alt{Eq|Err|Invalid}", "Present": "Pres",
    "Substring": "And[Stw?,Cnt*,Enw?]", "GreaterOrEqual": "Err", "LessOrEqual": "Err", "Approx": "Err", "Extensible": "Err",
}
SCIM_EXPECT = {
    "Present": "Pres", "Equal": "Eq", "Contains": "Cnt", "StartsWith": "Stw", "EndsWith": "Enw", "Less": "LessThan",
    "Greater": "And[Pres,AndNot(Or[LessThan,Eq])]", "GreaterOrEqual": "And[Pres,AndNot(LessThan)]", "LessOrEqual": "Or[LessThan,Eq]",
    "Not": "AndNot(REC0)", "Or": "Or[REC0,REC1]", "And": "And[REC0,REC1]", "NotEqual": "Err", "Complex": "Err",
}
# standard operator of each protocol variant
LDAP_STD = {"And": "and*", "Or": "or*", "Not": "not", "Equality": "eq", "Present": "pr", "Substring": "substr",
            "GreaterOrEqual": "ge", "LessOrEqual": "le", "Approx": "approx", "Extensible": "ext"}
SCIM_STD = {"Present": "pr", "Equal": "eq", "NotEqual": "ne", "Contains": "co", "StartsWith": "sw", "EndsWith": "ew", "Greater": "gt",
            "Less": "lt", "GreaterOrEqual": "ge", "LessOrEqual": "le", "Not": "not", "Or": "or2", "And": "and2", "Complex": "complex"}
ORDERING = ("lt", "le", "gt", "ge")
# ordering primitives of FilterComp -> (ValueSetT method that implements it, comparison it must perform)
ORDER_PRIMS = {"LessThan": ("lessthan", "<"), "GreaterThan": ("greaterthan", ">")}
# SchemaAttribute values built at run time from an existing value / a stored entry (not constant table rows)
RUNTIME_SCHEMA_CTORS = {
    "kanidmd_lib::<schema::SchemaAttribute as core::clone::Clone>::clone": "derived Clone",
    "kanidmd_lib::<schema::SchemaAttribute as core::default::Default>::default": "Default (multivalue: false)",
    "kanidmd_lib::schema::SchemaAttribute::try_from": "reload of stored schema entries (those entries are created from the statics; the level's schema is static)",
}
DOM = (0, 1, 2)


class Shape(Exception):
    pass


# ---------------------------------------------------------------------------
# template extraction

class Extractor:
    def __init__(self, fn):
        self.fn = fn
        self.selfname = fn["fn"]
        self.binds = {}
        self.mutvecs = {}
        for n in walk(fn["body"]):
            if n.get("s") == "let" and "init" in n and "else" not in n:
                p = n["pat"]
                if p.get("p") == "bind" and "sub" not in p:
                    if p.get("mut"):
                        self.mutvecs[p["local"]] = n["init"]
                    else:
                        self.binds[p["local"]] = n["init"]
        self.patlocals = {}

    def arm(self, arm):
        """template of one arm; pattern bindings are numbered in pattern order (REC0, REC1 ..)."""
        self.patlocals = {}
        i = 0
        for n in walk(arm["pat"]):
            if n.get("p") == "bind":
                self.patlocals[n["local"]] = i
                i += 1
        self.armbody = arm["body"]
        t = self.T(arm["body"], 0)
        if t is None:
            raise Shape(f"arm body at line {arm['body'].get('line')} yields no FilterComp template")
        return t

    def rec_index(self, call):
        if not call.get("args"):
            return None
        a = unwrap(call["args"][0])
        if a.get("e") == "path" and "local" in a["res"]:
            return a["res"]["local"]
        return None

    def T(self, e, depth):
        if depth > 40:
            raise Shape("expression too deep")
        e = unwrap(e)
        if not isinstance(e, dict):
            return None
        k = e.get("e")
        if k == "call":
            ctor = e.get("ctor") or ""
            if ctor.startswith(FC + "::"):
                kids = [self.T(a, depth + 1) for a in e["args"]]
                kids = [x for x in kids if x is not None]
                return ("op", ctor[len(FC) + 2:], kids)
            cal = callee_of(e)
            if cal == self.selfname:
                loc = self.rec_index(e)
                return ("rec", self.patlocals.get(loc, "?"))
            if ends(cal, "core::result::Result::Err"):
                return ("err",)
            kids = [self.T(a, depth + 1) for a in e["args"]]
            kids = [x for x in kids if x is not None]
            if len(kids) == 1:
                return kids[0]
            if len(kids) > 1:
                raise Shape(f"call to {short(cal)} at line {e.get('line')} combines {len(kids)} filter values")
            return None
        if k == "mcall":
            nm = e.get("name")
            if nm == "collect":
                # l.iter().map(|f| Self::from_x(f, ..)).collect()
                src = None
                r = e
                clos = None
                while isinstance(r, dict) and r.get("e") == "mcall":
                    for a in r["args"]:
                        if unwrap(a).get("e") == "closure":
                            clos = unwrap(a)
                    r = unwrap(r["recv"])
                if clos is not None:
                    t = self.T(clos["body"], depth + 1)
                    if t is not None and t[0] == "rec":
                        if r.get("e") == "path" and "local" in r["res"]:
                            src = self.patlocals.get(r["res"]["local"], "?")
                        return ("reclist", src if src is not None else "?")
                    if t is not None:
                        raise Shape(f"collect over a non-recursive filter closure at line {e.get('line')}")
                return None
            if nm in ("clone", "to_owned", "into"):
                return self.T(e["recv"], depth + 1)
            return None
        if k == "array":
            items = []
            for x in e["xs"]:
                t = self.T(x, depth + 1)
                if t is None:
                    return None
                items.append(("1", t))
            return ("list", items)
        if k == "match":
            src = e.get("src", "")
            if "TryDesugar" in src:
                return self.T(try_inner(e), depth + 1)
            if src == "Normal":
                alts = []
                for a in e["arms"]:
                    t = self.T(a["body"], depth + 1)
                    if t is not None:
                        alts.extend(t[1] if t[0] == "alt" else [t])
                if not alts:
                    return None
                return alts[0] if len(alts) == 1 else ("alt", alts)
            return None
        if k == "if":
            alts = []
            for b in (e["then"], e.get("else")):
                if b is None:
                    continue
                t = self.T(b, depth + 1)
                if t is not None:
                    alts.extend(t[1] if t[0] == "alt" else [t])
            if not alts:
                return None
            return alts[0] if len(alts) == 1 else ("alt", alts)
        if k == "ret":
            return ("err",)
        if k == "blockexpr":
            b = e["b"]
            if "tail" in b:
                return self.T(b["tail"], depth + 1)
            # a block ending in `return Err(..);`
            for s in reversed(b["stmts"]):
                if s.get("s") == "expr":
                    return self.T(s["x"], depth + 1)
            return None
        if k == "path" and "local" in e["res"]:
            loc = e["res"]["local"]
            if loc in self.binds:
                return self.T(self.binds[loc], depth + 1)
            if loc in self.mutvecs:
                return self.pushes(loc)
            return None
        return None

    def pushes(self, loc):
        items = []

        def visit(n, mult):
            if isinstance(n, list):
                for x in n:
                    visit(x, mult)
                return
            if not isinstance(n, dict):
                return
            k = n.get("e")
            if k == "mcall" and n.get("name") == "push":
                r = unwrap(n["recv"])
                if r.get("e") == "path" and r["res"].get("local") == loc:
                    t = self.T(n["args"][0], 0)
                    if t is None:
                        raise Shape(f"push of a non-filter value at line {n.get('line')}")
                    items.append((mult, t))
                    return
            if k == "if":
                visit(n["cond"], mult)
                m2 = "*" if mult == "*" else "?"
                visit(n["then"], m2)
                if "else" in n:
                    visit(n["else"], m2)
                return
            if k == "loop":
                visit(n["body"], "*")
                return
            if k == "match" and n.get("src") == "Normal":
                visit(n["scrut"], mult)
                for a in n["arms"]:
                    visit(a["body"], "*" if mult == "*" else "?")
                return
            if k == "closure":
                visit(n["body"], "*")
                return
            for key, v in n.items():
                if key in ("line", "exp"):
                    continue
                if isinstance(v, (dict, list)):
                    visit(v, mult)

        visit(self.armbody, "1")
        return ("list", items)


def render(t):
    k = t[0]
    if k == "err":
        return "Err"
    if k == "rec":
        return f"REC{t[1]}"
    if k == "reclist":
        return f"REC{t[1]}*"
    if k == "alt":
        return "alt{" + "|".join(sorted({render(x) for x in t[1]})) + "}"
    if k == "list":
        return ",".join(render(x) + ("" if m == "1" else m) for (m, x) in t[1])
    if k == "op":
        name, kids = t[1], t[2]
        if not kids:
            return name
        if len(kids) == 1 and kids[0][0] in ("list", "reclist"):
            return name + "[" + render(kids[0]) + "]"
        return name + "(" + ",".join(render(x) for x in kids) + ")"
    return "?"


# ---------------------------------------------------------------------------
# semantics

def ev(t, S, v, q, P, kids):
    """boolean reference semantics (C01) of template t on an entry whose attribute has value set S."""
    k = t[0]
    if k == "rec":
        if not isinstance(t[1], int) or t[1] >= len(kids):
            raise Shape(f"recursive call on operand {t[1]} but the operator has {len(kids)} operand(s)")
        return kids[t[1]]
    if k == "op":
        name, ch = t[1], t[2]
        if name == "Pres":
            return bool(S)
        if name == "Eq":
            return v in S
        if name in ORDER_PRIMS:
            qq = q.get(name, "trivial")
            lt = ORDER_PRIMS[name][1] == "<"
            if qq == "any":
                return any((x < v) if lt else (x > v) for x in S)
            if qq == "all":
                return bool(S) and all((x < v) if lt else (x > v) for x in S)
            return False
        if name in ("Cnt", "Stw", "Enw"):
            return any(P[name][x] for x in S)
        if name == "Invalid":
            return False
        if name in ("And", "Or"):
            if len(ch) != 1:
                raise Shape(f"{name} with {len(ch)} filter arguments")
            c = ch[0]
            if c[0] == "reclist":
                vals = list(kids)
            elif c[0] == "list":
                if any(m != "1" for (m, _) in c[1]):
                    raise Shape("optional/repeated list items are compared with the table only")
                vals = [ev(x, S, v, q, P, kids) for (_, x) in c[1]]
            else:
                raise Shape(f"{name} argument is not a list")
            return all(vals) if name == "And" else any(vals)
        if name == "AndNot":
            if len(ch) != 1:
                raise Shape("AndNot without exactly one operand")
            return not ev(ch[0], S, v, q, P, kids)
        raise Shape(f"FilterComp::{name} has no reference semantics in this rule")
    raise Shape(f"template node {k} cannot be evaluated")


def std(op, S, v, P, kids):
    if op == "pr":
        return bool(S)
    if op == "eq":
        return v in S
    if op == "co":
        return any(P["Cnt"][x] for x in S)
    if op == "sw":
        return any(P["Stw"][x] for x in S)
    if op == "ew":
        return any(P["Enw"][x] for x in S)
    if op == "lt":
        return any(x < v for x in S)
    if op == "le":
        return any(x <= v for x in S)
    if op == "gt":
        return any(x > v for x in S)
    if op == "ge":
        return any(x >= v for x in S)
    if op == "not":
        return not kids[0]
    if op in ("and*", "and2"):
        return all(kids)
    if op in ("or*", "or2"):
        return any(kids)
    raise Shape(f"no standard semantics for {op}")


def value_sets(bound):
    out = [()]
    for n in range(1, bound + 1):
        out.extend(itertools.combinations(DOM, n))
    return out


def uses(t, *names):
    if t[0] == "op":
        if t[1] in names:
            return True
        return any(uses(c, *names) for c in t[2])
    if t[0] == "list":
        return any(uses(x, *names) for (_, x) in t[1])
    if t[0] == "alt":
        return any(uses(x, *names) for x in t[1])
    return False


def compare(t, op, q, bound):
    """first counterexample (S, v, kids, got, want) or None; returns evaluations count too."""
    n = 0
    if op in ("not",):
        kid_space = [(False,), (True,)]
    elif op in ("and2", "or2"):
        kid_space = list(itertools.product((False, True), repeat=2))
    elif op in ("and*", "or*"):
        kid_space = [k for r in range(0, 4) for k in itertools.product((False, True), repeat=r)]
    else:
        kid_space = [()]
    subs = uses(t, "Cnt", "Stw", "Enw") or op in ("co", "sw", "ew")
    pspace = [dict(zip(DOM, bits)) for bits in itertools.product((False, True), repeat=len(DOM))] if subs else [dict.fromkeys(DOM, False)]
    connective = op in ("not", "and2", "or2", "and*", "or*")
    for S in (value_sets(bound) if not connective else [()]):
        for v in (DOM if not connective else (0,)):
            for pb in pspace:
                P = {"Cnt": pb, "Stw": pb, "Enw": pb}
                for kids in kid_space:
                    n += 1
                    got = ev(t, S, v, q, P, kids)
                    want = std(op, S, v, P, kids)
                    if got != want:
                        return (S, v, kids, got, want), n
    return None, n


# ---------------------------------------------------------------------------

def find_match_on(body, ty_suffix):
    for n in walk(body):
        if n.get("e") == "match" and n.get("src") == "Normal" and n.get("scrut_ty", "").replace("&", "").strip().endswith(ty_suffix):
            return n
    return None


def pattern_ops(p, enum_suffix):
    """[(variant, sub)] for the alternatives of an arm pattern; sub in None/'None'/'Some' (SCIM sub-attribute)."""
    k = p.get("p")
    if k == "or":
        out = []
        for x in p["pats"]:
            out.extend(pattern_ops(x, enum_suffix))
        return out
    if k == "ref":
        return pattern_ops(p["pat"], enum_suffix)
    if k in ("wild", "bind") and "sub" not in p:
        return [("*", None)]
    if k in ("tstruct", "struct", "expr"):
        d = def_of(p)
        if enum_suffix + "::" not in d:
            raise Shape(f"arm pattern names {d}")
        variant = d.rsplit("::", 1)[1]
        sub = None
        for n in walk(p):
            if n.get("p") == "struct":
                for f in n["fields"]:
                    if f["f"] == "s":
                        dd = def_of(f["pat"])
                        if dd.endswith("Option::None"):
                            sub = "None"
                        elif dd.endswith("Option::Some"):
                            sub = "Some"
        return [(variant, sub)]
    raise Shape(f"arm pattern kind {k}")


def extract_table(fn, ty_suffix, enum_suffix):
    m = find_match_on(fn["body"], ty_suffix)
    if m is None:
        raise Shape(f"no match over {ty_suffix}")
    ex = Extractor(fn)
    table = {}
    for a in m["arms"]:
        if "guard" in a:
            raise Shape("guarded operator arm")
        t = ex.arm(a)
        for key in pattern_ops(a["pat"], enum_suffix):
            table.setdefault(key, (t, a["body"].get("line"), a["body"]))
    return table


def nonerr_alts(t):
    if t[0] == "alt":
        xs = [x for x in t[1] if x[0] != "err"]
        real = [x for x in xs if not (x[0] == "op" and x[1] == "Invalid")]
        return real or xs
    return [] if t[0] == "err" else [t]


def cmp_table(ctx, method, cmpop):
    """valueset type -> dict(kind=trivial|any|all|?, variant=PartialValue variant, ok=orientation/strictness ok, fn, line)"""
    F = ctx.facts
    out = {}
    flip = ">" if cmpop == "<" else "<"
    names = F.find_fns(LIB, r"^kanidmd_lib::<valueset::.* as valueset::ValueSetT>::" + method + "$")
    for n in sorted(names):
        f = ctx.fn(LIB, n)
        ty = re.search(r"<valueset::(?:\w+::)*(\w+) as valueset::ValueSetT>", n).group(1)
        body = unwrap(f["body"])
        row = dict(fn=n, file=f["file"], line=f["line"], kind="?", variant=None, ok=False, why="")
        if body.get("e") == "lit" and body.get("v") == "false":
            row.update(kind="trivial", ok=True)
            out[ty] = row
            continue
        m = body if body.get("e") == "match" and body.get("src") == "Normal" else None
        if m is None:
            row["why"] = "body is neither `false` nor a match over the assertion value"
            out[ty] = row
            continue
        pos = []
        for a in m["arms"]:
            b = unwrap(a["body"])
            if b.get("e") == "lit" and b.get("v") == "false":
                continue
            pos.append(a)
        if len(pos) != 1:
            row["why"] = f"{len(pos)} non-false arms"
            out[ty] = row
            continue
        a = pos[0]
        d = def_of(a["pat"]) if a["pat"].get("p") in ("tstruct", "struct") else def_of(a["pat"].get("pat", {}))
        row["variant"] = d.rsplit("::", 1)[1] if d.startswith(PV + "::") else None
        bound = [x["local"] for x in walk(a["pat"]) if x.get("p") == "bind"]
        b = unwrap(a["body"])
        if b.get("e") == "mcall" and b.get("name") in ("any", "all") and ends(b.get("callee", ""), "Iterator::any", "Iterator::all"):
            row["kind"] = b["name"]
            cl = [unwrap(x) for x in b["args"] if unwrap(x).get("e") == "closure"]
            recv_self = has_token(tokens(b["recv"]), "field", "set") or has_token(tokens(b["recv"]), "field", "map")
            if len(cl) == 1 and recv_self:
                params = [x["local"] for p in cl[0]["params"] for x in walk(p) if x.get("p") == "bind"]
                cmp_ = unwrap(cl[0]["body"])
                if cmp_.get("e") == "bin":
                    l, r = unwrap(cmp_["l"]), unwrap(cmp_["r"])
                    ll = l["res"].get("local") if l.get("e") == "path" else None
                    rl = r["res"].get("local") if r.get("e") == "path" else None
                    if cmp_["op"] == cmpop and ll in params and rl in bound:
                        row["ok"] = True
                    elif cmp_["op"] == flip and rl in params and ll in bound:
                        row["ok"] = True
                    else:
                        row["why"] = f"comparison is `{ex_s(cmp_)}`; expected <set value> {cmpop} <assertion value>"
                else:
                    row["why"] = "closure body is not a comparison"
            else:
                row["why"] = "quantifier is not applied to the value set with a single closure"
        else:
            row["why"] = f"non-false arm is `{ex_s(b)[:80]}`, expected set.iter().any/all(|x| x {cmpop} v)"
        out[ty] = row
    return out


def syntax_table(ctx):
    """valueset type -> set of SyntaxType variants its syntax() returns."""
    F = ctx.facts
    out = {}
    for n in F.find_fns(LIB, r"^kanidmd_lib::<valueset::.* as valueset::ValueSetT>::syntax$"):
        f = ctx.fn(LIB, n)
        ty = re.search(r"<valueset::(?:\w+::)*(\w+) as valueset::ValueSetT>", n).group(1)
        out[ty] = {t[len("def:" + ST) + 2:] for t in tokens(f["body"]) if t.startswith("def:" + ST + "::")}
    return out


def schema_attrs(ctx):
    """[(holder fn, attribute name, syntax variant, multivalue: True/False/None)] for every SchemaAttribute literal."""
    F = ctx.facts
    rows = []
    for n in F.fns_mentioning(LIB, 'schema::SchemaAttribute"'):
        if n in RUNTIME_SCHEMA_CTORS:
            continue
        d = F.fn(LIB, n)
        for x in walk(d["body"]):
            if x.get("e") == "struct" and def_of(x) == "kanidmd_lib::schema::SchemaAttribute":
                fl = {f["f"]: f["x"] for f in x["fields"]}
                syn = def_of(unwrap(fl["syntax"])) if "syntax" in fl else ""
                syn = syn[len(ST) + 2:] if syn.startswith(ST + "::") else None
                if "multivalue" in fl:
                    mvn = unwrap(fl["multivalue"])
                    mv = (mvn.get("v") == "true") if mvn.get("e") == "lit" else None
                else:
                    mv = False if "base" in x else None     # ..Default::default(): bool default is false
                rows.append((n, ex_s(fl["name"]) if "name" in fl else "?", syn, mv))
    return rows


def resolver_table(ctx, fname, cache={}):
    """SyntaxType variants for which the value resolver `fname` can return Ok(PartialValue::..): {syntax: {variants}};
    None if its shape is not a match over SyntaxType with per-syntax arms (then every syntax is treated as accepted)."""
    key = (id(ctx), fname)
    if key in cache:
        return cache[key]
    f = ctx.facts.fn(LIB, fname)
    out = None
    if f is not None:
        ctx.analysed_fns.add(fname)
        m = find_match_on(f["body"], "SyntaxType")
        if m is not None:
            out = defaultdict(set)
            for a in m["arms"]:
                pvs = {def_of(n).rsplit("::", 1)[1] for n in walk(a["body"]) if "e" in n and def_of(n).startswith(PV + "::")}
                for c in {callee_of(n) for n in all_calls(a["body"]) if callee_of(n).startswith(PV + "::")}:
                    pvs.add("via:" + c.rsplit("::", 1)[1])      # PartialValue::new_iutf8 etc.
                if not pvs:
                    continue
                syns = {t[len("def:" + ST) + 2:] for t in tokens(a["pat"]) if t.startswith("def:" + ST + "::")}
                if not syns:
                    out = None      # a catch-all arm produces values: every syntax is accepted
                    break
                for sname in syns:
                    out[sname] |= pvs
    if out is not None and f is not None:
        # a resolver that refuses multi-valued attributes (`if schema_a.multivalue { return Err }`) bounds the value sets to size 1
        from .lib.pathcond import site_conditions, implied, collect_binds
        sinks = site_conditions(f["body"], lambda n: n.get("e") == "call" and (n.get("ctor") or "").endswith("core::result::Result::Ok") and not n.get("exp"))
        b = collect_binds(f["body"])
        single = bool(sinks) and all(any((not pol) and lf[1] == "expr" and has_token(tokens(lf[2]), "field", "multivalue") for (pol, lf) in implied(c, b).values())
                                     for (_, c) in sinks)
        out = dict(out)
        out["__single_valued_only__"] = single
    cache[key] = (out, f)
    return cache[key]


def arm_resolver(arm_body):
    """def-path of the single kanidmd_lib function that produces the assertion PartialValue in an operator arm (or None)."""
    cands = set()
    for c in all_calls(arm_body):
        ty = c.get("ty", "")
        cal = callee_of(c)
        if "value::PartialValue" in ty and cal.startswith(LIB + "::") and not cal.endswith("::clone") and not cal.startswith(FC + "::") and not cal.startswith(PV + "::"):
            cands.add(cal)
    return sorted(cands)[0] if len(cands) == 1 else None


def run(ctx):
    F = ctx.facts
    ctx.explanation = ("K5: both translators extracted as operator->FilterComp template maps and compared with the DESIGN table; K7: each template "
                       "evaluated against the standard's any-value semantics on all value sets of the bounded domain; K8: bound for ordering "
                       "operators justified per syntax by single-valuedness of all schema attributes of that syntax; the set of syntaxes whose values "
                       "reach an ordering template is read off the value resolver called in that arm; K5': every non-trivial ValueSetT::lessthan is "
                       "`any/all(|x| x < v)`.")
    fl = ctx.fn(LIB, F_LDAP)
    fs = ctx.fn(LIB, F_SCIM)

    # ---- facts about ordering ------------------------------------------------
    syn = syntax_table(ctx)
    ctx.floor("K5-lessthan", "ValueSetT::syntax impls", len(syn), 45)
    attrs = schema_attrs(ctx)
    ctx.floor("K8-ordered-single-valued", "SchemaAttribute literals", len(attrs), 300)
    unknown = [(h, a) for (h, a, s, mv) in attrs if s is None or mv is None]
    ctx.check(not unknown, "K8-ordered-single-valued", "kanidmd_lib::schema::SchemaAttribute", "literals-understood",
              "every SchemaAttribute literal has a constant syntax and a constant (or defaulted) multivalue",
              f"SchemaAttribute literal(s) whose syntax/multivalue is not a constant: {unknown[:4]} — the single-valuedness fact cannot be established")
    multi_by_syntax = defaultdict(set)
    attrs_by_syntax = defaultdict(set)
    for (h, a, s, mv) in attrs:
        attrs_by_syntax[s].add(a)
        if mv is not False:
            multi_by_syntax[s].add(a)
    all_syntaxes = {s for s in attrs_by_syntax if s} | {s for ss in syn.values() for s in ss}
    # ordering primitives of FilterComp: primitive -> (ValueSetT method, comparison)
    prim_q = {}          # primitive -> {syntax: quantifier}
    prim_variant = {}    # (primitive, syntax) -> PartialValue variant the impl compares against
    ordered = {}         # syntax -> valueset type (some primitive is non-trivial)
    for prim, (method, cmpop) in ORDER_PRIMS.items():
        tab = cmp_table(ctx, method, cmpop)
        if prim == "LessThan":
            ctx.floor("K5-lessthan", "ValueSetT::lessthan impls", len(tab), 45)
            ctx.floor("K5-lessthan", "non-trivial lessthan impls", sum(1 for r in tab.values() if r["kind"] != "trivial"), 5)
        if not tab:
            continue
        prim_q[prim] = {}
        for ty, r in sorted(tab.items()):
            if r["kind"] == "trivial":
                continue
            ok = r["ok"] and r["kind"] in ("any", "all")
            ctx.check(ok, "K5-lessthan", r["fn"], "shape:" + ty,
                      f"{ty}::{method} = match pv {{ {r['variant']}(v) => set.iter().{r['kind']}(|x| x {cmpop} v), _ => false }}",
                      f"{ty}::{method} is not `set.iter().any/all(|x| x {cmpop} v)`: {r['why']} — FilterComp::{prim} would not mean 'a value is strictly "
                      f"{'less' if cmpop == '<' else 'greater'} than the assertion value'", file=r["file"], line=r["line"])
            ss = syn.get(ty, set())
            if not ctx.check(len(ss) >= 1, "K5-lessthan", r["fn"], "syntax:" + ty, f"{ty} serves syntax {sorted(ss)}",
                             f"{ty} has a non-trivial {method} but its syntax() names no SyntaxType (cannot relate it to schema attributes)",
                             file=r["file"], line=r["line"]):
                continue
            for s in ss:
                prim_q[prim][s] = r["kind"] if r["kind"] in ("any", "all") else "any"
                prim_variant[(prim, s)] = r["variant"]
                ordered[s] = ty
    ctx.floor("K8-ordered-single-valued", "ordered syntaxes (non-trivial lessthan)", len(ordered), 5)
    for s, ty in sorted(ordered.items()):
        multi = sorted(multi_by_syntax.get(s, ()))
        qs = {p: prim_q[p].get(s, "trivial") for p in prim_q}
        detail = f"syntax {s} ({ty}, {qs}): {len(attrs_by_syntax.get(s, ()))} schema attributes, multi-valued: {multi or 'none'}"
        ctx.ok("K8-ordered-single-valued", ST + "::" + s, "schema-scan", detail)
        ctx.sample("K8: " + detail)
        if "all" in qs.values():
            ctx.notes.append(f"O3: {ty} quantifies an ordering with `all`; " + ("exact only because every " + s + " attribute is single-valued" if not multi
                             else f"multi-valued {s} attributes exist: {multi}"))

    def qdict(s, produced=None):
        """quantifier of each ordering primitive on syntax s; trivial when the resolver produces a PartialValue variant the impl does not compare."""
        out = {}
        for p in ORDER_PRIMS:
            q = prim_q.get(p, {}).get(s, "trivial")
            if q != "trivial" and produced and not any(x.startswith("via:") for x in produced) and prim_variant.get((p, s)) not in produced:
                q = "trivial"
            out[p] = q
        return out

    # ---- K5 tables -----------------------------------------------------------------
    tables = {}
    arms = {}
    for (fn, tysuf, esuf, expect, stdmap, label) in ((fl, "LdapFilter", "LdapFilter", LDAP_EXPECT, LDAP_STD, "ldap"),
                                                     (fs, "ScimFilter", "ScimFilter", SCIM_EXPECT, SCIM_STD, "scim")):
        try:
            tab = extract_table(fn, tysuf, esuf)
        except Shape as s:
            ctx.violation("K5-translator-table", fn["fn"], "table-extracted", f"translator shape not understood (fail closed): {s}", file=fn["file"], line=fn["line"])
            continue
        tables[label] = tab
        ctx.floor("K5-translator-table", f"{label} operator rows", len(tab), 10 if label == "ldap" else 24)
        for v in sorted(expect):
            present = any(k[0] in (v, "*") for k in tab)
            ctx.check(present, "K5-translator-table", fn["fn"], f"{label}:{v}:covered", "operator has an arm",
                      f"protocol operator {v} has no arm in {short(fn['fn'])} (renamed variant?) — the table is incomplete", file=fn["file"], line=fn["line"])

    total_evals = 0
    agg_multi = defaultdict(set)       # syntax -> operators that deviate only on multi-valued sets
    agg_unordered = defaultdict(set)   # syntax -> operators translated although the syntax has no ordering
    resolvers = set()
    for label, tab in tables.items():
        fn = fl if label == "ldap" else fs
        expect = LDAP_EXPECT if label == "ldap" else SCIM_EXPECT
        stdmap = LDAP_STD if label == "ldap" else SCIM_STD
        for (variant, sub), (t, line, body) in sorted(tab.items(), key=lambda kv: str(kv[0])):
            key = f"{label}:{variant}" + (f"/sub-attr" if sub == "Some" else "")
            r = render(t)
            ctx.sample(f"K5: {key} -> {r}")
            if sub == "Some" or variant in ("*",):
                ctx.check(r == "Err", "K5-translator-table", fn["fn"], key, f"{key} -> Err (unsupported)",
                          f"{key} is translated to {r}; sub-attribute / unknown operators have no model in this rule and must be rejected (Err)",
                          file=fn["file"], line=line)
                continue
            op = stdmap.get(variant)
            exp = expect.get(variant)
            if op is None:
                ctx.check(r == "Err", "K5-translator-table", fn["fn"], key, f"{key} -> Err",
                          f"new protocol operator {variant} is translated to {r}; the rule has no standard semantics for it (extend the rule)", file=fn["file"], line=line)
                continue
            if r == "Err":
                ctx.ok("K5-translator-table", fn["fn"], key, f"{key} -> Err (rejected as unsupported)" + ("" if exp == "Err" else f"; table says {exp}: stricter"))
                continue
            # ---- K7 --------------------------------------------------------------
            exact = True
            if op in ("substr", "approx", "ext", "ne", "complex"):
                exact = None      # no evaluable model: table comparison only
            else:
                alts = nonerr_alts(t)
                bad = []          # per-operator deviations (not aggregated)
                if op in ORDERING:
                    rname = arm_resolver(body)
                    realis = None
                    if rname is not None:
                        realis, rf = resolver_table(ctx, rname)
                        resolvers.add((rname, None if realis is None else tuple(sorted(k for k in realis if not k.startswith("__")))))
                    single_only = bool(realis) and realis.get("__single_valued_only__") is True
                    if realis is not None:
                        realis = {k: v for k, v in realis.items() if not k.startswith("__")}
                    reach = sorted(all_syntaxes) if realis is None else sorted(realis)
                    todo = [(s, qdict(s, realis.get(s) if realis else None), 2 if (multi_by_syntax.get(s) and not single_only) else 1, True) for s in reach]
                    todo += [(s, qdict(s), 2 if multi_by_syntax.get(s) else 1, False) for s in sorted(ordered) if s not in reach]
                else:
                    todo = [(None, qdict(None), 2, True)]
                for (s, q, bound, reachable) in todo:
                    for a in alts:
                        try:
                            cex, n = compare(a, op, q, bound)
                            cex1 = None
                            if cex is not None and bound > 1:
                                cex1, n1 = compare(a, op, q, 1)
                                n += n1
                        except Shape as e:
                            cex, cex1, n = ("shape", str(e)), ("shape", str(e)), 0
                        total_evals += n
                        if cex is None:
                            continue
                        if not reachable:
                            ctx.notes.append(f"latent: {key} = {r} deviates on syntax {s} ({describe_cex((s, q, bound, cex), op)}) but the arm's value resolver rejects {s} values today")
                        elif cex[0] != "shape" and s is not None and all(x == "trivial" for x in q.values()):
                            agg_unordered[s].add(op)
                        elif cex[0] != "shape" and s is not None and bound > 1 and cex1 is None and op in ("gt", "ge"):
                            agg_multi[s].add(op)
                        else:
                            bad.append((s, q, bound, cex))
                if bad:
                    exact = False
                elif op in ORDERING and (any(op in v for v in agg_multi.values()) or any(op in v for v in agg_unordered.values())):
                    exact = False
                inst = f"{key}:ordering-any-value-exact" if op in ORDERING else f"{key}:any-value-exact"
                ctx.check(not bad, "K7-template-semantics", fn["fn"], inst,
                          f"{key} = {r} agrees with the standard's `{op}` on every value set of the bounded domain"
                          + (" (deviations that exist only on multi-valued ordered attributes / on syntaxes without an ordering are reported under K7-scim-ordering)" if op in ORDERING else ""),
                          f"{key} is translated to {r}, which differs from the standard's any-value `{op}`: " + "; ".join(describe_cex(x, op) for x in bad[:3]) +
                          ". A filter using this operator selects entries its standard meaning does not select (or misses some).",
                          file=fn["file"], line=line)
            ok_table = (r == exp) or (exact is True)
            ctx.check(ok_table, "K5-translator-table", fn["fn"], key,
                      f"{key} -> {r}" + ("" if r == exp else f" (table: {exp}; accepted because K7 proves it exact)"),
                      f"{key} is translated to {r}; DESIGN table expects {exp}" + (" and K7 cannot evaluate this operator" if exact is None else " and K7 found it inexact"),
                      file=fn["file"], line=line)

    for (rname, acc) in sorted(resolvers, key=str):
        ctx.ok("K5-scim-value-resolution", rname, "accepted-syntaxes",
               f"values reaching the ordering templates are produced by {short(rname)}; accepted syntaxes: {list(acc) if acc is not None else 'ALL (shape not understood)'}")

    # ---- aggregated ordering deviations (decided from the extracted templates and tables above) ------
    if "scim" in tables:
        ex_multi = {s: sorted(multi_by_syntax.get(s, ()))[:6] for s in agg_multi}
        ctx.check(not agg_multi, "K7-scim-ordering", fs["fn"], "gt-ge:multi-valued-ordered-attribute",
                  "gt/ge templates are exact on every syntax whose values can reach them (no reachable ordered syntax has a multi-valued attribute, or the templates are any-value exact)",
                  "SCIM `gt`/`ge` are translated to `present ∧ ¬(lessthan [∨ eq])`, which means *all values* are greater; the standard (RFC 7644 3.4.2.2) matches when *any* value is. "
                  "They differ on a multi-valued attribute of an ordered syntax, and such attributes exist and are accepted by the value resolver: "
                  + "; ".join(f"syntax {s} ({ordered.get(s)}::lessthan) operators {sorted(ops)} attributes {ex_multi[s]}" for s, ops in sorted(agg_multi.items()))
                  + ". Example: values {lo, hi}, filter `attr gt mid` with lo < mid < hi: standard selects the entry, the server does not.",
                  file=fs["file"], line=fs["line"])
        ex_un = {s: sorted(attrs_by_syntax.get(s, ()))[:4] for s in agg_unordered}
        ctx.check(not agg_unordered, "K7-scim-ordering", fs["fn"], "ordering-accepted-for-unordered-syntax",
                  "every syntax whose values reach an ordering template has a real ordering primitive",
                  "SCIM ordering operators are translated (not rejected) for attributes whose ValueSetT::lessthan is the constant `false`, so `a lt v` never matches, `a le v` = `a eq v`, "
                  "`a gt v` = present ∧ ¬eq, `a ge v` = present — neither rejected as unsupported nor the standard's comparison: "
                  + "; ".join(f"syntax {s} operators {sorted(ops)} e.g. {ex_un[s]}" for s, ops in sorted(agg_unordered.items()))
                  + ". The arm's value resolver accepts these syntaxes and from_scim_ro does not test for an ordering.",
                  file=fs["file"], line=fs["line"])
    ctx.extra["k7_evaluations"] = total_evals
    ctx.exhaustive = True


def describe_cex(x, op):
    s, q, bound, cex = x
    if cex[0] == "shape":
        return f"template not evaluable ({cex[1]})"
    S, v, kids, got, want = cex
    where = f"syntax {s} (ordering primitives {q}, value sets up to {bound}): " if s else ""
    return f"{where}values {set(S) if S else '{}'} {op} {v}" + (f" operands {kids}" if kids else "") + f": server {got}, standard {want}"
