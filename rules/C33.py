"""C33 Write privilege is bounded in time and by login type.

Decided (DESIGN.md C33):
 K4-issue-uat       AuthSession::issue_uat: initial auth — Anonymous|OAuth2Trust yield SessionScope::ReadOnly, SessionScope::ReadWrite is yielded
                    only for GeneratedPassword or under the `privileged` flag of a strong credential type (otherwise PrivilegeCapable);
                    re-auth — Anonymous|GeneratedPassword|OAuth2Trust are rejected with Err, every other type yields PrivilegeCapable only.
 K4-uat-purpose     Account::to_userauthtoken / to_reissue_userauthtoken: UatPurpose::ReadWrite{expiry: Some(_)} only for scope ReadWrite
                    (capped expiry) resp. PrivilegeCapable ∧ read_write (now + privilege_expiry); PrivilegeCapable alone yields expiry None;
                    no other function builds a ReadWrite purpose with Some expiry; to_reissue passes the original session expiry unchanged
                    and issue_uat hands it the session expiry recorded at re-auth start.
 K3-uat-scope       process_uat_to_identity yields AccessScope::ReadWrite only under UatPurpose::ReadWrite{expiry: Some(e)} ∧ now < e.
 K4-apit-scope      From<&ApiTokenPurpose>: ReadOnly→ReadOnly, ReadWrite→ReadWrite, Synchronise→Synchronise.
 K3-const-readonly  LDAP-bind and client-certificate identities are built with the constant AccessScope::ReadOnly (certificate UAT: rw=false).
 K1-readwrite-scan  GLOBAL: every non-test expression yielding AccessScope::ReadWrite (all crates) is on the allow-list, one reason per site;
                    From<&UatPurpose> for AccessScope (no expiry test) has no caller; from_impersonate_entry_readwrite only its listed caller.
 K4-uat-purpose (reissue-window)  the re-issued privilege window depends on now and privilege_expiry() only; other parameters only inside min().
Not decided: what the access-control layer does with the scope (C24), session expiry arithmetic.
"""
from .lib.hir import *
from .lib.x_g6auth import *
from .lib import pathcond as pc

META = dict(
    technique="static decision-table (K4), path-condition (K3) and global who-may-construct (K1) rules over type-checked HIR and MIR call facts",
    level_text="The scope tables of issue_uat, to_userauthtoken, to_reissue_userauthtoken, process_uat_to_identity and the API-token map are "
               "extracted and compared with the specification table; every expression in the workspace that yields AccessScope::ReadWrite is "
               "enumerated against an allow-list. Covers every login type, privilege request and time symbolically.",
    level_note="Decides which login types can obtain ReadWrite, that UAT write access requires an unexpired privilege window, that certificate/LDAP "
               "identities are constant ReadOnly, that re-auth keeps the original session expiry, and that no unlisted site yields ReadWrite. "
               "Not decided: enforcement of the scope by access control (C24), arithmetic of expiry values. Trusted: rustc resolution, allow-list reasons.",
)

LIB = "kanidmd_lib"
CORE = "kanidmd_core"
AS = "kanidmd_lib::idm::authsession::"
SCOPE = "kanidmd_lib::value::SessionScope::"
AT = "kanidmd_lib::value::AuthType::"
INTENT = AS + "AuthIntent::"
ACC = "kanidmd_lib::server::identity::AccessScope::"
PURPOSE = "kanidm_proto::internal::token::UatPurpose::"
APIP = "kanidm_proto::internal::token::ApiTokenPurpose::"
T = "kanidmd_lib::idm::server::IdmServerTransaction::"
IDENT = "kanidmd_lib::server::identity::Identity"
FROM_UAT = "kanidmd_lib::<server::identity::AccessScope as core::convert::From<&kanidm_proto::internal::token::UatPurpose>>::from"
FROM_API = "kanidmd_lib::<server::identity::AccessScope as core::convert::From<&kanidm_proto::internal::token::ApiTokenPurpose>>::from"
WEAK = {"Anonymous", "OAuth2Trust"}
NO_REAUTH = {"Anonymous", "GeneratedPassword", "OAuth2Trust"}

# allow-list of the sites that may yield AccessScope::ReadWrite: function -> reason
RW_ALLOW = {
    T + "process_uat_to_identity": "user token with an unexpired privilege window (guard checked by K3-uat-scope)",
    FROM_API: "read-write API tokens: the stated exception of the property",
    "kanidmd_lib::idm::account::<impl idm::server::IdmServerProxyWriteTransaction<'_>>::account_destroy_session_token":
        "logout: fixed modlist removing one session of the target, projected read-write so that logging out never needs a re-auth",
    "kanidmd_lib::server::identity::Identity::from_impersonate_entry_readwrite":
        "account-recovery self-request; callers allow-listed below",
    FROM_UAT: "maps ReadWrite{..} to ReadWrite without an expiry test: tolerated only while it has no caller",
}
IMPERSONATE_RW_CALLERS = {"kanidmd_lib::idm::credupdatesession::<impl idm::server::IdmServerProxyWriteTransaction<'_>>::credential_update_account_recovery"}


def arm_types(site, param_ids, enum_prefix):
    """Variant names of the enum (prefix) selected by an implied arm literal whose scrutinee is one of the given locals / any expr."""
    for _, leaf in site.leaves(True, ("arm",)):
        sc, p = unwrap(leaf[2][0]), leaf[2][1]
        alts = top_alternatives(p)
        defs = [pat_def(a) for a in alts]
        if defs and all(d.startswith(enum_prefix) for d in defs):
            if param_ids is None or (sc.get("e") == "path" and sc["res"].get("local") in param_ids) or True:
                return leaf, {d[len(enum_prefix):] for d in defs}
    return None, set()


def resolve(e, binds, depth=3):
    e = unwrap(e)
    while depth > 0 and e.get("e") == "path" and e["res"].get("local") in binds:
        e = unwrap(binds[e["res"]["local"]])
        depth -= 1
    return e


def tuple_component_sources(body, local_id):
    """If local_id is bound at position i of a tuple pattern `let (a, b) = <expr>`, return the i-th components of every value leaf of <expr>."""
    for n in walk(body):
        if n.get("s") == "let" and "init" in n:
            p = strip_ref(n["pat"])
            if p.get("p") == "tuple":
                for i, q in enumerate(p["pats"]):
                    q = strip_ref(q)
                    if q.get("p") == "bind" and q.get("local") == local_id:
                        out = []
                        for leaf in value_leaves(n["init"]):
                            u = unwrap(leaf)
                            if u.get("e") == "tuple" and len(u["xs"]) == len(p["pats"]):
                                out.append(u["xs"][i])
                            else:
                                out.append(None)
                        return out
    return None


def window_only(e, inits, ct_ids, other, depth=6):
    """e is Some(w) / w / min(w, _) where w mentions privilege_expiry() and now, and no other parameter of the function."""
    e = unwrap(e)
    if depth <= 0 or not isinstance(e, dict):
        return False
    if e.get("e") == "path" and e["res"].get("local") in inits:
        return window_only(inits[e["res"]["local"]], inits, ct_ids, other, depth - 1)
    if e.get("e") == "call" and def_of(e) == "core::option::Option::Some" and len(e.get("args", [])) == 1:
        return window_only(e["args"][0], inits, ct_ids, other, depth - 1)
    if e.get("e") in ("call", "mcall") and is_call_to(e, "cmp::min", "Ord::min"):
        args = ([e["recv"]] if e.get("e") == "mcall" else []) + list(e.get("args", []))
        return any(window_only(a, inits, ct_ids, other, depth - 1) for a in args)
    ls = deep_locals(e, inits, 4)
    return has_token(deep_tokens(e, inits, 4), "call", "privilege_expiry") and bool(ls & ct_ids) and not (ls & other)


def run(ctx):
    F = ctx.facts
    ctx.explanation = ("Scope tables of token issue / re-issue / token-to-identity mapping match the specification; certificate and LDAP identities are "
                       "constant ReadOnly; re-auth keeps the original session expiry; every site yielding AccessScope::ReadWrite in the workspace is allow-listed.")
    iu = ctx.fn(LIB, AS + "AuthSession::issue_uat")
    to_uat = ctx.fn(LIB, "kanidmd_lib::idm::account::Account::to_userauthtoken")
    to_re = ctx.fn(LIB, "kanidmd_lib::idm::account::Account::to_reissue_userauthtoken")
    p_uat = ctx.fn(LIB, T + "process_uat_to_identity")
    from_api = ctx.fn(LIB, FROM_API)
    ldap = ctx.fn(LIB, T + "process_ldap_uuid_to_identity")
    cert = ctx.fn(LIB, T + "client_certificate_to_identity")
    cert_uat = ctx.fn(LIB, T + "client_certificate_to_user_auth_token")

    at_enum = F.item(LIB, "enum", "kanidmd_lib::value::AuthType")
    at_variants = [v["v"] for v in at_enum["variants"]] if at_enum else []
    ctx.floor("K4-issue-uat", "AuthType variants", len(at_variants), 9)

    # ---- K4-issue-uat ---------------------------------------------------------------------------------
    body = iu["body"]
    st = sites(body, lambda n: n.get("e") in ("path", "call", "struct") and def_of(n).startswith(SCOPE))
    ctx.floor("K4-issue-uat", "SessionScope sites in issue_uat", len(st), 5)
    seen = {}
    for s in st:
        v = def_of(s.node)[len(SCOPE):]
        il, intents = arm_types(s, None, INTENT)
        tl, types = arm_types(s, None, AT)
        intent = "|".join(sorted(intents)) or "?"
        key = f"{intent.lower()}:{'|'.join(sorted(types)) or '?'}->{v}"
        k = seen.get(key, 0)
        seen[key] = k + 1
        key = key + (f"#{k}" if k else "")
        ok, why = True, ""
        if intents == {"InitialAuth"}:
            priv_ids = set(bound_locals(il[2][1], "privileged"))
            under_priv = s.has(True, lambda l: unwrap(l[2]).get("e") == "path" and unwrap(l[2])["res"].get("local") in priv_ids, ("expr",))
            if types & WEAK and v != "ReadOnly":
                ok, why = False, f"{sorted(types & WEAK)} logins must be ReadOnly"
            elif v == "ReadWrite" and not (types and (types <= {"GeneratedPassword"} or (not types & WEAK and under_priv))):
                ok, why = False, "SessionScope::ReadWrite at initial auth is allowed only for GeneratedPassword or under the `privileged` request flag"
            elif v == "Synchronise":
                ok, why = False, "a user auth token is never Synchronise"
            elif not types and v == "ReadWrite":
                ok, why = False, "ReadWrite outside the auth-type table"
        elif intents == {"Reauth"}:
            if v != "PrivilegeCapable":
                ok, why = False, "re-authentication must re-issue PrivilegeCapable only (the privilege itself is the bounded read_write window)"
            elif types & NO_REAUTH or not types:
                ok, why = False, f"{sorted(types & NO_REAUTH) or 'unknown types'} may not re-authenticate"
        else:
            ok, why = v in ("ReadOnly", "PrivilegeCapable"), "scope built outside the intent table"
        ctx.check(ok, "K4-issue-uat", iu["fn"], key, f"{intent}: {sorted(types)} -> {v}",
                  f"issue_uat yields SessionScope::{v} for intent {intent}, auth types {sorted(types)}: {why} (guards: {s.render()})",
                  file=iu["file"], line=s.line)
        ctx.sample(f"issue_uat {intent} {sorted(types)} -> {v}")
    # re-auth rejects weak types
    im = find_matches(body, lambda m: scrut_is_field(m, "intent"))
    if ctx.check(len(im) == 1, "K4-issue-uat", iu["fn"], "intent-table", "match over self.intent", "issue_uat is no longer a match over self.intent",
                 file=iu["file"], line=iu["line"]):
        re_arms = arms_for_variant(im[0], INTENT + "Reauth")
        ams = [m for a in re_arms for m in find_matches(a["body"], lambda m: m.get("scrut_ty", "").replace("&", "").strip().endswith("value::AuthType"))]
        if ctx.check(len(ams) >= 1, "K4-issue-uat", iu["fn"], "reauth-type-table", "match over auth_type in the Reauth arm",
                     "no match over the auth type inside the Reauth arm", file=iu["file"], line=iu["line"]):
            for v in sorted(NO_REAUTH):
                arms = [a for m in ams for a in arms_for_variant(m, AT + v)]
                ok = bool(arms) and all(always_diverges(a["body"]) and all(constructs_any(r, "core::result::Result::Err") and not constructs_any(r, "core::result::Result::Ok")
                                                                           for r in returns_in(a["body"])) for a in arms)
                ctx.check(ok, "K4-issue-uat", iu["fn"], f"reauth-rejects:{v}", f"{v} -> Err",
                          f"re-authentication with auth type {v} is not rejected with Err — a {v} session could be elevated", file=iu["file"], line=ams[0].get("line"))
    # the expiry handed to to_reissue is the one recorded in the Reauth intent
    rc = sites(body, call_sink("Account::to_reissue_userauthtoken"))
    ctx.floor("K4-issue-uat", "to_reissue_userauthtoken calls", len(rc), 1)
    exp_idx = [i for i, p in enumerate(to_re["params"]) if "Option<time::offset_date_time::OffsetDateTime>" in p["ty"]]
    for s in rc:
        il, intents = arm_types(s, None, INTENT)
        ids = set(bound_locals(il[2][1], "session_expiry")) if il else set()
        ok = False
        if len(exp_idx) == 1 and ids:
            args = ([s.node["recv"]] if s.node.get("e") == "mcall" else []) + s.node["args"]
            a = unwrap(args[exp_idx[0]]) if exp_idx[0] < len(args) else {}
            ok = a.get("e") == "path" and a["res"].get("local") in ids
        ctx.check(ok, "K4-issue-uat", iu["fn"], "reissue-gets-recorded-session-expiry", "session_expiry of the Reauth intent passed through",
                  "to_reissue_userauthtoken is not given the session expiry recorded in AuthIntent::Reauth — re-authentication could extend the session",
                  file=iu["file"], line=s.line)

    # ---- K4-uat-purpose ----------------------------------------------------------------------------------
    def purpose_sites(fn):
        return sites(fn["body"], lambda n: n.get("e") in ("struct", "path", "call") and def_of(n).startswith(PURPOSE))

    def expiry_field(node):
        for f in node.get("fields", []):
            if f["f"] == "expiry":
                return f["x"]
        return None
    for fn in (to_uat, to_re):
        inits = binding_inits(fn["body"])
        ct_ids = {p["pat"]["local"] for p in fn["params"] if p["ty"].endswith("time::Duration") and p["pat"].get("p") == "bind"}
        st = purpose_sites(fn)
        ctx.floor("K4-uat-purpose", f"UatPurpose sites in {short(fn['fn'], 1)}", len(st), 2)
        seen = {}
        for s in st:
            v = def_of(s.node)[len(PURPOSE):]
            _, scopes = arm_types(s, None, SCOPE)
            x = expiry_field(s.node)
            xr = resolve(x, pc.collect_binds(fn["body"])) if x is not None else None
            some = xr is not None and not (xr.get("e") == "path" and xr["res"].get("def") == "core::option::Option::None")
            key = f"{'|'.join(sorted(scopes)) or '?'}->{v}{'(Some)' if v == 'ReadWrite' and some else '(None)' if v == 'ReadWrite' else ''}"
            k = seen.get(key, 0)
            seen[key] = k + 1
            key += f"#{k}" if k else ""
            ok, why = True, ""
            if v == "ReadWrite" and some:
                if fn is to_uat:
                    ok = scopes == {"ReadWrite"} and bool(deep_locals(x, inits, 4) & ct_ids)
                    why = "a privilege window may only be opened for SessionScope::ReadWrite and must derive from the current time"
                else:
                    guard_rw = s.has(True, lambda l: unwrap(l[2]).get("e") == "path" and "bool" in str([p["ty"] for p in fn["params"] if p["pat"].get("local") == unwrap(l[2])["res"].get("local")]), ("expr",))
                    ok = scopes == {"PrivilegeCapable"} and guard_rw and has_token(deep_tokens(x, inits, 4), "call", "privilege_expiry") and bool(deep_locals(x, inits, 4) & ct_ids)
                    why = "re-issue may open a privilege window only for PrivilegeCapable ∧ read_write, ending at now + privilege_expiry()"
                    other = {p["pat"]["local"] for p in fn["params"] if p["pat"].get("p") == "bind"
                             and not p["ty"].endswith("time::Duration") and "ResolvedAccountPolicy" not in p["ty"]}
                    wok = window_only(x, inits, ct_ids, other)
                    ctx.check(wok, "K4-uat-purpose", fn["fn"], "reissue-window-from-now-and-policy",
                              "privilege window = f(now, privilege_expiry()) (other inputs only as a min() bound)",
                              "the privilege window of a re-issued token depends on something other than the current time and the policy's privilege_expiry() "
                              "(for example the session expiry) outside a min() clamp: one re-authentication can then keep write access for longer than the privilege window",
                              file=fn["file"], line=s.line)
            elif v == "ReadWrite" and not some:
                ok = scopes <= {"PrivilegeCapable"} and bool(scopes)
                why = "ReadWrite{expiry: None} (privilege capable, currently read-only) only for SessionScope::PrivilegeCapable"
            elif v == "ReadOnly":
                ok = scopes <= {"ReadOnly"} and bool(scopes)
                why = "UatPurpose::ReadOnly only for SessionScope::ReadOnly"
            ctx.check(ok, "K4-uat-purpose", fn["fn"], key, f"{sorted(scopes)} -> {v}",
                      f"{short(fn['fn'], 1)} builds UatPurpose::{v}{' with Some expiry' if some else ''} for scopes {sorted(scopes)}: {why} (guards: {s.render()})",
                      file=fn["file"], line=s.line)
    # who else opens a privilege window
    n_rw = 0
    for crate in (LIB, CORE):
        for n in F.fns_mentioning(crate, "UatPurpose::ReadWrite"):
            if is_derived_fn(F, crate, n):
                continue
            d = F.fn(crate, n)
            binds = pc.collect_binds(d["body"])
            for x in walk(d["body"]):
                if x.get("e") == "struct" and def_of(x) == PURPOSE + "ReadWrite":
                    ex = expiry_field(x)
                    xr = resolve(ex, binds) if ex is not None else None
                    some = xr is not None and not (xr.get("e") == "path" and xr["res"].get("def") == "core::option::Option::None")
                    if some:
                        n_rw += 1
                        ctx.check(n in (to_uat["fn"], to_re["fn"]), "K4-uat-purpose", n, "opens-privilege-window",
                                  "token issue / re-issue", "UatPurpose::ReadWrite with Some(expiry) — an open privilege window — is built outside "
                                  "to_userauthtoken / to_reissue_userauthtoken, i.e. not at an authentication or re-authentication", file=d["file"], line=x.get("line"))
    ctx.floor("K4-uat-purpose", "privilege-window constructions", n_rw, 2)
    # to_reissue: token expiry == the session_expiry parameter, unchanged
    binds = pc.collect_binds(to_re["body"])
    sx = [p["pat"]["local"] for p in to_re["params"] if "Option<time::offset_date_time::OffsetDateTime>" in p["ty"] and p["pat"].get("p") == "bind"]
    toks = [x for x in walk(to_re["body"]) if x.get("e") == "struct" and def_of(x).endswith("token::UserAuthToken")]
    if ctx.check(len(sx) == 1 and len(toks) >= 1, "K4-uat-purpose", to_re["fn"], "reissue-shape", "session_expiry parameter and UserAuthToken{..} found",
                 "to_reissue_userauthtoken no longer has a single Option<OffsetDateTime> parameter / builds no UserAuthToken (shape not understood)",
                 file=to_re["file"], line=to_re["line"]):
        for i, tnode in enumerate(toks):
            ex = unwrap(expiry_field(tnode) or {})
            srcs = None
            if ex.get("e") == "path" and "local" in ex["res"]:
                if ex["res"]["local"] == sx[0]:
                    srcs = [ex]
                else:
                    srcs = tuple_component_sources(to_re["body"], ex["res"]["local"])
                    if srcs is None and ex["res"]["local"] in binds:
                        srcs = [binds[ex["res"]["local"]]]
            ok = bool(srcs) and all(x is not None and unwrap(x).get("e") == "path" and unwrap(x)["res"].get("local") == sx[0] for x in srcs)
            ctx.check(ok, "K4-uat-purpose", to_re["fn"], "reissue-keeps-session-expiry" + (f"#{i}" if i else ""),
                      "UserAuthToken.expiry = session_expiry parameter on every path",
                      f"the re-issued token's expiry is not the original session expiry on every path (sources: {[ex_s(x)[:40] if x else '?' for x in (srcs or [])]}) — "
                      "re-authentication would extend a time-bound session", file=to_re["file"], line=tnode.get("line"))

    # ---- K3-uat-scope --------------------------------------------------------------------------------------
    inits = binding_inits(p_uat["body"])
    ct_ids = {p["pat"]["local"] for p in p_uat["params"] if p["ty"].endswith("time::Duration") and p["pat"].get("p") == "bind"}
    st = sites(p_uat["body"], ctor_exact(ACC + "ReadWrite"))
    ctx.floor("K3-uat-scope", "AccessScope::ReadWrite sites in process_uat_to_identity", len(st), 1)
    for i, s in enumerate(st):
        arm = s.arm(lambda sc, p: has_token(tokens(sc), "field", "purpose") and all(pat_def(x) == PURPOSE + "ReadWrite" for x in top_alternatives(p)))
        ok = False
        if arm is not None:
            pat = strip_ref(arm[2][1] if arm[1] == "arm" else arm[2][0])
            exp_pats = [f["pat"] for f in pat.get("fields", []) if f["f"] == "expiry"]
            ids = set()
            for q in exp_pats:
                q = strip_ref(q)
                if pat_def(q) == "core::option::Option::Some":
                    ids |= set(bound_locals(q))

            def lt(l):
                e = unwrap(l[2])
                if e.get("e") != "bin" or e["op"] not in ("<", ">"):
                    return False
                a, b = (e["l"], e["r"]) if e["op"] == "<" else (e["r"], e["l"])
                return bool(deep_locals(a, inits) & ct_ids) and not (deep_locals(a, inits) & ids) and bool(locals_in(b) & ids)
            ok = bool(ids) and s.has(True, lt, ("expr",))
        ctx.check(ok, "K3-uat-scope", p_uat["fn"], "readwrite-needs-unexpired-window" + (f"#{i}" if i else ""),
                  "under UatPurpose::ReadWrite{expiry: Some(e)} ∧ now < e",
                  f"process_uat_to_identity yields AccessScope::ReadWrite without `UatPurpose::ReadWrite{{expiry: Some(e)}}` ∧ `now < e` (guards: {s.render()}) — "
                  "write access outside the privilege window", file=p_uat["file"], line=s.line)

    # ---- K4-apit-scope ---------------------------------------------------------------------------------------
    am = find_matches(from_api["body"], lambda m: "ApiTokenPurpose" in m.get("scrut_ty", ""))
    if ctx.check(len(am) == 1, "K4-apit-scope", from_api["fn"], "table-found", "match over ApiTokenPurpose", "From<&ApiTokenPurpose> is no longer a match",
                 file=from_api["file"], line=from_api["line"]):
        for v in ("ReadOnly", "ReadWrite", "Synchronise"):
            arms = arms_for_variant(am[0], APIP + v)
            outs = sorted({def_of(unwrap(l))[len(ACC):] if def_of(unwrap(l)).startswith(ACC) else "?" for a in arms for l in value_leaves(a["body"])})
            ctx.check(outs == [v], "K4-apit-scope", from_api["fn"], f"purpose:{v}", f"{v} -> {outs}",
                      f"API token purpose {v} maps to AccessScope {outs}, expected [{v}] — a read-only API token must never confer write access",
                      file=from_api["file"], line=am[0].get("line"))

    # ---- K3-const-readonly -----------------------------------------------------------------------------------
    idn = F.fn(LIB, IDENT + "::new")
    scope_idx = [i for i, p in enumerate(idn["params"]) if p["ty"].endswith("identity::AccessScope")] if idn else []
    if ctx.check(len(scope_idx) == 1, "K3-const-readonly", IDENT + "::new", "scope-param", "AccessScope parameter found",
                 "Identity::new no longer has exactly one AccessScope parameter"):
        for fn in (ldap, cert):
            binds = pc.collect_binds(fn["body"])
            calls = calls_in(fn["body"], IDENT + "::new")
            lits = [x for x in walk(fn["body"]) if x.get("e") == "struct" and def_of(x) == IDENT]
            ctx.floor("K3-const-readonly", f"Identity constructions in {short(fn['fn'], 1)}", len(calls) + len(lits), 1)
            for i, c in enumerate(calls):
                a = resolve(c["args"][scope_idx[0]], binds)
                ok = a.get("e") == "path" and a["res"].get("def") == ACC + "ReadOnly"
                ctx.check(ok, "K3-const-readonly", fn["fn"], "scope-is-constant-ReadOnly" + (f"#{i}" if i else ""), "AccessScope::ReadOnly",
                          f"{short(fn['fn'], 1)} builds its Identity with scope `{ex_s(c['args'][scope_idx[0]])[:60]}`, expected the constant AccessScope::ReadOnly — "
                          f"{'LDAP password binds' if fn is ldap else 'client certificate sessions'} must always be read-only", file=fn["file"], line=c.get("line"))
            for x in lits:
                sc = [f["x"] for f in x["fields"] if f["f"] == "scope"]
                a = resolve(sc[0], binds) if sc else {}
                ctx.check(a.get("e") == "path" and a["res"].get("def") == ACC + "ReadOnly", "K3-const-readonly", fn["fn"], "scope-is-constant-ReadOnly(lit)",
                          "AccessScope::ReadOnly", "Identity{..} literal with a non-constant / non-ReadOnly scope", file=fn["file"], line=x.get("line"))
    binds = pc.collect_binds(cert_uat["body"])
    cc = calls_in(cert_uat["body"], "Account::client_cert_info_to_userauthtoken")
    ctx.floor("K3-const-readonly", "client_cert_info_to_userauthtoken calls", len(cc), 1)
    for c in cc:
        bools = [resolve(a, binds) for a in c["args"]]
        bl = [a for a in bools if a.get("e") == "lit" and a.get("lk") == "bool"]
        ctx.check(len(bl) == 1 and bl[0]["v"] == "false", "K3-const-readonly", cert_uat["fn"], "certificate-uat-rw-false", "session_is_rw = false",
                  "the certificate session's user auth token is not requested with the constant rw=false", file=cert_uat["file"], line=c.get("line"))

    # ---- K1-readwrite-scan --------------------------------------------------------------------------------------
    n_yield = 0
    n_cmp = 0
    for crate in [c.split(".")[0] if c.endswith(".lib") else c for c in F.crates()]:
        for n in F.fns_mentioning(crate, "AccessScope::ReadWrite"):
            if is_derived_fn(F, crate, n):
                continue
            d = F.fn(crate, n)
            if d is None:
                continue
            cmp_ids = set()
            internal_ids = set()
            proj_ids = set()
            for x in walk(d["body"]):
                if x.get("e") == "bin" and x.get("op") in ("==", "!="):
                    for side in (x["l"], x["r"]):
                        u = unwrap(side)
                        if def_of(u) == ACC + "ReadWrite":
                            cmp_ids.add(id(u))
                if x.get("e") == "struct" and def_of(x) == IDENT:
                    origin = [f["x"] for f in x["fields"] if f["f"] == "origin"]
                    if origin and def_of(unwrap(origin[0])) == "kanidmd_lib::server::identity::IdentType::Internal":
                        for f in x["fields"]:
                            if f["f"] == "scope":
                                internal_ids.add(id(unwrap(f["x"])))
                if x.get("e") == "mcall" and is_call_to(x, IDENT + "::project_with_scope"):
                    for a in x["args"]:
                        proj_ids.add(id(unwrap(a)))
            k = 0
            for s in sites(d["body"], ctor_exact(ACC + "ReadWrite")):
                if id(s.node) in cmp_ids:
                    n_cmp += 1
                    continue
                n_yield += 1
                inst = "yields-ReadWrite" + (f"#{k}" if k else "")
                k += 1
                if id(s.node) in internal_ids:
                    ctx.ok("K1-readwrite-scan", n, inst, "internal identity (IdentType::Internal): server-internal operations, never token derived")
                    continue
                reason = RW_ALLOW.get(n)
                extra_ok = True
                if n.endswith("account_destroy_session_token"):
                    extra_ok = id(s.node) in proj_ids and bool(constructs_any(d["body"], "modify::Modify::Removed")) \
                        and has_token(tokens(d["body"]), "def", "Attribute::UserAuthTokenSession") \
                        and not constructs_any(d["body"], "modify::Modify::Present", "modify::Modify::Set", "modify::Modify::Purged")
                if n == FROM_API:
                    extra_ok = s.arm(lambda sc, p: all(pat_def(x) == APIP + "ReadWrite" for x in top_alternatives(p))) is not None
                ctx.check(reason is not None and extra_ok, "K1-readwrite-scan", n, inst, reason or "",
                          f"an expression yielding AccessScope::ReadWrite that is not on the allow-list (or no longer matches its listed shape) — every source of "
                          f"write privilege must be one of: unexpired UAT privilege window, read-write API token, internal identity, logout projection, "
                          f"account-recovery self-request. Guards here: {s.render()}", file=d["file"], line=s.line)
                ctx.sample(f"ReadWrite @ {short(n)}:{s.line} — {reason or 'internal identity'}")
    ctx.floor("K1-readwrite-scan", "sites yielding AccessScope::ReadWrite", n_yield, 8)
    # From<&UatPurpose> must stay uncalled; the detector is validated on From<&ApiTokenPurpose> (positive control)
    uat_calls, api_calls = [], []
    for crate in [c.split(".")[0] if c.endswith(".lib") else c for c in F.crates()]:
        for n in F.fns_mentioning(crate, "AccessScope"):
            d = F.fn(crate, n)
            if d is None:
                continue
            for x in walk(d["body"]):
                if x.get("e") not in ("call", "mcall") or not str(x.get("ty", "")).endswith("identity::AccessScope"):
                    continue
                if not any(ends(c, "core::convert::Into::into", "core::convert::From::from") or c in (FROM_UAT, FROM_API) for c in callee_any(x)):
                    continue
                src = str(x.get("recv_ty", "")) + " " + " ".join(callee_any(x))
                if "token::UatPurpose" in src.replace("UatPurposeStatus", ""):
                    uat_calls.append((n, x.get("line"), d["file"]))
                elif "token::ApiTokenPurpose" in src:
                    api_calls.append((n, x.get("line"), d["file"]))
    for c in (LIB, CORE):
        for (caller, callee, resolved, ln, exp, sty) in F.calls(c):
            if resolved == FROM_UAT or callee == FROM_UAT:
                uat_calls.append((caller, ln, None))
    ctx.floor("K1-readwrite-scan", "conversions ApiTokenPurpose -> AccessScope seen (positive control of the caller detector)", len(api_calls), 2)
    ctx.check(not uat_calls, "K1-readwrite-scan", FROM_UAT, "uncalled", "no caller",
              f"From<&UatPurpose> for AccessScope maps ReadWrite{{..}} to ReadWrite with no expiry test and now has a caller: {[(short(a), b) for a, b, _ in uat_calls][:4]} — "
              "a token whose privilege window has expired would keep write access", file=uat_calls[0][2] if uat_calls else None, line=uat_calls[0][1] if uat_calls else None)
    cs = callers_of(F, [LIB, CORE], IDENT + "::from_impersonate_entry_readwrite")
    for c in sorted(cs):
        ctx.check(c in IMPERSONATE_RW_CALLERS, "K1-readwrite-scan", c, "calls:from_impersonate_entry_readwrite", "account-recovery self-request",
                  f"Identity::from_impersonate_entry_readwrite (unbounded write identity for an arbitrary entry) has a new caller {short(c)}", line=cs[c][0])
    ctx.notes.append(f"AccessScope::ReadWrite: {n_yield} yielding sites, {n_cmp} comparison operands (not yields)")
