"""Cache-rebuild rule: a `reload(entries)` function turns the current stored entries into the in-memory set the request paths
consult. The property-relevant necessary condition is that the set is rebuilt wholesale: what was parsed from the entries
replaces what was cached. An update that keeps an existing cache element (`entry(k).or_insert(v)`, `or_insert_with`,
`or_default`, `try_insert`) or only prunes (`retain`) leaves the old settings of every element that still exists."""
from .hir import walk, all_calls, callee_any, ends

KEEP_OLD = ("or_insert", "or_insert_with", "or_insert_with_key", "or_default", "try_insert", "retain", "retain_mut")
INSTALL = ("replace", "swap", "commit")   # CowCellWriteTxn::replace / core::mem::swap


def check_rebuilt_wholesale(ctx, crate, rule, fname, why):
    fn = ctx.fn(crate, fname)
    body = fn["body"]
    keep = [c for c in all_calls(body) if not c.get("exp") and c.get("e") == "mcall" and c.get("name") in KEEP_OLD]
    ctx.check(not keep, rule, fn["fn"], "no-keep-old-update", "the cache is not updated element-wise with keep-existing semantics",
              f"{fname.rsplit('::', 1)[-1]} updates its cache with {sorted({c.get('name') for c in keep})} (line(s) {sorted({c.get('line') for c in keep})}): an element that "
              f"already exists keeps its old settings — {why}", file=fn["file"], line=fn["line"])
    inst = [c for c in all_calls(body) if not c.get("exp") and any(ends(x, "CowCellWriteTxn::<'_, T>::replace", "CowCellWriteTxn::replace", "mem::swap", "mem::replace") or x.endswith("::replace") and "concread" in x for x in callee_any(c))]
    assigns = [x for x in walk(body) if x.get("e") == "assign"]
    ctx.check(bool(inst) or bool(assigns), rule, fn["fn"], "installs-fresh-set", "the freshly parsed set is installed (replace / swap / assignment)",
              f"{fname.rsplit('::', 1)[-1]} no longer installs the freshly parsed set with replace / mem::swap / an assignment (shape not understood)",
              file=fn["file"], line=fn["line"])
