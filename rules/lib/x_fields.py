"""Field-source rule (K5): which stored attributes feed which field of a parsed struct.

`field_sources(body, struct_def)` finds the literal of `struct_def` in a parser function and, for every field, follows the
function's local dataflow (let initialisers, assignments, mutating method calls on `mut` locals) back to the
`Attribute::X` constants it depends on (the `Entry::get_ava_*(Attribute::X)` reads, directly or through a helper).  A rule compares the resulting set with the frozen table: a field fed by a
different attribute (or by an extra one — a fallback chain that now passes through a sibling field) parses the stored
configuration into the wrong grant.  Only resolved def-paths are compared; local names, order and formatting are irrelevant.
"""
from .hir import walk, callee_of, def_of, unwrap

ATTR = "kanidm_proto::attribute::Attribute::"


def _local_defs(body):
    """local id -> list of expressions that define / mutate it."""
    defs = {}
    muts = set()
    for n in walk(body):
        if n.get("s") == "let" and "init" in n:
            for p in walk(n["pat"]):
                if p.get("p") == "bind":
                    defs.setdefault(p["local"], []).append(n["init"])
                    if p.get("mut"):
                        muts.add(p["local"])
        elif n.get("e") == "assign":
            tgt = unwrap(n.get("l") or n.get("lhs") or {})
            if isinstance(tgt, dict) and tgt.get("e") == "path" and "local" in tgt.get("res", {}):
                defs.setdefault(tgt["res"]["local"], []).append(n.get("r") or n.get("rhs"))
    for n in walk(body):
        if n.get("e") == "mcall":
            r = unwrap(n.get("recv"))
            if isinstance(r, dict) and r.get("e") == "path" and r.get("res", {}).get("local") in muts:
                defs.setdefault(r["res"]["local"], []).extend(n.get("args", []))
    return defs


def _reads(e, defs, seen):
    """Attribute variants mentioned in `e`, following locals."""
    out = set()
    for n in walk(e):
        if n.get("e") == "path":
            d = n.get("res", {}).get("def", "")
            if d.startswith(ATTR):
                # any mention counts (a read through Entry::get_ava_*, or through a helper that is handed the attribute)
                out.add(d[len(ATTR):])
                continue
            loc = n.get("res", {}).get("local")
            if loc is not None and loc in defs and loc not in seen:
                seen.add(loc)
                for x in defs[loc]:
                    if x is not None:
                        out |= _reads(x, defs, seen)
    return out


def expr_sources(body, e):
    """Attribute variants read through get_ava_* plus `field:<name>` for every field projection, following locals of body."""
    defs = _local_defs(body)
    out = {"attr:" + a for a in _reads(e, defs, set())}

    def fields(x, seen):
        for n in walk(x):
            if n.get("e") == "field":
                out.add("field:" + n["f"])
            elif n.get("e") == "path":
                loc = n.get("res", {}).get("local")
                if loc is not None and loc in defs and loc not in seen:
                    seen.add(loc)
                    for d in defs[loc]:
                        if d is not None:
                            fields(d, seen)
    fields(e, set())
    return out


def field_sources(body, struct_def, prefix=""):
    """{field: set(Attribute variants starting with prefix)} for the first literal of struct_def in body (None if absent)."""
    lit = None
    for n in walk(body):
        if n.get("e") == "struct" and def_of(n) == struct_def:
            lit = n
            break
    if lit is None:
        return None
    defs = _local_defs(body)
    return {f["f"]: {a for a in _reads(f["x"], defs, set()) if a.startswith(prefix)} for f in lit["fields"]}


def check_field_sources(ctx, crate, rule, table, why, prefix=""):
    """table: [(parser fn, struct def, {field: expected set})]; only attributes whose variant name starts with `prefix` are
    compared (a log line naming the profile in an else-branch makes `name` a dataflow source of every later field)."""
    n = 0
    for fname, sdef, expect in table:
        fn = ctx.fn(crate, fname)
        got = field_sources(fn["body"], sdef, prefix)
        short = sdef.rsplit("::", 1)[-1]
        if not ctx.check(got is not None, rule, fname, f"{short}:literal", f"{short} literal found",
                         f"{fname} no longer builds {short} with a struct literal (parser shape not understood)",
                         file=fn["file"], line=fn["line"]):
            continue
        for field, exp in sorted(expect.items()):
            g = got.get(field)
            n += 1
            ctx.check(g == set(exp), rule, fname, f"{short}.{field}",
                      f"{short}.{field} <- {sorted(exp)}",
                      f"{short}.{field} is parsed from {sorted(g) if g is not None else 'nothing (field missing)'} but the stored "
                      f"configuration keeps it in {sorted(exp)}: {why}", file=fn["file"], line=fn["line"])
    return n
