"""Shared clause checkers for the transaction properties C05 / C07 (both need: the change-id timestamp is persisted
inside the committing storage transaction, and startup seeds the first change id from the persisted maximum)."""
from .hir import *
from .x_order import Body, last_seg

LIB = "kanidmd_lib"
QS_COMMIT = "kanidmd_lib::server::QueryServerWriteTransaction::<'a>::commit"
BE_COMMIT = "kanidmd_lib::be::BackendWriteTransaction::<'a>::commit"
ARC_COMMIT = "kanidmd_lib::be::idl_arc_sqlite::IdlArcSqliteWriteTransaction::<'_>::commit"
QS_NEW = "kanidmd_lib::server::QueryServer::new"
QS_WRITE = "kanidmd_lib::server::QueryServer::write"
BE_SET_TS = "kanidmd_lib::be::BackendWriteTransaction::<'a>::set_db_ts_max"
BE_GET_TS = "kanidmd_lib::be::BackendWriteTransaction::<'a>::get_db_ts_max"
ARC_SET_TS = "kanidmd_lib::be::idl_arc_sqlite::IdlArcSqliteWriteTransaction::<'_>::set_db_ts_max"
ARC_WRITE_RUV = "kanidmd_lib::be::idl_arc_sqlite::IdlArcSqliteWriteTransaction::<'_>::write_db_ruv"
SQL_SET_TS = "kanidmd_lib::be::idl_sqlite::IdlSqliteWriteTransaction::set_db_ts_max"
SQL_WRITE_RUV = "kanidmd_lib::be::idl_sqlite::IdlSqliteWriteTransaction::write_db_ruv"
NEW_LAMPORT = "kanidmd_lib::repl::cid::Cid::new_lamport"


def nice(path):
    import re
    segs = [x for x in re.split(r"::(?![^<]*>)", path) if x and not x.startswith("<")]
    return "::".join(segs[-2:])


def calls_exact(body, *names):
    return body.calls(lambda n: bool(callee_any(n) & set(names)))


def persisted_before_commit(ctx, rule, fn_name, persist_fn, commit_fn, what, arg_check=None):
    """In `fn_name`, every call of `commit_fn` runs only after `persist_fn`, called on the SAME receiver, returned Ok."""
    rec = ctx.fn(LIB, fn_name)
    b = Body(rec)
    commits = calls_exact(b, commit_fn)
    persists = calls_exact(b, persist_fn)
    if not ctx.check(bool(commits) and bool(persists), rule, fn_name, f"anchors:{what}",
                     f"{len(persists)} {nice(persist_fn)} call(s), {len(commits)} {nice(commit_fn)} call(s)",
                     f"{nice(fn_name)} no longer calls both {nice(persist_fn)} and {nice(commit_fn)} ({len(persists)}/{len(commits)} found): {what} is not written inside the committing transaction",
                     file=rec["file"], line=rec["line"]):
        return b, []
    for c in commits:
        g = b.site_gates(c)
        gating = [p for p in persists if id(p) in g]
        same = [p for p in gating if b.recv_local(p) is not None and b.recv_local(p) == b.recv_local(c)]
        if same:
            ctx.sample(f"{rec['file']}:{c.get('line')} {nice(fn_name)} :: {nice(commit_fn)} gated by {nice(persist_fn)} (line {same[0].get('line')}) on the same receiver")
        ctx.check(bool(same), rule, fn_name, f"{what}-before-storage-commit",
                  f"{nice(commit_fn)} runs only after {nice(persist_fn)} returned Ok on the same transaction object",
                  f"{nice(commit_fn)} (line {c.get('line')}) is not gated by a successful {nice(persist_fn)} on the same transaction object "
                  f"({len(gating)} gating call(s), {len(same)} on the same receiver): {what} could be missing from, or written outside, the committed transaction — "
                  "after a crash or restart the server would not know the highest change time it issued",
                  file=rec["file"], line=c.get("line"))
        if same and arg_check:
            arg_check(b, same[0])
    return b, persists


def delegation_chain(ctx, rule, chain, what, final_pred, final_desc):
    """chain = [fnA, fnB, ...]: each function's body calls the next; the last satisfies final_pred(Body)."""
    for i, name in enumerate(chain):
        rec = ctx.fn(LIB, name)
        b = Body(rec)
        if i + 1 < len(chain):
            nxt = chain[i + 1]
            ok = bool(calls_exact(b, nxt))
            ctx.check(ok, rule, name, f"{what}:delegates-to:{nice(nxt)}", f"calls {nice(nxt)}",
                      f"{nice(name)} no longer calls {nice(nxt)}: {what} does not reach the SQLite write transaction", file=rec["file"], line=rec["line"])
        else:
            ctx.check(final_pred(b), rule, name, f"{what}:{final_desc}", final_desc,
                      f"{nice(name)}: expected {final_desc} (shape not understood)", file=rec["file"], line=rec["line"])


def startup_seed(ctx, rule):
    """QueryServer::new reads the persisted ts_max before building the first change id, and passes it as new_lamport's max."""
    rec = ctx.fn(LIB, QS_NEW)
    b = Body(rec)
    gets = calls_exact(b, BE_GET_TS)
    news = calls_exact(b, NEW_LAMPORT)
    if not ctx.check(bool(gets) and bool(news), rule, QS_NEW, "anchors:seed",
                     f"{len(gets)} get_db_ts_max call(s), {len(news)} Cid::new_lamport call(s)",
                     f"QueryServer::new no longer calls both get_db_ts_max and Cid::new_lamport ({len(gets)}/{len(news)}): the first change id is not seeded from the persisted maximum",
                     file=rec["file"], line=rec["line"]):
        return
    for n in news:
        pre = [g for g in gets if b.precedes(g, n)]
        arg = n["args"][2] if len(n.get("args", [])) >= 3 else None
        toks = b.flow_tokens(arg) if arg is not None else set()
        flows = any(t == "call:" + BE_GET_TS for t in toks)
        if pre and flows:
            ctx.sample(f"{rec['file']}:{n.get('line')} QueryServer::new :: new_lamport max <- get_db_ts_max (line {pre[0].get('line')})")
        ctx.check(bool(pre) and flows, rule, QS_NEW, "first-cid-seeded-from-persisted-ts-max",
                  "Cid::new_lamport(.., .., max) with max read by get_db_ts_max earlier in QueryServer::new",
                  f"Cid::new_lamport at line {n.get('line')}: its `max` argument {'does not flow from get_db_ts_max' if not flows else 'is computed'}"
                  f"{'' if pre else ' and get_db_ts_max is not evaluated before it'} — after a restart the first change id could be below one already committed",
                  file=rec["file"], line=n.get("line"))
    # the storage read falls back to the caller's time only when nothing was persisted
    grec = ctx.fn(LIB, BE_GET_TS)
    gb = Body(grec)
    inner = gb.calls(lambda x: last_seg(callee_of(x)) == "get_db_ts_max")
    ctx.check(bool(inner), rule, BE_GET_TS, "reads-storage", "reads the persisted value through the id layer",
              "BackendWriteTransaction::get_db_ts_max no longer reads the persisted value", file=grec["file"], line=grec["line"])
