"""K7 for C10 (shared with C09): finite-domain evaluation of the *extracted* body of
ReplicationUpdateVector::range_diff, plus the K5 status mapping of supplier_provide_changes.

Nothing of kanidm is executed: the HIR JSON of range_diff (as type-checked by rustc) is
interpreted by the ~150-line evaluator below over abstract inputs (small integer
timestamps, python dicts for the BTreeMaps). The evaluator understands exactly the idioms
the function uses (let, if / else-if chains over comparisons, match on Option / bool tuples,
for-loops over a map, BTreeMap get/insert, flag assignment, struct / variant construction,
early return). Anything else raises Unsupported and the check fails closed.

The two sides (consumer / supplier) are *not* recognised by local or parameter names:
the call site in supplier_provide_changes decides which argument position carries the
request's ranges (consumer) and which the local RUV's (supplier); those positions are then
bound to the corresponding parameters of range_diff.
"""
import itertools

from .hir import walk, unwrap, callee_any, callee_of, ends, def_of, short, ex_s, tokens
from .x_prov import Prov, pat_binds
from . import pathcond as pc


class Unsupported(Exception):
    pass


class _Return(Exception):
    def __init__(self, v):
        self.v = v


class _Break(Exception):
    pass


class _Continue(Exception):
    pass


class MapV:
    """A BTreeMap value (mutable, ordered by key on iteration)."""

    def __init__(self, d=None):
        self.d = dict(d or {})

    def __repr__(self):
        return "Map" + repr(self.d)


NONE = ("none",)
TRACE_PREFIX = ("tracing", "log::", "core::panicking", "core::fmt", "tracing_core")


def is_macro_noise(x):
    """A macro-expanded statement that only logs / asserts (tracing::*, log::*, debug_assert!)."""
    if not (isinstance(x, dict) and x.get("exp")):
        return False
    x0 = unwrap(x)
    if x0.get("e") == "match" and "ForLoopDesugar" in x0.get("src", ""):
        return False
    for n in walk(x):
        if n.get("e") in ("call", "mcall"):
            for c in callee_any(n):
                if c.startswith(TRACE_PREFIX) or "::__CALLSITE" in c:
                    return True
        if n.get("e") == "path" and "__CALLSITE" in n["res"].get("def", ""):
            return True
    return False


class Interp:
    def __init__(self):
        self.steps = 0

    # ---- patterns ----------------------------------------------------------
    def pmatch(self, p, v, env):
        k = p.get("p")
        if k == "wild":
            return True
        if k == "bind":
            if "sub" in p and not self.pmatch(p["sub"], v, env):
                return False
            env[p["local"]] = v
            return True
        if k == "ref":
            return self.pmatch(p["pat"], v, env)
        if k == "tuple":
            if not (isinstance(v, tuple) and v and v[0] == "tuple" and len(v[1]) == len(p["pats"])):
                raise Unsupported("tuple pattern against " + repr(v)[:60])
            return all(self.pmatch(q, x, env) for q, x in zip(p["pats"], v[1]))
        if k == "or":
            return any(self.pmatch(q, v, env) for q in p["pats"])
        if k == "expr":
            if "path" in p:
                d = p["path"].get("def", "")
                if ends(d, "core::option::Option::None"):
                    return v == NONE
                return isinstance(v, tuple) and v[0] == "var" and v[1] == d
            if p.get("lk") == "bool":
                if not isinstance(v, bool):
                    raise Unsupported("bool pattern against non-bool")
                return v == (p["v"] == "true")
            if p.get("lk") == "int":
                return v == _int(p["v"])
            raise Unsupported("literal pattern " + str(p.get("lk")))
        if k in ("tstruct", "struct"):
            d = p["path"].get("def", "")
            if ends(d, "core::option::Option::Some"):
                if v == NONE:
                    return False
                if not (isinstance(v, tuple) and v[0] == "some"):
                    raise Unsupported("Some pattern against " + repr(v)[:60])
                sub = p["pats"][0] if k == "tstruct" else p["fields"][0]["pat"]
                return self.pmatch(sub, v[1], env)
            if ends(d, "core::option::Option::None"):
                return v == NONE
            if isinstance(v, tuple) and v[0] == "var":
                if v[1] != d:
                    return False
                if k == "tstruct":
                    return all(self.pmatch(q, x, env) for q, x in zip(p["pats"], v[2] or []))
                return all(self.pmatch(f["pat"], (v[2] or {}).get(f["f"]), env) for f in p["fields"])
            if isinstance(v, dict) and k == "struct":
                return all(self.pmatch(f["pat"], v.get(f["f"]), env) for f in p["fields"])
            raise Unsupported("variant pattern against " + repr(v)[:60])
        raise Unsupported("pattern kind " + str(k))

    # ---- expressions ---------------------------------------------------------
    def ev(self, e, env):
        self.steps += 1
        if self.steps > 200000:
            raise Unsupported("evaluation does not terminate")
        k = e.get("e")
        if k == "wrap":
            return self.ev(e["x"], env)
        if k == "un":
            v = self.ev(e["x"], env)
            if e["op"] == "Deref":
                return v
            if e["op"] == "Not" and isinstance(v, bool):
                return not v
            raise Unsupported("unary " + e["op"])
        if k == "lit":
            if e.get("lk") == "bool":
                return e["v"] == "true"
            if e.get("lk") == "int":
                return _int(e["v"])
            raise Unsupported("literal " + str(e.get("lk")))
        if k == "path":
            r = e["res"]
            if "local" in r:
                if r["local"] not in env:
                    raise Unsupported("read of unbound local " + r.get("name", "?"))
                return env[r["local"]]
            d = r.get("def", "")
            if ends(d, "core::time::Duration::ZERO"):
                return 0
            if ends(d, "core::option::Option::None"):
                return NONE
            if "Ctor(Variant, Const)" in r.get("kind", "") or "Variant" in r.get("kind", ""):
                return ("var", d, None)
            raise Unsupported("path " + d)
        if k == "field":
            v = self.ev(e["x"], env)
            if isinstance(v, dict) and e["f"] in v:
                return v[e["f"]]
            if isinstance(v, tuple) and v[0] == "tuple" and e["f"].isdigit():
                return v[1][int(e["f"])]
            raise Unsupported("field ." + e["f"])
        if k == "bin":
            op = e["op"]
            if op == "&&":
                return self._b(self.ev(e["l"], env)) and self._b(self.ev(e["r"], env))
            if op == "||":
                return self._b(self.ev(e["l"], env)) or self._b(self.ev(e["r"], env))
            l, r = self.ev(e["l"], env), self.ev(e["r"], env)
            return self._cmp(op, l, r)
        if k == "tuple":
            return ("tuple", [self.ev(x, env) for x in e["xs"]])
        if k == "struct":
            if "base" in e:
                raise Unsupported("struct update syntax")
            d = e["path"].get("def", "")
            fields = {f["f"]: self.ev(f["x"], env) for f in e["fields"]}
            if "Variant" in e["path"].get("kind", ""):
                return ("var", d, fields)
            return fields
        if k == "call":
            return self._call(e, env)
        if k == "mcall":
            return self._mcall(e, env)
        if k == "if":
            c = unwrap(e["cond"])
            if c.get("e") == "let":
                v = self.ev(c["init"], env)
                taken = self.pmatch(c["pat"], v, env)
            else:
                taken = self._b(self.ev(c, env))
            if taken:
                return self.ev(e["then"], env)
            if "else" in e:
                return self.ev(e["else"], env)
            return ("tuple", [])
        if k == "match":
            src = e.get("src", "")
            if "ForLoopDesugar" in src:
                return self._for(e, env)
            if src != "Normal":
                raise Unsupported("match source " + src)
            v = self.ev(e["scrut"], env)
            for a in e["arms"]:
                if self.pmatch(a["pat"], v, env):
                    if "guard" in a and not self._b(self.ev(a["guard"], env)):
                        continue
                    return self.ev(a["body"], env)
            raise Unsupported("no arm matches " + repr(v)[:60])
        if k == "blockexpr":
            return self.ev(e["b"], env)
        if k == "block":
            for s in e["stmts"]:
                sk = s.get("s")
                if sk == "item":
                    continue
                if sk == "let":
                    if "else" in s:
                        raise Unsupported("let-else")
                    if "init" not in s:
                        for (lid, _) in pat_binds(s["pat"]):
                            env.pop(lid, None)
                        continue
                    v = self.ev(s["init"], env)
                    if not self.pmatch(s["pat"], v, env):
                        raise Unsupported("refutable let")
                elif sk == "expr":
                    if is_macro_noise(s["x"]):
                        continue
                    self.ev(s["x"], env)
            if "tail" in e:
                if is_macro_noise(e["tail"]):
                    return ("tuple", [])
                return self.ev(e["tail"], env)
            return ("tuple", [])
        if k == "assign":
            l = unwrap(e["l"])
            if l.get("e") == "path" and "local" in l["res"]:
                env[l["res"]["local"]] = self.ev(e["r"], env)
                return ("tuple", [])
            raise Unsupported("assignment to a place that is not a local")
        if k == "ret":
            raise _Return(self.ev(e["x"], env) if "x" in e else ("tuple", []))
        if k == "break":
            raise _Break()
        if k == "continue":
            raise _Continue()
        raise Unsupported("expression kind " + str(k) + " at line " + str(e.get("line")))

    def _b(self, v):
        if not isinstance(v, bool):
            raise Unsupported("non-boolean condition")
        return v

    def _cmp(self, op, l, r):
        if isinstance(l, bool) != isinstance(r, bool) or not isinstance(l, (int, bool)) or not isinstance(r, (int, bool)):
            raise Unsupported("comparison of non-scalars")
        if op == "<":
            return l < r
        if op == "<=":
            return l <= r
        if op == ">":
            return l > r
        if op == ">=":
            return l >= r
        if op == "==":
            return l == r
        if op == "!=":
            return l != r
        raise Unsupported("operator " + op)

    def _call(self, e, env):
        if e.get("ctor"):
            d = e["ctor"]
            args = [self.ev(a, env) for a in e["args"]]
            if ends(d, "core::option::Option::Some"):
                return ("some", args[0])
            return ("var", d, args)
        cs = callee_any(e)
        ty = e.get("ty", "")
        if any(ends(c, "Default::default", "default") or c.endswith("::new") for c in cs) and "BTreeMap<" in ty and not e["args"]:
            return MapV()
        if any(ends(c, "IntoIterator::into_iter", "into_iter") for c in cs):
            return self.ev(e["args"][0], env)
        raise Unsupported("call to " + (callee_of(e) or "?"))

    def _mcall(self, e, env):
        cs = callee_any(e)
        name = e.get("name", "")
        recv = self.ev(e["recv"], env)
        if isinstance(recv, MapV) and any("BTreeMap" in c for c in cs):
            if name == "iter":
                return recv
            args = [self.ev(a, env) for a in e["args"]]
            if name == "get":
                return ("some", recv.d[args[0]]) if args[0] in recv.d else NONE
            if name == "contains_key":
                return args[0] in recv.d
            if name == "insert":
                old = recv.d.get(args[0])
                recv.d[args[0]] = args[1]
                return ("some", old) if old is not None else NONE
            if name == "is_empty":
                return not recv.d
            raise Unsupported("BTreeMap method " + name)
        if name in ("clone", "cloned", "copied", "as_ref", "borrow", "to_owned") and not e["args"]:
            return recv
        if name in ("is_some", "is_none") and any("core::option::Option" in c for c in cs):
            return (recv != NONE) == (name == "is_some")
        if name in ("lt", "le", "gt", "ge", "eq", "ne") and len(e["args"]) == 1:
            op = {"lt": "<", "le": "<=", "gt": ">", "ge": ">=", "eq": "==", "ne": "!="}[name]
            return self._cmp(op, recv, self.ev(e["args"][0], env))
        if name in ("max", "min") and len(e["args"]) == 1 and any("core::cmp::Ord" in c for c in cs):
            o = self.ev(e["args"][0], env)
            self._cmp("<", recv, o)
            return max(recv, o) if name == "max" else min(recv, o)
        raise Unsupported("method " + name + " (" + (callee_of(e) or "?") + ")")

    def _for(self, e, env):
        it = self.ev(e["scrut"], env)
        if not isinstance(it, MapV):
            raise Unsupported("for-loop over something that is not a map")
        try:
            loop = unwrap(e["arms"][0]["body"])
            inner = None
            for s in loop["body"]["stmts"]:
                x = unwrap(s.get("x", {}))
                if x.get("e") == "match" and "ForLoopDesugar" in x.get("src", ""):
                    inner = x
            some = [a for a in inner["arms"] if ends(a["pat"]["path"].get("def", ""), "core::option::Option::Some")][0]
            pat = some["pat"]["fields"][0]["pat"] if some["pat"]["p"] == "struct" else some["pat"]["pats"][0]
            body = some["body"]
        except (KeyError, IndexError, TypeError):
            raise Unsupported("for-loop desugaring not recognised")
        for k in sorted(it.d.keys()):
            if not self.pmatch(pat, ("tuple", [k, it.d[k]]), env):
                raise Unsupported("for pattern")
            try:
                self.ev(body, env)
            except _Break:
                break
            except _Continue:
                continue
        return ("tuple", [])

    def run(self, fn, args):
        """Evaluate function record `fn` with positional argument values."""
        env = {}
        for p, v in zip(fn["params"], args):
            if not self.pmatch(p["pat"], v, env):
                raise Unsupported("parameter pattern")
        self.steps = 0
        try:
            return self.ev(fn["body"], env)
        except _Return as r:
            return r.v


def _int(v):
    s = str(v)
    digits = ""
    for ch in s:
        if ch.isdigit() or ch == "_":
            digits += ch
        else:
            break
    return int(digits.replace("_", "") or "0")


# ---------------------------------------------------------------------------
# specification (DESIGN.md C10 / appendix E.4), written over the same abstract inputs

def classify(c, s):
    """Per-server class from the specification. c = (min,max) or None, s = (min,max)."""
    if c is None:
        return "unknown"
    if c[1] < s[0]:
        return "lag"
    if s[1] < c[0]:
        return "adv"
    if c[1] < s[1]:
        return "supply"
    return "nothing"


def spec(consumer, supplier):
    """consumer, supplier: {server: (min,max)}.  Returns the normalised expected result."""
    diff, lag, adv = {}, {}, {}
    overlap = False
    for k, s in supplier.items():
        c = consumer.get(k)
        cl = classify(c, s)
        if c is not None:
            overlap = True
        if cl == "unknown":
            diff[k] = (0, s[1])
        elif cl == "lag":
            lag[k] = frozenset((c[1], s[0]))
        elif cl == "adv":
            adv[k] = frozenset((s[1], c[0]))
        elif cl == "supply":
            diff[k] = (c[1], s[1])
    if not overlap:
        return ("NoRUVOverlap", {})
    if lag and adv:
        return ("Critical", {"lag_range": lag, "adv_range": adv})
    if lag:
        return ("Refresh", {"lag_range": lag})
    if adv:
        return ("Unwilling", {"adv_range": adv})
    return ("Ok", {"0": diff})


def normalise(v):
    """Interpreter result -> (variant short name, {field: {server: range}}); gap ranges (lag/adv) as unordered bound sets."""
    if not (isinstance(v, tuple) and v[0] == "var"):
        raise Unsupported("range_diff returned something that is not a RangeDiffStatus variant: " + repr(v)[:80])
    name = v[1].split("::")[-1]
    payload = v[2]
    fields = {}
    if isinstance(payload, list):
        payload = {str(i): x for i, x in enumerate(payload)}
    for f, m in (payload or {}).items():
        if not isinstance(m, MapV):
            raise Unsupported("payload that is not a map")
        out = {}
        for k, r in m.d.items():
            if not (isinstance(r, dict) and set(r) == {"ts_min", "ts_max"}):
                raise Unsupported("map value that is not a ReplCidRange")
            out[k] = (r["ts_min"], r["ts_max"]) if name == "Ok" else frozenset((r["ts_min"], r["ts_max"]))
        fields[f] = out
    return (name, fields)


def windows(dom):
    return [(a, b) for a in dom for b in dom if a <= b]


def ordering_key(vals, names):
    """Canonical weak ordering of named values, e.g. 'c.min=c.max<s.min<s.max'."""
    groups = {}
    for n, v in zip(names, vals):
        groups.setdefault(v, []).append(n)
    return "<".join("=".join(groups[v]) for v in sorted(groups))


def run_range_diff(fn, ci, si, consumer, supplier):
    """Interpret range_diff on abstract maps; ci/si = parameter index of the consumer / supplier map."""
    def mk(m):
        return MapV({k: {"ts_min": w[0], "ts_max": w[1]} for k, w in m.items()})
    args = [None, None]
    args[ci] = mk(consumer)
    args[si] = mk(supplier)
    return normalise(Interp().run(fn, args))


# ---------------------------------------------------------------------------
# call site and status mapping in supplier_provide_changes

RANGE_DIFF = "kanidmd_lib::repl::ruv::ReplicationUpdateVector::range_diff"
SUPPLY = r"^kanidmd_lib::repl::supplier::<impl server::QueryServerReadTransaction<'_>>::supplier_provide_changes$"
STATUS = "kanidmd_lib::repl::ruv::RangeDiffStatus"
CONTEXT = "kanidmd_lib::repl::proto::ReplIncrementalContext"


def call_site_roles(ctx, rule, sp):
    """(consumer arg index, supplier arg index) of the range_diff call in supplier_provide_changes, by provenance:
    the consumer's ranges come from the request parameter (type ReplRuvRange), the supplier's from `self`."""
    P = Prov(sp)
    calls = [n for n in walk(sp["body"]) if n.get("e") == "call" and ends(callee_of(n), "ReplicationUpdateVector::range_diff")]
    if not ctx.check(len(calls) == 1 and len(calls[0]["args"]) == 2, rule, sp["fn"], "call-site",
                     "single call ReplicationUpdateVector::range_diff(a, b)",
                     f"expected exactly one two-argument call of range_diff in supplier_provide_changes, found {len(calls)} (shape not understood)",
                     file=sp["file"], line=sp["line"]):
        return None
    call = calls[0]
    req = [f"p{i}" for i, p in enumerate(sp["params"]) if "ReplRuvRange" in p.get("ty", "")]
    slf = [f"p{i}" for i, p in enumerate(sp["params"]) if any(nm == "self" for _, nm in pat_binds(p["pat"])) or "QueryServerReadTransaction" in p.get("ty", "")]
    if not ctx.check(len(req) == 1 and len(slf) == 1, rule, sp["fn"], "call-site-params",
                     "request parameter (ReplRuvRange) and self identified",
                     f"cannot identify the request parameter / self of supplier_provide_changes by type: {[p.get('ty') for p in sp['params']]}",
                     file=sp["file"], line=sp["line"]):
        return None
    labs = [P.labels(a) for a in call["args"]]
    ci = [i for i, l in enumerate(labs) if req[0] in l and slf[0] not in l]
    si = [i for i, l in enumerate(labs) if slf[0] in l and req[0] not in l]
    ok = len(ci) == 1 and len(si) == 1 and ci[0] != si[0]
    ctx.check(ok, rule, sp["fn"], "call-site-provenance",
              f"range_diff argument {ci and ci[0]} derives only from the request (consumer), argument {si and si[0]} only from self's RUV (supplier)",
              f"arguments of range_diff cannot be attributed: provenance {[sorted(l) for l in labs]} (expected one argument from the request parameter {req[0]} only and one from self {slf[0]} only) — "
              "if the two sides are confused the supplier answers for the wrong replica",
              file=sp["file"], line=call.get("line"))
    if not ok:
        return None
    return ci[0], si[0], call, P


def status_mapping(ctx, rule, sp, call, P, items):
    """{RangeDiffStatus variant: 'continue' | ReplIncrementalContext variant}, from the match over range_diff's result."""
    ms = [n for n in walk(sp["body"]) if n.get("e") == "match" and n.get("src") == "Normal"
          and n.get("scrut_ty", "").replace("&", "").strip().endswith("RangeDiffStatus")]
    if not ctx.check(len(ms) == 1, rule, sp["fn"], "status-match",
                     "single match over RangeDiffStatus", f"expected one match over RangeDiffStatus, found {len(ms)} (shape not understood)",
                     file=sp["file"], line=sp["line"]):
        return None
    m = ms[0]
    sc = P.resolve(m["scrut"])
    ctx.check(sc is call or (sc.get("e") == "call" and ends(callee_of(sc), "ReplicationUpdateVector::range_diff")),
              rule, sp["fn"], "status-match-scrutinee", "the matched status is range_diff's result",
              "the RangeDiffStatus being matched is not the value returned by range_diff(consumer, supplier): " + ex_s(sc)[:120],
              file=sp["file"], line=m.get("line"))
    enum = None
    for it in items:
        if it["item"] == "enum" and it["name"] == STATUS:
            enum = it
    variants = [v["v"] for v in enum["variants"]] if enum else []
    ctx.floor(rule, "RangeDiffStatus variants", len(variants), 5)
    mapping = {}
    lines = {}
    remaining = list(variants)
    for a in m["arms"]:
        vs = sorted({t[len("def:" + STATUS) + 2:] for t in tokens(a["pat"]) if t.startswith("def:" + STATUS + "::")})
        if not vs and pc.is_catch_all(a["pat"]):
            vs = list(remaining)
        d = pc.div(a["body"])
        rets = [n for n in walk(a["body"], into_closures=False) if n.get("e") == "ret" and not n.get("exp")]
        outs = set()
        for r in rets:
            for n in walk(r):
                dd = def_of(n) if "e" in n else ""
                if dd.startswith(CONTEXT + "::"):
                    outs.add(dd.split("::")[-1])
        mentions_ctx = {def_of(n).split("::")[-1] for n in walk(a["body"]) if "e" in n and def_of(n).startswith(CONTEXT + "::")}
        if d == pc.TRUE and len(outs) == 1 and mentions_ctx == outs:
            res = next(iter(outs))
        elif d == pc.FALSE and not rets and not mentions_ctx:
            res = "continue"
        else:
            res = "?(" + ",".join(sorted(outs | mentions_ctx)) + ("; may fall through" if d != pc.TRUE else "") + ")"
        for v in vs:
            if v in remaining:
                remaining.remove(v)
                mapping[v] = res
                lines[v] = a["body"].get("line")
    for v in remaining:
        mapping[v] = "?(unhandled)"
    return mapping, lines, variants
