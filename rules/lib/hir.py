"""Loading and querying the HIR / call / item facts produced by kvfacts."""
import json
import os
import re
from collections import defaultdict


class Facts:
    def __init__(self, fdir):
        self.fdir = fdir
        self._raw = {}      # crate -> {fn: raw json line}
        self._idx = {}      # crate -> {fn: (offset, length)}
        self._parsed = {}   # (crate, fn) -> dict
        self._calls = {}    # crate -> list of tuples
        self._items = {}    # crate -> list of dict

    # ---- files -------------------------------------------------------------
    def crates(self):
        out = []
        for f in sorted(os.listdir(self.fdir)):
            if f.endswith(".done"):
                out.append(f[:-5])      # "kanidmd_lib.lib"
        return out

    def _stem(self, crate):
        return crate if "." in crate else crate + ".lib"

    def _index(self, crate):
        """name -> (offset, length) of each body record in <crate>.hir.jsonl (built on first use, cached on disk)."""
        crate = self._stem(crate)
        if crate in self._idx:
            return self._idx[crate]
        p = os.path.join(self.fdir, crate + ".hir.jsonl")
        ip = p + ".idx"
        d = {}
        if os.path.exists(ip):
            try:
                d = {k: tuple(v) for k, v in json.load(open(ip)).items()}
            except Exception:
                d = {}
        if not d and os.path.exists(p):
            off = 0
            with open(p, "rb") as f:
                for line in f:
                    m = re.match(rb'\{"fn":"((?:[^"\\]|\\.)*)"', line)
                    if m:
                        name = json.loads(b'"' + m.group(1) + b'"')
                        if name in d:
                            i = 2
                            while f"{name}#{i}" in d:
                                i += 1
                            name = f"{name}#{i}"
                        d[name] = (off, len(line))
                    off += len(line)
            try:
                tmp = ip + f".{os.getpid()}.tmp"
                with open(tmp, "w") as f:
                    json.dump(d, f)
                os.replace(tmp, ip)
            except OSError:
                pass
        self._idx[crate] = d
        return d

    def _load_raw(self, crate):
        """name -> raw JSON line for every body of the crate (whole file; used by global scans)."""
        crate = self._stem(crate)
        if crate in self._raw:
            return self._raw[crate]
        d = {}
        p = os.path.join(self.fdir, crate + ".hir.jsonl")
        if os.path.exists(p):
            idx = self._index(crate)
            with open(p, "rb") as f:
                data = f.read()
            for name, (off, ln) in idx.items():
                d[name] = data[off:off + ln].decode("utf-8")
        self._raw[crate] = d
        return d

    def fn_names(self, crate):
        return list(self._index(crate).keys())

    def fn(self, crate, name):
        """Exact def-path lookup; returns None when absent."""
        crate = self._stem(crate)
        key = (crate, name)
        if key in self._parsed:
            return self._parsed[key]
        if crate in self._raw:
            raw = self._raw[crate].get(name)
        else:
            ent = self._index(crate).get(name)
            raw = None
            if ent is not None:
                with open(os.path.join(self.fdir, crate + ".hir.jsonl"), "rb") as f:
                    f.seek(ent[0])
                    raw = f.read(ent[1]).decode("utf-8")
        if raw is None:
            return None
        d = json.loads(raw)
        self._parsed[key] = d
        return d

    def find_fns(self, crate, pattern):
        """All fns whose def-path matches the regex `pattern` (search)."""
        rx = re.compile(pattern)
        return [n for n in self._index(crate) if rx.search(n)]

    def fns_mentioning(self, crate, *needles):
        """Names of bodies whose raw JSON contains every needle (cheap global pre-filter)."""
        out = []
        for n, raw in self._load_raw(crate).items():
            if all(x in raw for x in needles):
                out.append(n)
        return out

    def all_fns(self, crate):
        for n in self._index(crate):
            yield self.fn(crate, n)

    # ---- calls --------------------------------------------------------------
    def calls(self, crate):
        crate = self._stem(crate)
        if crate in self._calls:
            return self._calls[crate]
        rows = []
        p = os.path.join(self.fdir, crate + ".calls.tsv")
        if os.path.exists(p):
            with open(p) as f:
                for line in f:
                    parts = line.rstrip("\n").split("\t")
                    if len(parts) < 6:
                        continue
                    caller, callee, resolved, ln, exp, self_ty = parts[:6]
                    rows.append((caller, callee, resolved, int(ln), exp == "1", self_ty))
        self._calls[crate] = rows
        return rows

    def callers_of(self, crates, pred):
        """[(caller, callee, resolved, line)] for call rows where pred(callee, resolved) holds."""
        out = []
        for c in crates:
            for (caller, callee, resolved, ln, exp, sty) in self.calls(c):
                if pred(callee, resolved):
                    out.append((caller, callee, resolved, ln))
        return out

    # ---- items ----------------------------------------------------------------
    def items(self, crate):
        crate = self._stem(crate)
        if crate in self._items:
            return self._items[crate]
        rows = []
        p = os.path.join(self.fdir, crate + ".items.jsonl")
        if os.path.exists(p):
            with open(p) as f:
                for line in f:
                    rows.append(json.loads(line))
        self._items[crate] = rows
        return rows

    def item(self, crate, kind, name):
        for it in self.items(crate):
            if it["item"] == kind and it["name"] == name:
                return it
        return None

    def const_val(self, crate, name):
        it = self.item(crate, "const", name)
        if it is None or it.get("val") is None:
            return None
        return int(it["val"])

    def done(self, crate):
        p = os.path.join(self.fdir, self._stem(crate) + ".done")
        return json.loads(open(p).read()) if os.path.exists(p) else None


# ---------------------------------------------------------------------------
# generic tree walking

SKIP_KEYS = ("line", "exp")


def children(node):
    if isinstance(node, dict):
        for k, v in node.items():
            if k in SKIP_KEYS:
                continue
            if isinstance(v, (dict, list)):
                yield v
    elif isinstance(node, list):
        for v in node:
            yield v


def walk(node, into_closures=True):
    """Pre-order over every dict node (expressions, patterns, statements)."""
    stack = [node]
    while stack:
        n = stack.pop()
        if isinstance(n, dict):
            yield n
            if not into_closures and n.get("e") == "closure":
                continue
            kids = [v for k, v in n.items() if k not in SKIP_KEYS and isinstance(v, (dict, list))]
            stack.extend(reversed(kids))
        elif isinstance(n, list):
            stack.extend(reversed(n))


def unwrap(e):
    """Strip transparent wrappers (&, *, casts, DropTemps, trivial blocks)."""
    while isinstance(e, dict):
        k = e.get("e")
        if k == "wrap":
            e = e["x"]
        elif k == "un" and e.get("op") == "Deref":
            e = e["x"]
        elif k == "blockexpr" and not e["b"]["stmts"] and "tail" in e["b"]:
            e = e["b"]["tail"]
        else:
            break
    return e


def callee_of(n):
    """Resolved callee def-path of a call / method call node ('' if none)."""
    if not isinstance(n, dict):
        return ""
    if n.get("e") in ("call", "mcall"):
        return n.get("resolved") or n.get("callee") or n.get("ctor") or ""
    return ""


def callee_any(n):
    """Both the as-written and resolved callee (set)."""
    s = set()
    if isinstance(n, dict) and n.get("e") in ("call", "mcall"):
        for k in ("resolved", "callee", "ctor"):
            if n.get(k):
                s.add(n[k])
    return s


def ends(path, *suffixes):
    """True when def-path `path` equals or ends with '::'+suffix for any suffix."""
    for s in suffixes:
        if path == s or path.endswith("::" + s) or path.endswith(s) and s.startswith("::"):
            return True
    return False


def is_call_to(n, *suffixes):
    return any(ends(c, *suffixes) for c in callee_any(n))


def calls_in(node, *suffixes, into_closures=True):
    """All call nodes under node (source order) whose callee ends with one of suffixes."""
    return [n for n in walk(node, into_closures) if n.get("e") in ("call", "mcall") and is_call_to(n, *suffixes)]


def all_calls(node, into_closures=True, skip_exp=False):
    out = []
    for n in walk(node, into_closures):
        if n.get("e") in ("call", "mcall"):
            if skip_exp and n.get("exp"):
                continue
            out.append(n)
    return out


def def_of(n):
    """Resolved def-path of a path / ctor-call / struct expression or pattern."""
    if not isinstance(n, dict):
        return ""
    k = n.get("e")
    if k == "path":
        return n["res"].get("def", "")
    if k == "call":
        return n.get("ctor") or ""
    if k == "struct":
        return n["path"].get("def", "")
    pk = n.get("p")
    if pk in ("struct", "tstruct"):
        return n["path"].get("def", "")
    if pk == "expr" and "path" in n:
        return n["path"].get("def", "")
    return ""


def constructs(node, *suffixes, into_closures=True):
    """Expression nodes under `node` that construct / name the variant or struct (by def-path suffix)."""
    out = []
    for n in walk(node, into_closures):
        if "e" in n and n["e"] in ("path", "call", "struct"):
            d = def_of(n)
            if d and ends(d, *suffixes):
                out.append(n)
    return out


def short(d, n=2):
    parts = d.split("::")
    return "::".join(parts[-n:])


def pat_s(p):
    k = p.get("p")
    if k == "wild":
        return "_"
    if k == "bind":
        return "$" + p["name"] + ("@" + pat_s(p["sub"]) if "sub" in p else "")
    if k == "struct":
        return short(p["path"].get("def", "?")) + "{" + ",".join(f["f"] + ":" + pat_s(f["pat"]) for f in p["fields"]) + "}"
    if k == "tstruct":
        return short(p["path"].get("def", "?")) + "(" + ",".join(pat_s(x) for x in p["pats"]) + ")"
    if k == "or":
        return " | ".join(pat_s(x) for x in p["pats"])
    if k == "tuple":
        return "(" + ",".join(pat_s(x) for x in p["pats"]) + ")"
    if k == "ref":
        return pat_s(p["pat"])
    if k == "expr":
        if "path" in p:
            return short(p["path"].get("def", "?"))
        return str(p.get("v", "?"))
    if k == "range":
        def side(s):
            if s is None:
                return ""
            if "path" in s:
                return short(s["path"].get("def", "?"))
            return str(s.get("v", "?"))
        return side(p.get("lo")) + (".." if "Excluded" in p.get("end", "") else "..=") + side(p.get("hi"))
    if k == "slice":
        return "[" + ",".join(pat_s(x) for x in p["pats"]) + (",.." if p.get("rest") else "") + "]"
    return "?"


def pat_norm(p):
    """Pattern with bindings erased (for table keys): variant skeleton only."""
    k = p.get("p")
    if k in ("wild", "bind"):
        if k == "bind" and "sub" in p:
            return pat_norm(p["sub"])
        return "_"
    if k == "struct":
        fs = [f["f"] + ":" + pat_norm(f["pat"]) for f in p["fields"] if pat_norm(f["pat"]) != "_"]
        return short(p["path"].get("def", "?")) + ("{" + ",".join(fs) + "}" if fs else "")
    if k == "tstruct":
        inner = [pat_norm(x) for x in p["pats"]]
        if all(i == "_" for i in inner):
            return short(p["path"].get("def", "?"))
        return short(p["path"].get("def", "?")) + "(" + ",".join(inner) + ")"
    if k == "or":
        return " | ".join(pat_norm(x) for x in p["pats"])
    if k == "tuple":
        return "(" + ",".join(pat_norm(x) for x in p["pats"]) + ")"
    if k == "ref":
        return pat_norm(p["pat"])
    return pat_s(p)


def pat_alternatives(p):
    """Expand or-patterns at the top level and inside tuples into a list of alternative patterns (as pat_norm strings)."""
    k = p.get("p")
    if k == "or":
        out = []
        for x in p["pats"]:
            out.extend(pat_alternatives(x))
        return out
    if k == "ref":
        return pat_alternatives(p["pat"])
    if k == "tuple":
        alts = [[]]
        for x in p["pats"]:
            xs = pat_alternatives(x)
            alts = [a + [b] for a in alts for b in xs]
        return ["(" + ",".join(a) + ")" for a in alts]
    if k == "bind" and "sub" in p:
        return pat_alternatives(p["sub"])
    return [pat_norm(p)]


def ex_s(e, depth=0):
    """Human-readable rendering of an expression (for reports and canonical keys)."""
    if not isinstance(e, dict):
        return "?"
    k = e.get("e")
    if depth > 8:
        return "…"
    if k == "path":
        r = e["res"]
        return short(r["def"]) if "def" in r else r.get("name", r.get("res", "?"))
    if k == "lit":
        return str(e.get("v"))
    if k == "bin":
        return "(" + ex_s(e["l"], depth + 1) + " " + e["op"] + " " + ex_s(e["r"], depth + 1) + ")"
    if k == "un":
        return ("!" if e["op"] == "Not" else "*" if e["op"] == "Deref" else "-") + ex_s(e["x"], depth + 1)
    if k == "wrap":
        return ex_s(e["x"], depth)
    if k == "field":
        return ex_s(e["x"], depth + 1) + "." + e["f"]
    if k == "mcall":
        return ex_s(e["recv"], depth + 1) + "." + short(callee_of(e) or e["name"], 1) + "(" + ",".join(ex_s(a, depth + 1) for a in e["args"]) + ")"
    if k == "call":
        nm = callee_of(e)
        return (short(nm) if nm else ex_s(e.get("fun", {}), depth + 1)) + "(" + ",".join(ex_s(a, depth + 1) for a in e["args"]) + ")"
    if k == "let":
        return "let " + pat_s(e["pat"]) + " = " + ex_s(e["init"], depth + 1)
    if k == "match":
        return "match " + ex_s(e["scrut"], depth + 1) + "{..}"
    if k == "blockexpr":
        b = e["b"]
        return ex_s(b["tail"], depth + 1) if "tail" in b and not b["stmts"] else "{…}"
    if k == "struct":
        return short(e["path"].get("def", "?")) + "{..}"
    if k == "tuple":
        return "(" + ",".join(ex_s(x, depth + 1) for x in e["xs"]) + ")"
    if k == "closure":
        return "|..| " + ex_s(e["body"], depth + 1)
    if k == "if":
        return "if " + ex_s(e["cond"], depth + 1) + " {..}"
    if k == "index":
        return ex_s(e["x"], depth + 1) + "[" + ex_s(e["i"], depth + 1) + "]"
    if k == "ret":
        return "return " + (ex_s(e["x"], depth + 1) if "x" in e else "")
    return k or "?"


def tokens(e, into_closures=True):
    """Set of resolved identifiers an expression mentions: callee def-paths ('call:..'),
    def paths ('def:..'), field names ('field:..'), literals ('lit:..'), operators ('op:..'),
    local names are NOT included (a rule never matches on local names)."""
    out = set()
    for n in walk(e, into_closures):
        k = n.get("e")
        if k in ("call", "mcall"):
            for c in callee_any(n):
                out.add("call:" + c)
        elif k == "path":
            d = n["res"].get("def")
            if d:
                out.add("def:" + d)
        elif k == "struct":
            d = n["path"].get("def")
            if d:
                out.add("def:" + d)
        elif k == "field":
            out.add("field:" + n["f"])
        elif k == "lit":
            out.add("lit:" + str(n.get("v")))
        elif k == "bin":
            out.add("op:" + n["op"])
        pk = n.get("p")
        if pk in ("struct", "tstruct"):
            d = n["path"].get("def")
            if d:
                out.add("def:" + d)
        elif pk == "expr" and "path" in n:
            d = n["path"].get("def")
            if d:
                out.add("def:" + d)
    return out


def has_token(toks, kind, *suffixes):
    for t in toks:
        if t.startswith(kind + ":") and ends(t[len(kind) + 1:], *suffixes):
            return True
    return False


def mentions(e, kind, *suffixes, into_closures=True):
    return has_token(tokens(e, into_closures), kind, *suffixes)
