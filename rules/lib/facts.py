"""Fact building and loading.

ensure_facts() makes sure /verif/.cache/facts/<tree-hash>/ holds a complete fact set
extracted by the kvfacts driver from /repo's *current working tree* (tracked and
untracked files). Facts are reused only when the tree hash is identical.
"""
import fcntl
import glob
import hashlib
import json
import os
import shutil
import subprocess
import sys
import time
import uuid

VERIF = os.path.dirname(os.path.dirname(os.path.dirname(os.path.abspath(__file__))))
REPO = os.environ.get("KV_REPO", "/repo")
CACHE = os.environ.get("KV_CACHE", os.path.join(VERIF, ".cache"))
DRIVER_DIR = os.path.join(VERIF, "driver")
DRIVER_BIN = os.path.join(DRIVER_DIR, "target", "release", "kvfacts")

# crates whose facts must exist after a build (crate name, kind); floor for the
# freshness assertion. Counted on the pinned tree.
EXPECTED = [
    ("kanidmd_lib", "lib"), ("kanidmd_core", "lib"), ("kanidm_lib_crypto", "lib"),
    ("kanidm_proto", "lib"), ("kanidm_actors", "lib"), ("sparkle_unix_common", "lib"),
    ("sparkle_resolver_common", "lib"), ("pam_sparkle_common", "lib"), ("rlm_kanidm", "lib"),
    ("rlm_kanidm_shared", "lib"), ("scim_proto", "lib"), ("kanidm_client", "lib"), ("kanidmd", "bin"),
]


# --cap-lints allow: kanidmd_lib has #![deny(warnings)], which -A cannot override; a lint that only
# the nightly compiler knows must not make a tree "fail to build" for the extractor.
RUSTFLAGS = "-Zmir-opt-level=0 --cap-lints allow"


class FactError(Exception):
    pass


def sh(cmd, **kw):
    return subprocess.run(cmd, shell=True, capture_output=True, text=True, **kw)


def tree_hash(repo=None):
    """Hash of HEAD + every modified/untracked (non-ignored) file's content."""
    repo = repo or REPO
    h = hashlib.sha256()
    head = sh(f"git -C {repo} rev-parse HEAD").stdout.strip()
    h.update(head.encode())
    st = subprocess.run(
        ["git", "-C", repo, "status", "--porcelain", "-z", "--untracked-files=all"],
        capture_output=True).stdout.decode("utf-8", "replace")
    ents = [e for e in st.split("\0") if e]
    i = 0
    names = []
    while i < len(ents):
        e = ents[i]
        code, name = e[:2], e[3:]
        if code[0] in "RC":
            i += 1  # skip the origin path of renames
        names.append((code, name))
        i += 1
    for code, name in sorted(names):
        h.update(code.encode())
        h.update(name.encode())
        p = os.path.join(repo, name)
        if os.path.isfile(p):
            with open(p, "rb") as f:
                h.update(hashlib.sha256(f.read()).digest())
    h.update(RUSTFLAGS.encode())
    # the driver itself is part of the key
    for f in sorted(glob.glob(os.path.join(DRIVER_DIR, "src", "*.rs"))):
        with open(f, "rb") as fh:
            h.update(hashlib.sha256(fh.read()).digest())
    return h.hexdigest()[:20]


def sysroot_lib():
    return sh("rustc +nightly --print sysroot").stdout.strip() + "/lib"


def build_driver():
    if os.path.exists(DRIVER_BIN):
        srcs = glob.glob(os.path.join(DRIVER_DIR, "src", "*.rs"))
        if all(os.path.getmtime(s) <= os.path.getmtime(DRIVER_BIN) for s in srcs):
            return
    r = sh("cargo +nightly build --release --offline", cwd=DRIVER_DIR,
           env=dict(os.environ, CARGO_NET_OFFLINE="true"))
    if r.returncode != 0:
        raise FactError("driver build failed:\n" + r.stderr[-4000:])


def _member_names(repo):
    r = sh("cargo +nightly metadata --offline --no-deps --format-version 1", cwd=repo)
    if r.returncode != 0:
        raise FactError("cargo metadata failed: " + r.stderr[-2000:])
    md = json.loads(r.stdout)
    return sorted({p["name"] for p in md["packages"]})


def facts_dir(repo=None):
    return os.path.join(CACHE, "facts", tree_hash(repo))


def ensure_facts(repo=None, verbose=True):
    """Returns the facts directory for the current tree, building it if needed."""
    repo = repo or REPO
    os.makedirs(CACHE, exist_ok=True)
    th = tree_hash(repo)
    fdir = os.path.join(CACHE, "facts", th)
    okfile = os.path.join(fdir, "COMPLETE")
    if os.path.exists(okfile):
        return fdir
    lock = open(os.path.join(CACHE, "lock"), "w")
    fcntl.flock(lock, fcntl.LOCK_EX)
    try:
        if os.path.exists(okfile):
            return fdir
        t0 = time.time()
        build_driver()
        target = os.path.join(CACHE, "target")
        # cargo's freshness cache would skip the wrapper: drop the members' fingerprints
        fp = os.path.join(target, "debug", ".fingerprint")
        if os.path.isdir(fp):
            for m in _member_names(repo):
                for d in glob.glob(os.path.join(fp, m.replace("_", "?") + "-*")) + \
                        glob.glob(os.path.join(fp, m + "-*")):
                    shutil.rmtree(d, ignore_errors=True)
        if os.path.isdir(fdir):
            shutil.rmtree(fdir)
        tmp = fdir + ".tmp"
        if os.path.isdir(tmp):
            shutil.rmtree(tmp)
        os.makedirs(tmp)
        nonce = uuid.uuid4().hex
        env = dict(os.environ)
        env.update({
            "CARGO_NET_OFFLINE": "true",
            "LD_LIBRARY_PATH": sysroot_lib() + ":" + env.get("LD_LIBRARY_PATH", ""),
            "RUSTFLAGS": RUSTFLAGS,
            "RUSTC_WORKSPACE_WRAPPER": DRIVER_BIN,
            "CARGO_TARGET_DIR": target,
            "KV_OUT": tmp,
            "KV_NONCE": nonce,
        })
        env.pop("RUSTUP_TOOLCHAIN", None)
        scratch = bool(os.environ.get("KV_CACHE"))
        if scratch:
            # scratch copies (tools/mutant.py): keep them small
            env["CARGO_INCREMENTAL"] = "0"
            shutil.rmtree(os.path.join(target, "debug", "incremental"), ignore_errors=True)
        if verbose:
            print(f"[facts] extracting facts for tree {th} (cargo +nightly check with kvfacts)...",
                  file=sys.stderr, flush=True)
        r = subprocess.run(
            "cargo +nightly check --offline --workspace --lib --bins",
            shell=True, cwd=repo, env=env, capture_output=True, text=True)
        if r.returncode != 0:
            shutil.rmtree(tmp, ignore_errors=True)
            raise FactError("cargo check of /repo failed (tree does not type-check):\n" + r.stderr[-6000:])
        missing = []
        for (c, k) in EXPECTED:
            d = os.path.join(tmp, f"{c}.{k}.done")
            if not os.path.exists(d):
                missing.append(c)
                continue
            if json.loads(open(d).read())["nonce"] != nonce:
                missing.append(c + "(stale)")
        if missing:
            raise FactError("fact files missing after build (driver skipped?): " + ",".join(missing))
        # per-function offset indexes (so that a check only parses the bodies it needs)
        try:
            from .hir import Facts as _F
        except ImportError:
            sys.path.insert(0, VERIF)
            from rules.lib.hir import Facts as _F
        _f = _F(tmp)
        for c in _f.crates():
            _f._index(c)
        os.rename(tmp, fdir)
        with open(okfile, "w") as f:
            f.write(json.dumps({"nonce": nonce, "tree": th, "wall_s": round(time.time() - t0, 1)}))
        # keep the cache small: retain the 4 most recent fact sets
        sets = sorted(glob.glob(os.path.join(CACHE, "facts", "*")), key=os.path.getmtime)
        for old in sets[:(-1 if scratch else -4)]:
            shutil.rmtree(old, ignore_errors=True)
        if verbose:
            print(f"[facts] done in {time.time() - t0:.0f}s", file=sys.stderr, flush=True)
        return fdir
    finally:
        fcntl.flock(lock, fcntl.LOCK_UN)
        lock.close()


if __name__ == "__main__":
    print(ensure_facts())
