"""Method-chain helpers: does an iterator chain cover its whole source collection?"""
from .hir import unwrap
from . import pathcond as pc

# adapters that can skip elements of the source
LOSSY = ("filter", "filter_map", "skip", "take", "skip_while", "take_while", "step_by", "nth", "find", "find_map",
         "last", "next", "dedup", "dedup_by", "dedup_by_key", "flat_map", "flatten", "map_while", "scan", "position",
         "partition_in_place", "peekable_take")
# Vec methods that remove elements
SHRINK = ("retain", "retain_mut", "drain", "truncate", "dedup", "dedup_by", "dedup_by_key", "pop", "remove", "swap_remove",
          "clear", "split_off", "extract_if")


def chain(e):
    """(root local id | None, [method names from the root outwards]) of a method-call chain expression"""
    names = []
    e = unwrap(e)
    while isinstance(e, dict):
        k = e.get("e")
        if k == "mcall":
            names.append(e.get("name"))
            e = unwrap(e["recv"])
        elif k == "match" and ("TryDesugar" in e.get("src", "")):
            e = unwrap(pc.try_inner(e))
        elif k == "path" and "local" in e["res"]:
            return e["res"]["local"], list(reversed(names))
        else:
            return None, list(reversed(names))
    return None, list(reversed(names))


def lossy(names):
    return [m for m in names if m in LOSSY]
