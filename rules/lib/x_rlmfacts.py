"""Facts for rlm_kanidm's `logic` module (C46), extracted through a shim crate root.

Why: /repo/rlm_kanidm/module/src/lib.rs declares `mod logic;` (and `mod error;`) behind
`#[cfg(any(test, feature = "extern-freeradius-module"))]`. The workspace fact build
(`cargo check --workspace --lib --bins`, default features, non-test) therefore compiles an *empty*
rlm_kanidm crate and the shared fact set holds no body of `Module::authorise`. The feature build needs
bindgen + FreeRADIUS headers (build.rs), the test build pulls the dev-dependencies.

What this does (once per tree hash, cached under $KV_CACHE/facts_x/):
  * asks cargo (same command line and environment as rules/lib/facts.py, so every unit is fresh and
    nothing is rebuilt) for the artefacts of the workspace check (`--message-format=json`) and picks the
    check-mode `.rmeta` of each *normal* dependency of package rlm_kanidm (names from `cargo metadata`);
  * writes a shim root that declares exactly the modules lib.rs gates behind
    cfg(any(test, feature = "extern-freeradius-module")) with `#[path = "<repo>/rlm_kanidm/module/src/<m>.rs"]`
    — the source files themselves are compiled unmodified, without cfg(test) and without the feature
    (so `#[cfg(test)] mod tests` is absent and the non-FFI `AuthRequest::{error,info,debug}` impl is used);
  * runs the kvfacts driver directly on the shim (crate name rlm_kanidm, same edition / RUSTFLAGS);
  * the driver writes rlm_kanidm.lib.{hir.jsonl,calls.tsv,items.jsonl,done} into the cache directory.
Def-paths are the real ones: `rlm_kanidm::logic::Module::authorise`, ...

Fail closed: any failure raises RlmFactError; C46 turns that into an anchor-missing violation.
Honours KV_REPO / KV_CACHE (tools/mutant.py scratch copies). Takes the facts.py lock ($KV_CACHE/lock)
while cargo looks at the shared target directory. Never runs a cargo command that re-unifies features.
"""
import fcntl
import hashlib
import json
import os
import re
import shutil
import subprocess
import sys
import time
import uuid

from . import facts

SHIM_VERSION = "3"
PKG = "rlm_kanidm"
GATE = 'any(test, feature = "extern-freeradius-module")'


class RlmFactError(Exception):
    pass


def _env(target, kv_out, nonce):
    env = dict(os.environ)
    env.update({
        "CARGO_NET_OFFLINE": "true",
        "LD_LIBRARY_PATH": facts.sysroot_lib() + ":" + env.get("LD_LIBRARY_PATH", ""),
        "RUSTFLAGS": "-Zmir-opt-level=0 -Awarnings",
        "RUSTC_WORKSPACE_WRAPPER": facts.DRIVER_BIN,
        "CARGO_TARGET_DIR": target,
        "KV_OUT": kv_out,
        "KV_NONCE": nonce,
    })
    env.pop("RUSTUP_TOOLCHAIN", None)
    return env


def _package(repo):
    r = facts.sh("cargo +nightly metadata --offline --no-deps --format-version 1", cwd=repo)
    if r.returncode != 0:
        raise RlmFactError("cargo metadata failed: " + r.stderr[-1500:])
    for p in json.loads(r.stdout)["packages"]:
        if p["name"] == PKG:
            return p
    raise RlmFactError(f"package {PKG} is not a workspace member any more")


def gated_modules(lib_rs_text):
    """Names of `mod x;` items declared directly under #[cfg(any(test, feature = "extern-freeradius-module"))]."""
    mods = []
    rx = re.compile(r'#\[cfg\(\s*' + re.escape(GATE).replace(r'\ ', r'\s*') + r'\s*\)\]\s*(?:pub(?:\([a-z]+\))?\s+)?mod\s+(\w+)\s*;')
    for m in rx.finditer(lib_rs_text):
        mods.append(m.group(1))
    return mods


def _key(repo):
    h = hashlib.sha256()
    h.update(facts.tree_hash(repo).encode())
    h.update(SHIM_VERSION.encode())
    with open(os.path.abspath(__file__), "rb") as f:
        h.update(hashlib.sha256(f.read()).digest())
    return h.hexdigest()[:20]


def ensure_rlm_facts(verbose=True):
    """Directory holding rlm_kanidm.lib.* facts of the shim build for the current tree."""
    repo = facts.REPO
    cache = facts.CACHE
    facts.ensure_facts(repo, verbose=verbose)          # the target dir is now fresh for this tree
    xdir = os.path.join(cache, "facts_x", "rlm-" + _key(repo))
    ok = os.path.join(xdir, "COMPLETE")
    if os.path.exists(ok):
        return xdir
    os.makedirs(os.path.join(cache, "facts_x"), exist_ok=True)
    lock = open(os.path.join(cache, "lock"), "w")
    fcntl.flock(lock, fcntl.LOCK_EX)
    tmp = xdir + ".tmp"
    try:
        if os.path.exists(ok):
            return xdir
        t0 = time.time()
        if verbose:
            print("[facts] rlm_kanidm::logic is cfg-gated out of the default build; extracting it through a shim root...",
                  file=sys.stderr, flush=True)
        pkg = _package(repo)
        mdir = os.path.dirname(pkg["manifest_path"])
        lib_rs = None
        for t in pkg["targets"]:
            if "rlib" in t["kind"] or "lib" in t["kind"] or "cdylib" in t["kind"]:
                lib_rs = t["src_path"]
        if not lib_rs or not os.path.exists(lib_rs):
            raise RlmFactError("library target of rlm_kanidm not found")
        mods = gated_modules(open(lib_rs).read())
        if "logic" not in mods:
            raise RlmFactError(f"lib.rs no longer declares `mod logic` under cfg({GATE}) (found gated modules: {mods}); "
                               "the shim cannot reproduce the module tree")
        srcdir = os.path.dirname(lib_rs)
        for m in mods:
            if not os.path.exists(os.path.join(srcdir, m + ".rs")):
                raise RlmFactError(f"gated module file {m}.rs not found next to lib.rs")
        deps = []
        for d in pkg["dependencies"]:
            if d.get("kind") is None:
                deps.append(((d.get("rename") or d["name"]).replace("-", "_"), d["name"].replace("-", "_")))
        # artefacts of the (fresh) workspace check; identical command + env to facts.py
        target = os.path.join(cache, "target")
        if os.path.isdir(tmp):
            shutil.rmtree(tmp)
        os.makedirs(tmp)
        scratch = os.path.join(tmp, "scratch")
        os.makedirs(scratch)
        nonce = uuid.uuid4().hex
        env = _env(target, scratch, nonce)
        r = subprocess.run("cargo +nightly check --offline --workspace --lib --bins --message-format=json",
                           shell=True, cwd=repo, env=env, capture_output=True, text=True)
        if r.returncode != 0:
            raise RlmFactError("cargo check (artefact listing) failed:\n" + r.stderr[-3000:])
        rmeta = {}
        n_unfresh = 0
        for line in r.stdout.splitlines():
            if not line.startswith("{"):
                continue
            try:
                a = json.loads(line)
            except ValueError:
                continue
            if a.get("reason") != "compiler-artifact":
                continue
            if not a.get("fresh", True):
                n_unfresh += 1
            kinds = a["target"].get("kind", [])
            if not any(k in ("lib", "rlib", "cdylib", "proc-macro", "dylib") for k in kinds):
                continue
            fns = a.get("filenames", [])
            metas = [f for f in fns if f.endswith(".rmeta")]
            if "proc-macro" in kinds:
                metas = [f for f in fns if f.endswith(".so") or f.endswith(".dylib") or f.endswith(".dll")]
            if not metas:
                continue
            check_only = all(f.endswith(".rmeta") for f in fns) or "proc-macro" in kinds
            nm = a["target"]["name"].replace("-", "_")
            # prefer the check-mode (target) artefact over host (build-dependency) rlibs
            if nm not in rmeta or (check_only and not rmeta[nm][1]):
                rmeta[nm] = (metas[0], check_only)
        externs = []
        for (as_name, crate_name) in deps:
            if crate_name not in rmeta:
                raise RlmFactError(f"no check artefact found for dependency {crate_name}")
            externs += ["--extern", f"{as_name}={rmeta[crate_name][0]}"]
        shim = os.path.join(tmp, "rlm_kanidm_shim.rs")
        with open(shim, "w") as f:
            f.write("// generated by /verif/rules/lib/x_rlmfacts.py — declares the cfg-gated modules of rlm_kanidm/module/src/lib.rs\n")
            f.write('#![recursion_limit = "512"]\n#![allow(dead_code)]\n')
            for m in mods:
                f.write(f'#[path = "{os.path.join(srcdir, m + ".rs")}"]\npub(crate) mod {m};\n')
        outdir = os.path.join(tmp, "out")
        os.makedirs(outdir)
        env2 = _env(target, tmp, nonce)
        cmd = [facts.DRIVER_BIN, "rustc", "--crate-name", PKG, "--edition=" + str(pkg.get("edition", "2021")), shim,
               "--crate-type", "rlib", "--emit=metadata", "--out-dir", outdir,
               "-L", "dependency=" + os.path.join(target, "debug", "deps"),
               "-Zmir-opt-level=0", "-Awarnings", "--cap-lints", "allow"] + externs
        r2 = subprocess.run(cmd, cwd=repo, env=env2, capture_output=True, text=True)
        done = os.path.join(tmp, f"{PKG}.lib.done")
        if r2.returncode != 0 or not os.path.exists(done):
            raise RlmFactError("shim build of rlm_kanidm::logic failed (the module no longer compiles stand-alone, or the tree does not type-check):\n"
                               + r2.stderr[-3000:])
        d = json.loads(open(done).read())
        if d.get("nonce") != nonce or not d.get("hir_bodies"):
            raise RlmFactError(f"shim build produced no bodies: {d}")
        shutil.rmtree(scratch, ignore_errors=True)
        shutil.rmtree(outdir, ignore_errors=True)
        if os.path.isdir(xdir):
            shutil.rmtree(xdir)
        os.rename(tmp, xdir)
        with open(ok, "w") as f:
            f.write(json.dumps({"nonce": nonce, "modules": mods, "unfresh_units": n_unfresh,
                                "wall_s": round(time.time() - t0, 1)}))
        # keep only the 4 most recent shim fact sets
        import glob
        sets = sorted(glob.glob(os.path.join(cache, "facts_x", "rlm-*")), key=os.path.getmtime)
        for old in sets[:-4]:
            if old != xdir:
                shutil.rmtree(old, ignore_errors=True)
        if verbose:
            print(f"[facts] rlm_kanidm shim facts done in {time.time() - t0:.0f}s ({d.get('hir_bodies')} bodies)",
                  file=sys.stderr, flush=True)
        return xdir
    except RlmFactError:
        shutil.rmtree(tmp, ignore_errors=True)
        raise
    finally:
        fcntl.flock(lock, fcntl.LOCK_UN)
        lock.close()


if __name__ == "__main__":
    print(ensure_rlm_facts())
