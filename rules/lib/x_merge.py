"""Table helpers for the replication merge functions in entry.rs (C08, C09, C11).

Rows of a `match (a, b) { .. }` are selected by *evaluating the patterns* for a chosen tuple of
variants (first matching arm, guards evaluated by a caller-supplied function), so reordering
independent arms, merging arms with or-patterns or adding a wildcard arm does not change the result.
Sides are parameter labels from x_prov ('p0' = self = incoming entry, 'p1' = database entry).
"""
from .hir import walk, unwrap, callee_any, ends, def_of, ex_s
from .x_prov import Prov, tails
from .x_rangediff import is_macro_noise

ENTRY_NEW = "kanidmd_lib::entry::Entry::<entry::EntryIncremental, entry::EntryNew>::"
MERGE = ENTRY_NEW + "merge_state"
IS_CONFLICT = ENTRY_NEW + "is_add_conflict"
RESOLVE = ENTRY_NEW + "resolve_add_conflict"
STATE = "kanidmd_lib::repl::entry::State"


def entry_sides(fn):
    """(label of the incoming entry parameter, label of the database entry parameter), identified by parameter *type*
    (Entry<EntryIncremental, _> vs Entry<EntrySealed, EntryCommitted>), or None."""
    inc = [f"p{i}" for i, p in enumerate(fn["params"]) if "entry::Entry<entry::EntryIncremental" in p.get("ty", "")]
    db = [f"p{i}" for i, p in enumerate(fn["params"]) if "entry::Entry<entry::EntrySealed" in p.get("ty", "")]
    if len(inc) == 1 and len(db) == 1:
        return inc[0], db[0]
    return None


def pat_accepts(p, variant_def):
    """Does pattern p accept a value of the enum variant `variant_def`? (True / False)"""
    k = p.get("p")
    if k in ("wild",):
        return True
    if k == "bind":
        return pat_accepts(p["sub"], variant_def) if "sub" in p else True
    if k == "ref":
        return pat_accepts(p["pat"], variant_def)
    if k == "or":
        return any(pat_accepts(q, variant_def) for q in p["pats"])
    if k in ("struct", "tstruct"):
        return p["path"].get("def", "") == variant_def
    if k == "expr" and "path" in p:
        return p["path"].get("def", "") == variant_def
    return False


def select_arm(m, row, guard_eval=None):
    """First arm of match `m` (over a tuple) accepting the tuple of variant def-paths `row`.
    guard_eval(guard_expr) -> bool; raises ValueError when an arm has a guard that cannot be evaluated."""
    for a in m["arms"]:
        p = a["pat"]
        while p.get("p") == "ref":
            p = p["pat"]
        alts = p["pats"] if p.get("p") == "or" else [p]
        hit = False
        for alt in alts:
            if alt.get("p") in ("wild",) or (alt.get("p") == "bind" and "sub" not in alt):
                hit = True
            elif alt.get("p") == "tuple" and len(alt["pats"]) == len(row):
                if all(pat_accepts(q, v) for q, v in zip(alt["pats"], row)):
                    hit = True
        if not hit:
            continue
        if "guard" in a:
            if guard_eval is None:
                raise ValueError("guarded arm")
            g = guard_eval(a["guard"])
            if g is None:
                raise ValueError("guard not understood: " + ex_s(a["guard"])[:80])
            if not g:
                continue
        return a
    return None


def find_tuple_match(body, ty_pred):
    """Normal `match (a, b)` nodes whose scrutinee is a 2-tuple expression and whose type satisfies ty_pred."""
    out = []
    for n in walk(body):
        if n.get("e") == "match" and n.get("src") == "Normal" and not n.get("exp"):
            s = unwrap(n["scrut"])
            if s.get("e") == "tuple" and len(s["xs"]) == 2 and ty_pred(n.get("scrut_ty", "")):
                out.append(n)
    return out


def is_state_pair(ty):
    t = ty.replace("&", "").replace(" ", "")
    return t == "(repl::entry::State,repl::entry::State)"


def sides_of_scrut(P, m):
    """[labels of tuple element 0, labels of element 1] in side mode (method results belong to their receiver)."""
    s = unwrap(m["scrut"])
    return [P.labels(x, args=False) for x in s["xs"]]


def cmp_between(P, e, a="p0", b="p1"):
    """If e is `x <op> y` with x deriving only from side a and y only from side b (or the reverse), return
    (op, side of left operand, side of right operand); else None."""
    e = unwrap(e)
    if e.get("e") != "bin" or e["op"] not in ("<", "<=", ">", ">=", "==", "!="):
        return None
    l, r = P.labels(e["l"], args=False), P.labels(e["r"], args=False)
    if len(l) == 1 and len(r) == 1 and l != r and (l | r) == {a, b}:
        return e["op"], next(iter(l)), next(iter(r))
    return None


def greater_side(cmp, when):
    """For cmp=(op,l,r) with an ordering op: the side holding the strictly greater value when the comparison evaluates to `when`
    on *unequal* operands."""
    op, l, r = cmp
    if op in (">", ">="):
        return l if when else r
    if op in ("<", "<="):
        return r if when else l
    return None


def paths(e, events_of):
    """Enumerate control-flow paths through e (if / match / blocks); each path is the list of events
    (events_of(node) -> list) of the straight-line nodes on it. Macro noise (tracing, asserts) is skipped."""
    if isinstance(e, dict) and e.get("exp") and is_macro_noise(e):
        return [[]]
    e0 = e
    e = unwrap(e)
    if not isinstance(e, dict):
        return [[]]
    k = e.get("e")
    if k == "blockexpr":
        return paths(e["b"], events_of)
    if k == "block":
        acc = [[]]
        for s in e["stmts"]:
            if s.get("s") == "item":
                continue
            x = s.get("x") if s.get("s") == "expr" else s.get("init")
            if x is None:
                continue
            ps = paths(x, events_of)
            acc = [a + p for a in acc for p in ps]
            if len(acc) > 512:
                raise ValueError("too many paths")
        if "tail" in e:
            ps = paths(e["tail"], events_of)
            acc = [a + p for a in acc for p in ps]
        return acc
    if k == "if":
        c = paths(e["cond"], events_of)
        t = paths(e["then"], events_of)
        f = paths(e["else"], events_of) if "else" in e else [[]]
        return [a + b for a in c for b in t + f]
    if k == "match" and e.get("src") == "Normal":
        c = paths(e["scrut"], events_of)
        arms = []
        for a in e["arms"]:
            arms.extend(paths(a["body"], events_of))
        return [a + b for a in c for b in arms]
    if k == "let":
        return paths(e["init"], events_of)
    out = []
    for n in walk(e, into_closures=True):
        if "e" in n:
            out.extend(events_of(n))
    return [out]


def entry_struct_fields(P, e):
    """For an expression evaluating to `Entry { valid: V { .. ecstate .. }, attrs, .. }` return (ecstate expr, attrs expr, struct node) or None."""
    e = P.resolve(e)
    if e.get("e") != "struct" or not ends(e["path"].get("def", ""), "entry::Entry"):
        return None
    f = {x["f"]: x["x"] for x in e["fields"]}
    v = P.resolve(f.get("valid", {}))
    if v.get("e") != "struct":
        return None
    vf = {x["f"]: x["x"] for x in v["fields"]}
    if "ecstate" not in vf or "attrs" not in f:
        return None
    return vf["ecstate"], f["attrs"], e
