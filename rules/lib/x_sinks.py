"""Helpers shared by C43–C47 (K3 sink rules on result sites, strict pattern alternatives,
single-fact truth-table entailment, deep token expansion through simple `let` bindings).

Nothing here matches on local names, source text or positions.
"""
import itertools

from .hir import walk, unwrap, tokens, has_token, ends, short, def_of, callee_of, callee_any, ex_s, pat_s
from . import pathcond as pc


# ---------------------------------------------------------------------------
# bodies

def fn_root(rec):
    """The expression that computes the function's result. For `async fn` and for
    `#[async_trait]` methods (`Box::pin(async move {..})`) this is the coroutine body."""
    b = rec["body"]
    cur = b
    for _ in range(6):
        u = unwrap(cur)
        if not isinstance(u, dict):
            break
        if u.get("e") == "closure" and "Coroutine" in str(u.get("kind", "")):
            return u["body"]
        if u.get("e") == "call" and ends(callee_of(u), "Box::<T>::pin", "boxed::Box::<T>::pin") and u.get("args"):
            cur = u["args"][0]
            continue
        if u.get("e") == "blockexpr" and not [s for s in u["b"]["stmts"] if s.get("s") != "item"] and "tail" in u["b"]:
            cur = u["b"]["tail"]
            continue
        break
    return b


def _awaited(e):
    """For `X.await` (AwaitDesugar match) the expression X, else None."""
    e = unwrap(e)
    if isinstance(e, dict) and e.get("e") == "match" and "AwaitDesugar" in e.get("src", ""):
        sc = unwrap(e["scrut"])
        if sc.get("e") == "call" and ends(callee_of(sc), "IntoFuture::into_future") and sc.get("args"):
            return unwrap(sc["args"][0])
        return sc
    return None


def real_root(rec):
    """fn_root, additionally looking through `#[tracing::instrument]` on async fns
    (`let fut = async move { body }; if enabled { fut.instrument(span).await } else { fut.await }`)
    and async_trait's `let __ret: T = { body }; return __ret`."""
    r = fn_root(rec)
    for _ in range(4):
        binds = pc.collect_binds(r)
        leaves = result_leaves(r, binds)
        if not leaves:
            break
        bodies = []
        for l in leaves:
            x = _awaited(l)
            if x is None:
                bodies = None
                break
            if x.get("e") in ("call", "mcall") and ends(callee_of(x), "Instrument::instrument", "instrument::Instrument::instrument"):
                x = unwrap((x.get("args") or [x.get("recv")])[0] if x.get("e") == "call" else x.get("recv"))
            lid = local_id(x)
            if lid is not None and lid in binds:
                x = unwrap(binds[lid])
            if isinstance(x, dict) and x.get("e") == "closure" and "Coroutine" in str(x.get("kind", "")):
                bodies.append(x["body"])
            else:
                bodies = None
                break
        if not bodies or any(b is not bodies[0] for b in bodies):
            break
        r = bodies[0]
    return r


def is_async(rec):
    return fn_root(rec) is not rec["body"]


def tail_leaves(e):
    """Leaf expressions in tail (value) position of e: descends blocks, if/else, normal match arms."""
    if not isinstance(e, dict):
        return []
    k = e.get("e")
    if k == "blockexpr":
        return tail_leaves(e["b"])
    if k == "block":
        return tail_leaves(e["tail"]) if "tail" in e else []
    if k == "if":
        out = tail_leaves(e["then"])
        if "else" in e:
            out += tail_leaves(e["else"])
        return out
    if k == "match" and e.get("src") == "Normal":
        out = []
        for a in e["arms"]:
            out += tail_leaves(a["body"])
        return out
    if k == "wrap" and "cast" not in e:
        return tail_leaves(e["x"])
    if k in ("ret", "break", "continue"):
        return []
    if k == "loop":
        # value of a loop = its `break <value>` expressions
        out = []
        for n in _walk_same_loop(e["body"]):
            if n.get("e") == "break" and "x" in n:
                out += tail_leaves(n["x"])
        return out
    if k == "call" and pc.is_never_call(e):
        return []
    return [e]


def _walk_same_loop(node):
    """Nodes under node that are not inside a nested loop or closure."""
    stack = [node]
    while stack:
        n = stack.pop()
        if isinstance(n, dict):
            yield n
            if n.get("e") in ("closure", "loop"):
                continue
            stack.extend(v for k, v in n.items() if k not in ("line", "exp") and isinstance(v, (dict, list)))
        elif isinstance(n, list):
            stack.extend(n)


def result_leaves(root, binds=None):
    """Every expression whose value can become the result of the body `root`:
    tail-position leaves plus the operands of `return` (not inside nested closures).
    With `binds` (pathcond.collect_binds), a leaf that is a simple immutable local `x` (`let x = E;`)
    is replaced by the leaves of E (async_trait's `let __ret = {body}; return __ret`)."""
    out = tail_leaves(root)
    for n in walk(root, into_closures=False):
        if n.get("e") == "ret" and "x" in n:
            out += tail_leaves(n["x"])
    if binds:
        for _ in range(3):
            nxt = []
            changed = False
            for x in out:
                lid = local_id(x)
                if lid is not None and lid in binds:
                    nxt += tail_leaves(binds[lid])
                    changed = True
                else:
                    nxt.append(x)
            out = nxt
            if not changed:
                break
    # dedupe by identity, keep order
    seen = set()
    res = []
    for x in out:
        if id(x) not in seen:
            seen.add(id(x))
            res.append(x)
    return res


def sites_of(root, nodes):
    """[(node, formulas)] for the given node objects (by identity)."""
    ids = {id(n) for n in nodes}
    return pc.site_conditions(root, lambda n: id(n) in ids)


# ---------------------------------------------------------------------------
# patterns

def pat_alts(p):
    """Every alternative of a pattern with or-patterns expanded at *any* depth, bindings erased.
    Wild fields of struct patterns are dropped (so `V{a: X, b: _}` == `V{a: X}`)."""
    k = p.get("p")
    if k in ("wild",):
        return ["_"]
    if k == "bind":
        return pat_alts(p["sub"]) if "sub" in p else ["_"]
    if k == "ref":
        return pat_alts(p["pat"])
    if k == "or":
        out = []
        for x in p["pats"]:
            out += pat_alts(x)
        return out
    if k == "tuple":
        parts = [pat_alts(x) for x in p["pats"]]
        return ["(" + ",".join(c) + ")" for c in itertools.product(*parts)]
    if k == "tstruct":
        parts = [pat_alts(x) for x in p["pats"]]
        nm = short(p["path"].get("def", "?"))
        out = []
        for c in itertools.product(*parts):
            out.append(nm + "(" + ",".join(c) + ")")
        return out
    if k == "struct":
        nm = short(p["path"].get("def", "?"))
        names = [f["f"] for f in p["fields"]]
        parts = [pat_alts(f["pat"]) for f in p["fields"]]
        out = []
        for c in itertools.product(*parts):
            fs = [n + ":" + v for n, v in zip(names, c) if v != "_"]
            out.append(nm + "{" + ",".join(sorted(fs)) + "}")
        return out
    return [pat_s(p)]


def leaf_pat(leaf):
    return leaf[2][1] if leaf[1] == "arm" else leaf[2][0]


def leaf_scrut(leaf):
    return leaf[2][0] if leaf[1] == "arm" else leaf[2][1]


# ---------------------------------------------------------------------------
# entailment

def _vars(f, acc):
    t = f[0]
    if t == "leaf":
        acc.setdefault(pc.leaf_key(f), f)
    elif t == "not":
        _vars(f[1], acc)
    elif t in ("and", "or"):
        for g in f[1]:
            _vars(g, acc)


def _eval(f, asg):
    t = f[0]
    if t == "true":
        return True
    if t == "false":
        return False
    if t == "leaf":
        return asg[pc.leaf_key(f)]
    if t == "not":
        return not _eval(f[1], asg)
    if t == "and":
        return all(_eval(g, asg) for g in f[1])
    if t == "or":
        return any(_eval(g, asg) for g in f[1])
    return True


def entailed(formulas, binds=None, max_vars=12):
    """pathcond.implied() strengthened: a literal also counts when a *single* fact entails it
    propositionally (truth table over that fact's leaves), e.g. the fact
    not(¬P ∧ (c ∨ ¬c)) produced by `match x { P => v, _ => { if c {return A} else {return B} } }` entails P."""
    res = dict(pc.implied(formulas, binds))
    for f in formulas:
        vs = {}
        _vars(f, vs)
        if not vs or len(vs) > max_vars:
            continue
        keys = list(vs)
        always = {k: True for k in keys}    # literal k true in all models
        never = {k: True for k in keys}
        any_model = False
        for bits in itertools.product((False, True), repeat=len(keys)):
            asg = dict(zip(keys, bits))
            if _eval(f, asg):
                any_model = True
                for k in keys:
                    if asg[k]:
                        never[k] = False
                    else:
                        always[k] = False
        if not any_model:
            continue
        for k in keys:
            if always[k]:
                for (p, l) in pc._implied(vs[k], True, binds or {}, 3):
                    res[(p, pc.leaf_key(l))] = (p, l)
            elif never[k]:
                for (p, l) in pc._implied(vs[k], False, binds or {}, 3):
                    res[(p, pc.leaf_key(l))] = (p, l)
    return res


def cond_subst(e, binds, depth=3):
    """pathcond.cond(e) with leaves that are simple immutable locals replaced by the formula of their initialiser."""
    f = pc.cond(e)

    def rec(f, d):
        t = f[0]
        if t == "leaf" and f[1] == "expr" and d > 0:
            lid = local_id(f[2])
            if lid is not None and lid in binds:
                return rec(pc.cond(binds[lid]), d - 1)
            return f
        if t == "not":
            return pc.f_not(rec(f[1], d))
        if t == "and":
            return pc.f_and([rec(g, d) for g in f[1]])
        if t == "or":
            return pc.f_or([rec(g, d) for g in f[1]])
        return f
    return rec(f, depth)


# ---------------------------------------------------------------------------
# deep tokens

def expand_locals(e, binds, depth=3):
    """[e] + initialisers of the simple immutable locals e mentions (transitively, bounded)."""
    out = [e]
    seen = set()
    frontier = [e]
    for _ in range(depth):
        nxt = []
        for x in frontier:
            for n in walk(x):
                if n.get("e") == "path" and "local" in n.get("res", {}):
                    lid = n["res"]["local"]
                    if lid in binds and lid not in seen:
                        seen.add(lid)
                        nxt.append(binds[lid])
        out += nxt
        frontier = nxt
        if not frontier:
            break
    return out


def deep_tokens(e, binds, depth=3):
    s = set()
    for x in expand_locals(e, binds, depth):
        s |= tokens(x)
    return s


def deep_nodes(e, binds, depth=3):
    for x in expand_locals(e, binds, depth):
        for n in walk(x):
            yield n


def local_id(e):
    e = unwrap(e)
    if isinstance(e, dict) and e.get("e") == "path" and "local" in e.get("res", {}):
        return e["res"]["local"]
    return None


def pat_bound_locals(p):
    return [n["local"] for n in walk(p) if n.get("p") == "bind"]


def param_locals(rec, ty_pred):
    """Local ids of parameters whose type satisfies ty_pred."""
    out = []
    for p in rec.get("params", []):
        if ty_pred(p.get("ty", "")):
            out += pat_bound_locals(p["pat"])
    return out


# ---------------------------------------------------------------------------
# strict pattern specs

def pat_forces(p, spec):
    """True when *every* alternative of pattern p (or-patterns expanded at any depth) selects the value
    described by spec. spec = ("v", variant-def-suffix, {field-or-index: spec}) | ("lit", "text") | ("any",).
    A transparent `Result::Ok(..)` / `&` wrapper around the spec'd value is accepted. Extra (stricter)
    sub-patterns on other fields are accepted."""
    if spec[0] == "any":
        return True
    k = p.get("p")
    if k == "ref":
        return pat_forces(p["pat"], spec)
    if k == "bind":
        return "sub" in p and pat_forces(p["sub"], spec)
    if k == "or":
        return bool(p["pats"]) and all(pat_forces(x, spec) for x in p["pats"])
    if k == "wild":
        return False
    if spec[0] == "lit":
        return k == "expr" and "path" not in p and str(p.get("v")) == spec[1]
    if spec[0] == "tuple":
        return k == "tuple" and len(p["pats"]) == len(spec[1]) and all(pat_forces(x, s) for x, s in zip(p["pats"], spec[1]))
    if k in ("struct", "tstruct", "expr"):
        d = def_of(p)
        if not d:
            return False
        if not ends(d, spec[1]):
            if k == "tstruct" and ends(d, "core::result::Result::Ok") and len(p["pats"]) == 1:
                return pat_forces(p["pats"][0], spec)
            return False
        for fname, fspec in spec[2].items():
            sub = None
            if k == "struct":
                for f in p["fields"]:
                    if f["f"] == fname:
                        sub = f["pat"]
            elif k == "tstruct":
                i = int(fname)
                if i < len(p["pats"]):
                    sub = p["pats"][i]
            if sub is None or not pat_forces(sub, fspec):
                return False
        return True
    return False


def prov_binds(root, include_mut=False):
    """local id -> expression the local's value is taken from: simple `let x = init` (immutable),
    and every local bound by a destructuring pattern (match arm, if-let, let / let-else) -> the scrutinee.
    This is *provenance* ("derived from"), not equality."""
    binds = dict(pc.collect_binds(root))
    for n in walk(root):
        if n.get("e") == "match" and n.get("src") == "Normal":
            for a in n["arms"]:
                for l in pat_bound_locals(a["pat"]):
                    binds.setdefault(l, n["scrut"])
        elif n.get("e") == "let":
            for l in pat_bound_locals(n["pat"]):
                binds.setdefault(l, n["init"])
        elif n.get("s") == "let" and "init" in n:
            p = n["pat"]
            if p.get("p") == "bind" and p.get("mut") and not include_mut:
                continue
            for l in pat_bound_locals(p):
                binds.setdefault(l, n["init"])
    return binds


def binding_of(root, local):
    """(pattern, scrutinee expr, scrutinee type) of the pattern that binds `local` in a match arm / if-let / let."""
    for n in walk(root):
        if n.get("e") == "match" and n.get("src") == "Normal":
            for a in n["arms"]:
                if local in pat_bound_locals(a["pat"]):
                    return a["pat"], n["scrut"], n.get("scrut_ty", "")
        elif n.get("e") == "let" or (n.get("s") == "let" and "init" in n):
            if local in pat_bound_locals(n["pat"]):
                return n["pat"], n["init"], unwrap(n["init"]).get("ty", "")
    return None


def cmp_operand_ids(root):
    """ids of nodes that are direct operands of == / != comparisons."""
    out = set()
    for n in walk(root):
        if n.get("e") == "bin" and n.get("op") in ("==", "!="):
            for side in ("l", "r"):
                out.add(id(n[side]))
                out.add(id(unwrap(n[side])))
    return out


# ---------------------------------------------------------------------------
# structured "happens before" (K6)

def ancestors(root, target):
    """Dict nodes on the path root .. target (inclusive), or None."""
    path = []

    def rec(n):
        if isinstance(n, dict):
            path.append(n)
            if n is target:
                return True
            for k, v in n.items():
                if k in ("line", "exp"):
                    continue
                if isinstance(v, (dict, list)) and rec(v):
                    return True
            path.pop()
            return False
        if isinstance(n, list):
            for x in n:
                if rec(x):
                    return True
        return False
    return path if rec(root) else None


def preceding_stmts(root, target):
    """Statements that have completed whenever control reaches `target`: for every enclosing block,
    the statements before the one that contains target (structured code: they dominate target)."""
    path = ancestors(root, target)
    out = []
    if not path:
        return out
    for i, n in enumerate(path[:-1]):
        if n.get("e") == "block":
            child = path[i + 1]
            for s in n["stmts"]:
                if s is child:
                    break
                out.append(s)
    return out


def uncond_nodes(node):
    """Nodes evaluated whenever `node` is evaluated to completion: does not enter if-branches, match arms,
    closures, loops or the right operand of && / || (conditions and scrutinees are entered)."""
    stack = [node]
    while stack:
        n = stack.pop()
        if isinstance(n, list):
            stack.extend(reversed(n))
            continue
        if not isinstance(n, dict):
            continue
        yield n
        k = n.get("e")
        if k == "if":
            stack.append(n["cond"])
        elif k == "match":
            stack.append(n["scrut"])
            if ("AwaitDesugar" in n.get("src", "")):
                pass
        elif k in ("closure", "loop"):
            continue
        elif k == "bin" and n.get("op") in ("&&", "||"):
            stack.append(n["l"])
        else:
            kids = [v for kk, v in n.items() if kk not in ("line", "exp") and isinstance(v, (dict, list))]
            stack.extend(reversed(kids))


def calls_before(root, target):
    """Call nodes certainly executed before control reaches target (source order not guaranteed)."""
    out = []
    for s in preceding_stmts(root, target):
        for n in uncond_nodes(s):
            if n.get("e") in ("call", "mcall"):
                out.append(n)
    return out


def loc(rec, node=None):
    from .ctx import relfile
    return dict(file=relfile(rec.get("file")), line=(node or {}).get("line") or rec.get("line"))
