"""Helpers shared by C34 / C35 / C38 / C39 (key objects, account policy, OAuth2).

Nothing here edits the shared engine; these are small additions on top of hir.py / pathcond.py.
"""
import re
from .hir import walk, unwrap, def_of, ends, ex_s, pat_s, tokens, callee_any, is_call_to
from . import pathcond as pc


# ---------------------------------------------------------------------------
# walking user code only

def uwalk(node, into_closures=True):
    """Pre-order walk that does not *yield* macro-expanded nodes (tracing, matches!, the `for` desugaring
    scaffolding) but still descends into them: user expressions nested in an expansion (loop bodies,
    macro arguments) carry no `exp` flag and are yielded."""
    stack = [node]
    while stack:
        n = stack.pop()
        if isinstance(n, dict):
            if not n.get("exp"):
                yield n
            if not into_closures and n.get("e") == "closure":
                continue
            kids = [v for k, v in n.items() if k not in ("line", "exp") and isinstance(v, (dict, list))]
            stack.extend(reversed(kids))
        elif isinstance(n, list):
            stack.extend(reversed(n))


def ucalls(node, into_closures=True):
    """User-written call / method-call nodes under node (source order)."""
    return [n for n in uwalk(node, into_closures) if n.get("e") in ("call", "mcall")]


def ucalls_to(node, *suffixes, into_closures=True):
    return [n for n in ucalls(node, into_closures) if is_call_to(n, *suffixes)]


def is_ctor(n, *suffixes):
    """n constructs / names the variant or struct (def-path suffix)."""
    if not isinstance(n, dict) or n.get("e") not in ("path", "call", "struct"):
        return False
    d = def_of(n)
    return bool(d) and ends(d, *suffixes)


def uconstructs(node, *suffixes, into_closures=True):
    return [n for n in uwalk(node, into_closures) if is_ctor(n, *suffixes)]


def local_of(e):
    """Local id when e (through &, *, casts) is a plain local path, else None."""
    e = unwrap(e)
    if isinstance(e, dict) and e.get("e") == "path" and "local" in e.get("res", {}):
        return e["res"]["local"]
    return None


def local_name(e):
    e = unwrap(e)
    if isinstance(e, dict) and e.get("e") == "path" and "local" in e.get("res", {}):
        return e["res"].get("name")
    return None


def param_local(fnrec, index):
    """Local id of the index-th parameter when it is a plain binding."""
    ps = fnrec.get("params", [])
    if index < len(ps) and ps[index]["pat"].get("p") == "bind":
        return ps[index]["pat"]["local"]
    return None


def pat_binds(p):
    """[(local id, name)] bound anywhere in a pattern."""
    return [(n["local"], n["name"]) for n in walk(p) if n.get("p") == "bind"]


def field_binding_of(body, local):
    """(struct/variant def-path, field name) when `local` is bound directly as a field of a struct pattern
    somewhere in body, else None."""
    for n in walk(body):
        if n.get("p") == "struct":
            for f in n["fields"]:
                fp = f["pat"]
                while fp.get("p") == "ref":
                    fp = fp["pat"]
                if fp.get("p") == "bind" and fp["local"] == local:
                    return (n["path"].get("def", ""), f["f"])
    return None


def mentions_local(e, local):
    for n in walk(e):
        if n.get("e") == "path" and n.get("res", {}).get("local") == local:
            return True
    return False


def self_fields(node, self_local):
    """Names of fields read directly off the `self` local under node (user code)."""
    out = set()
    for n in uwalk(node):
        if n.get("e") == "field" and local_of(n["x"]) == self_local:
            out.add(n["f"])
    return out


# ---------------------------------------------------------------------------
# result leaves

def tail_values(e):
    """Leaf expressions producing the value of e: descends block tails, if branches and match arms.
    A `return x` is itself a leaf. A block without a tail yields its last statement's expression when that
    diverges (`return ..;`), otherwise the block node (unknown / unit)."""
    e0 = e
    e = unwrap(e)
    if not isinstance(e, dict):
        return [e0]
    k = e.get("e")
    if k == "blockexpr":
        return tail_values(e["b"])
    if k == "block":
        if "tail" in e:
            return tail_values(e["tail"])
        if e["stmts"]:
            last = e["stmts"][-1]
            if last.get("s") == "expr":
                x = unwrap(last["x"])
                if isinstance(x, dict) and x.get("e") in ("ret", "if", "match", "blockexpr"):
                    return tail_values(x)
        return [e]
    if k == "if":
        out = tail_values(e["then"])
        if "else" in e:
            out += tail_values(e["else"])
        else:
            out.append(e)
        return out
    if k == "match" and e.get("src") == "Normal":
        out = []
        for a in e["arms"]:
            out += tail_values(a["body"])
        return out
    return [e]


def is_err_value(e):
    """e is `Err(..)` or `return Err(..)`."""
    e = unwrap(e)
    if not isinstance(e, dict):
        return False
    if e.get("e") == "ret":
        return "x" in e and is_err_value(e["x"])
    return e.get("e") == "call" and ends(e.get("ctor") or "", "core::result::Result::Err")


def always_err(e):
    vals = tail_values(e)
    return bool(vals) and all(is_err_value(v) for v in vals)


# ---------------------------------------------------------------------------
# match tables

def variants_in_pat(p, enum_path):
    """Variant names of enum_path named in a pattern."""
    pre = "def:" + enum_path + "::"
    return sorted({t[len(pre):] for t in tokens(p) if t.startswith(pre) and "::" not in t[len(pre):]})


def ctor_variants(node, enum_path, user_only=True):
    """Variant names of enum_path constructed / named by expressions under node."""
    pre = enum_path + "::"
    out = set()
    for n in (uwalk(node) if user_only else walk(node)):
        if n.get("e") in ("path", "call", "struct"):
            d = def_of(n)
            if d.startswith(pre) and "::" not in d[len(pre):]:
                out.add(d[len(pre):])
    return sorted(out)


def find_matches(body, ty_suffix):
    """User `match` nodes whose scrutinee type (references stripped) ends with ty_suffix."""
    out = []
    for n in uwalk(body):
        if n.get("e") == "match" and n.get("src") == "Normal":
            ty = re.sub(r"^(&(mut )?)+", "", n.get("scrut_ty", "").strip())
            if ty == ty_suffix or ty.endswith("::" + ty_suffix):
                out.append(n)
    return out


def is_catch_all(p):
    return pc.is_catch_all(p)


def arm_table(m, enum_path, all_variants):
    """{variant: [arm,...]} of a match over an enum, catch-all arms standing for the variants not named before."""
    tab = {v: [] for v in all_variants}
    seen = set()
    for a in m["arms"]:
        if is_catch_all(a["pat"]):
            vs = [v for v in all_variants if v not in seen]
        else:
            vs = variants_in_pat(a["pat"], enum_path)
        for v in vs:
            if v in tab:
                tab[v].append(a)
        if "guard" not in a:
            seen.update(vs)
    return tab


# ---------------------------------------------------------------------------
# formulas

def f_str(f):
    t = f[0]
    if t == "true":
        return "T"
    if t == "false":
        return "F"
    if t == "not":
        return "NOT(" + f_str(f[1]) + ")"
    if t in ("and", "or"):
        return "(" + (" AND " if t == "and" else " OR ").join(f_str(g) for g in f[1]) + ")"
    if t == "leaf":
        return pc.leaf_key(f)
    return "?"


def subst(f, binds, depth=4):
    """Replace `expr` leaves that are plain immutable locals by the formula of their initialiser
    (pre-computed guard idiom: `let ok = a || b; ... if ok {..}`), recursively up to `depth`."""
    t = f[0]
    if t in ("true", "false"):
        return f
    if t == "not":
        return pc.f_not(subst(f[1], binds, depth))
    if t == "and":
        return pc.f_and([subst(g, binds, depth) for g in f[1]])
    if t == "or":
        return pc.f_or([subst(g, binds, depth) for g in f[1]])
    if t == "leaf" and f[1] == "expr" and depth > 0:
        loc = local_of(f[2])
        if loc is not None and loc in binds:
            return subst(pc.cond(binds[loc]), binds, depth - 1)
    return f


def dnf(f, pol=True, limit=256):
    """DNF of f as list of conjunctions [(pol, leaf)...]."""
    return pc._dnf(f, pol, limit)


def leaf_toks(leaf):
    return pc.leaf_tokens(leaf)


def holds_all(formulas, binds):
    """Conjunction of the site's facts with pre-computed guards substituted."""
    return pc.f_and([subst(f, binds) for f in formulas])


# ---------------------------------------------------------------------------
# propositional entailment over extracted atoms (finite model enumeration; nothing of kanidm runs)
#
# A *prop* is ("atom", name) | ("not", p) | ("and", [p..]) | ("or", [p..]) | ("true",) | ("false",).
# to_prop() turns a pathcond formula into a prop; `atom_of(leaf)` may map a leaf to a canonical (name, positive)
# pair (e.g. `a != B` -> ("a_is_B", False)); unmapped leaves become atoms named by their rendered key.

def P_atom(name):
    return ("atom", name)


def P_not(p):
    if p[0] == "true":
        return ("false",)
    if p[0] == "false":
        return ("true",)
    if p[0] == "not":
        return p[1]
    return ("not", p)


def P_and(*ps):
    return ("and", list(ps))


def P_or(*ps):
    return ("or", list(ps))


def to_prop(f, atom_of=None):
    t = f[0]
    if t in ("true", "false"):
        return (t,)
    if t == "not":
        return P_not(to_prop(f[1], atom_of))
    if t in ("and", "or"):
        return (t, [to_prop(g, atom_of) for g in f[1]])
    if t == "leaf":
        m = atom_of(f) if atom_of else None
        if m is not None:
            name, positive = m
            return P_atom(name) if positive else P_not(P_atom(name))
        return P_atom(pc.leaf_key(f))
    return ("true",)


def prop_atoms(p, acc=None):
    acc = set() if acc is None else acc
    if p[0] == "atom":
        acc.add(p[1])
    elif p[0] == "not":
        prop_atoms(p[1], acc)
    elif p[0] in ("and", "or"):
        for q in p[1]:
            prop_atoms(q, acc)
    return acc


def prop_eval(p, env):
    t = p[0]
    if t == "true":
        return True
    if t == "false":
        return False
    if t == "atom":
        return env.get(p[1], False)
    if t == "not":
        return not prop_eval(p[1], env)
    if t == "and":
        return all(prop_eval(q, env) for q in p[1])
    return any(prop_eval(q, env) for q in p[1])


def entails(facts, required, max_atoms=18):
    """Do the facts (list of props) propositionally entail `required`?  Only facts connected to the required atoms
    (transitively, through shared atoms) are used, which is sound: fewer premises can only lose entailment.
    Returns (True, None) | (False, counter-model {atom: bool}) | (None, reason)."""
    need = set(prop_atoms(required))
    fa = [(p, prop_atoms(p)) for p in facts]
    used = []
    rest = list(fa)
    changed = True
    while changed:
        changed = False
        for item in list(rest):
            if item[1] & need:
                used.append(item[0])
                need |= item[1]
                rest.remove(item)
                changed = True
    names = sorted(need)
    if len(names) > max_atoms:
        # fall back to the facts directly mentioning the required atoms
        base = set(prop_atoms(required))
        used = [p for (p, a) in fa if a & base]
        need = set(base)
        for p in used:
            need |= prop_atoms(p)
        names = sorted(need)
        if len(names) > max_atoms + 4:
            return (None, f"{len(names)} atoms")
    for bits in range(1 << len(names)):
        env = {n: bool(bits >> i & 1) for i, n in enumerate(names)}
        if all(prop_eval(p, env) for p in used) and not prop_eval(required, env):
            return (False, env)
    return (True, None)


def model_str(env, hide=()):
    """Counter-model rendering: the atoms that are true (the way the guard was passed)."""
    t = [n for n, v in sorted(env.items()) if v and n not in hide]
    f = [n for n, v in sorted(env.items()) if not v and n not in hide]
    return "true: {" + ", ".join(t) + "}; false: {" + ", ".join(f) + "}"


def as_result_leaf(leaf):
    """A leaf that states the success of a fallible expression, in any of the repository's spellings:
       `e?` (ok leaf)                               -> (e, True)
       `match e { Ok(v) => v, Err(x) => return ..}` -> arm leaf on e: Ok pattern (e, True), Err pattern (e, False)
       `let Ok(v) = e else { return .. }`           -> let leaf (e, True) ; `Err(_)` pattern (e, False)
    Returns (expression, positive) or None."""
    kind = leaf[1]
    if kind == "ok":
        return (leaf[2], True)
    if kind in ("arm", "let"):
        pat, e = (leaf[2][1], leaf[2][0]) if kind == "arm" else (leaf[2][0], leaf[2][1])
        while pat.get("p") == "ref":
            pat = pat["pat"]
        if pat.get("p") in ("tstruct", "struct"):
            d = pat["path"].get("def", "")
            if ends(d, "core::result::Result::Ok"):
                # only a plain `Ok(x)` / `Ok(_)`: a nested pattern such as Ok(Some(_)) states more than success
                inner = pat.get("pats", [])
                if all(pc.is_catch_all(q) for q in inner):
                    return (e, True)
            if ends(d, "core::result::Result::Err"):
                inner = pat.get("pats", [])
                if all(pc.is_catch_all(q) for q in inner):
                    return (e, False)
    return None
