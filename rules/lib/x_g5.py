"""Helpers shared by C23, C24, C25, C26, C48 (access-control / recycle-bin / built-in table rules).

 * value provenance on HIR (`Flow`): "is this expression computed from the output of one of these calls"
   following immutable `let` locals, receiver chains, `?`, `Ok(..)`, and closures of map-like adaptors;
   `if`/`match` need *every* branch to qualify (a must-analysis over branches);
 * result expressions of a function (tail + explicit `return`s, macro noise skipped);
 * the decision-flag combiner table used by the access `apply_*` functions;
 * a constructor-only evaluator for `static X: LazyLock<T> = LazyLock::new(|| ...)` initialisers.
None of these match on local variable names, source text or line numbers.
"""
from .hir import walk, unwrap, callee_of, callee_any, ends, is_call_to, def_of, tokens, short, pat_s


# ---------------------------------------------------------------------------
# small utilities

import os


_SCAN_CACHE = {}


def crates_with(F, needle, kind="calls", also=()):
    """Crates whose raw call table (kind='calls') or HIR dump (kind='hir') contains `needle` — a cheap byte scan that
    avoids parsing the facts of crates that cannot reference the item at all. `also`: further needles to look for in the
    same pass (results are cached per facts directory)."""
    ext = ".calls.tsv" if kind == "calls" else ".hir.jsonl"
    want = [n for n in (needle,) + tuple(also) if (F.fdir, kind, n) not in _SCAN_CACHE]
    if want:
        res = {n: [] for n in want}
        for c in F.crates():
            p = os.path.join(F.fdir, c + ext)
            try:
                with open(p, "rb") as f:
                    data = f.read()
            except OSError:
                continue
            for n in want:
                if n.encode() in data:
                    res[n].append(c)
        for n in want:
            _SCAN_CACHE[(F.fdir, kind, n)] = res[n]
    return _SCAN_CACHE[(F.fdir, kind, needle)]


def struct_needle(defpath):
    """Raw-JSON needle of a struct expression of `defpath` (as serialised by kvfacts)."""
    return '"e":"struct","path":{"def":"' + defpath + '"'


def under_false_guard(body):
    """ids of nodes inside `if false { .. }` (the #[instrument] fake-return scaffolding)."""
    out = set()
    for n in walk(body):
        if n.get("e") == "if":
            c = unwrap(n["cond"])
            if isinstance(c, dict) and c.get("e") == "lit" and c.get("v") == "false":
                for x in walk(n["then"]):
                    out.add(id(x))
    return out

def user_nodes(node, into_closures=True):
    """Nodes written by the user (macro-expanded tracing/instrument scaffolding skipped)."""
    for n in walk(node, into_closures):
        if "e" in n and not n.get("exp"):
            yield n


def local_id(e):
    e = unwrap(e)
    if isinstance(e, dict) and e.get("e") == "path" and "local" in e["res"]:
        return e["res"]["local"]
    return None


def try_inner(m):
    s = unwrap(m["scrut"])
    if s.get("e") == "call" and s.get("args"):
        return s["args"][0]
    return s


def is_try(e):
    return isinstance(e, dict) and e.get("e") == "match" and "TryDesugar" in e.get("src", "")


def is_await(e):
    return isinstance(e, dict) and e.get("e") == "match" and "AwaitDesugar" in e.get("src", "")


def peel(e):
    """Strip wrappers, `?`, `.await`, trivial blocks."""
    while True:
        e = unwrap(e)
        if is_try(e):
            e = try_inner(e)
            continue
        if is_await(e):
            s = unwrap(e["scrut"])
            # `into_future(x)` wrapper
            if s.get("e") == "call" and s.get("args") and ends(callee_of(s), "IntoFuture::into_future"):
                e = s["args"][0]
            else:
                e = s
            continue
        return e


def pattern_locals(p, out=None):
    """local id -> path (tuple of ('tuple', i) / ('field', name) / ('variant', def)) for every binding in a pattern."""
    out = {} if out is None else out

    def rec(q, path):
        k = q.get("p")
        if k == "bind":
            out[q["local"]] = path
            if "sub" in q:
                rec(q["sub"], path)
        elif k == "tuple":
            for i, x in enumerate(q["pats"]):
                rec(x, path + (("tuple", i),))
        elif k == "struct":
            for f in q["fields"]:
                rec(f["pat"], path + (("field", f["f"]),))
        elif k == "tstruct":
            for i, x in enumerate(q["pats"]):
                rec(x, path + (("field", str(i)),))
        elif k == "ref":
            rec(q["pat"], path)
        elif k == "or":
            for x in q["pats"]:
                rec(x, path)
    rec(p, ())
    return out


class Binds:
    """Immutable `let` bindings of a body: local -> (init expr, path inside the pattern).
    Locals that are assigned anywhere, declared `mut`, or bound more than once are not substituted."""

    def __init__(self, body, through_mut=False):
        """through_mut: also substitute locals declared `mut` as long as they are never re-assigned (they may still be
        mutated in place through `&mut` — only use where that is part of the accepted data path)."""
        self.init = {}
        self.mut = set()
        seen = set()
        decl_mut = set()
        for n in walk(body):
            if n.get("s") == "let" and "init" in n:
                for loc, path in pattern_locals(n["pat"]).items():
                    if loc in seen:
                        self.mut.add(loc)
                    seen.add(loc)
                    self.init[loc] = (n["init"], path)
                for q in walk(n["pat"]):
                    if q.get("p") == "bind" and q.get("mut"):
                        decl_mut.add(q["local"])
            if n.get("e") in ("assign", "assignop"):
                l = local_id(n["l"])
                if l is not None:
                    self.mut.add(l)
        if not through_mut:
            self.mut |= decl_mut
        self.params = {}

    def lookup(self, loc):
        if loc in self.mut:
            return None
        return self.init.get(loc)


PASS_THROUGH_CTORS = ("core::result::Result::Ok", "core::option::Option::Some", "alloc::boxed::Box::<T>::new",
                      "alloc::sync::Arc::<T>::new")


class Flow:
    """derived(expr): on every branch the value of `expr` is computed from the output of a call to one of
    `sources` (def-path suffixes), through receiver chains / `?` / immutable locals / Ok()/Some() /
    the closure of a map-like adaptor. `field_ok(field_node)` may accept `x.f` expressions as sources."""

    def __init__(self, body, sources, field_ok=None, extra_ok=None, through_mut=False):
        self.b = Binds(body, through_mut)
        self.sources = tuple(sources)
        self.field_ok = field_ok
        self.extra_ok = extra_ok
        self.trace = []
        self.hit_path = None      # remaining tuple/field path at the accepted source (e.g. (('tuple', 0),))
        self.hit = None           # the accepted source node

    def derived(self, e, depth=0, path=()):
        e = peel(e)
        if not isinstance(e, dict) or depth > 40:
            return False
        if self.extra_ok and self.extra_ok(e):
            self.hit_path, self.hit = path, e
            return True
        k = e.get("e")
        if k in ("call", "mcall") and is_call_to(e, *self.sources):
            self.trace.append(callee_of(e))
            self.hit_path, self.hit = path, e
            return True
        if k == "path":
            loc = local_id(e)
            if loc is None:
                return False
            got = self.b.lookup(loc)
            if got is None:
                return False
            init, p = got
            return self.derived(init, depth + 1, p + path)
        if k == "mcall":
            if self.derived(e["recv"], depth + 1, path):
                return True
            for a in e["args"]:
                a = unwrap(a)
                if a.get("e") == "closure" and self.derived(a["body"], depth + 1, ()):
                    return True
            return False
        if k == "call":
            c = callee_of(e)
            if c in PASS_THROUGH_CTORS and len(e["args"]) == 1:
                return self.derived(e["args"][0], depth + 1, path)
            return False
        if k == "field":
            if self.field_ok and self.field_ok(e):
                return True
            return False
        if k == "blockexpr":
            b = e["b"]
            if "tail" in b:
                return self.derived(b["tail"], depth + 1, path)
            return False
        if k == "if":
            if "else" not in e:
                return False
            return self.derived(e["then"], depth + 1, path) and self.derived(e["else"], depth + 1, path)
        if k == "match":
            arms = [a for a in e["arms"] if not diverges(a["body"])]
            return bool(arms) and all(self.derived(a["body"], depth + 1, path) for a in arms)
        if k == "tuple" and path and path[0][0] == "tuple" and path[0][1] < len(e["xs"]):
            return self.derived(e["xs"][path[0][1]], depth + 1, path[1:])
        return False


def diverges(e):
    """Expression certainly does not complete normally (return / break / continue / panic at its end)."""
    e = unwrap(e)
    if not isinstance(e, dict):
        return False
    k = e.get("e")
    if k in ("ret", "break", "continue"):
        return True
    if k == "blockexpr":
        b = e["b"]
        for s in b["stmts"]:
            if s.get("s") == "expr" and diverges(s["x"]):
                return True
        return "tail" in b and diverges(b["tail"])
    if k == "call" and any(ends(callee_of(e), s) for s in ("core::panicking::panic", "core::panicking::panic_fmt",
                                                             "core::panicking::panic_display")):
        return True
    return False


# ---------------------------------------------------------------------------
# result expressions

def result_exprs(body):
    """[(expr, kind)] : the user-written tail value(s) of the function body and the operands of explicit
    `return`s (the `return` hidden inside `?` and the #[instrument] scaffolding are skipped)."""
    out = []
    dead = under_false_guard(body)
    root = unwrap(body)
    if isinstance(root, dict) and root.get("e") == "closure" and "Coroutine" in root.get("kind", ""):
        body = root["body"]
    for n in walk(body, into_closures=False):
        if n.get("e") == "ret" and not n.get("exp") and "x" in n and id(n) not in dead:
            out.append((n["x"], "return"))
    for t in _tails(body):
        out.append((t, "tail"))
    return out


def _tails(e):
    e = unwrap(e)
    if not isinstance(e, dict):
        return []
    k = e.get("e")
    if k == "closure" and "Coroutine" in e.get("kind", ""):
        return _tails(e["body"])
    if k == "blockexpr":
        b = e["b"]
        if "tail" in b:
            return _tails(b["tail"])
        return []
    if k == "if" and "else" in e:
        return _tails(e["then"]) + _tails(e["else"])
    if k == "match" and e.get("src") == "Normal":
        out = []
        for a in e["arms"]:
            out.extend(_tails(a["body"]))
        return out
    if k in ("ret", "break", "continue"):
        return []
    return [e]


ERR_ONLY = ("core::result::Result::<T, E>::map_err", "core::result::Result::<T, E>::inspect_err",
            "core::result::Result::<T, E>::inspect", "core::result::Result::<T, E>::or_else")


def core_of(e, binds):
    """Strip error-side combinators, Ok(..), `?`, and immutable locals: the expression that produces the
    success value."""
    for _ in range(40):
        e = peel(e)
        k = e.get("e")
        if k == "mcall" and callee_of(e) in ERR_ONLY:
            e = e["recv"]
            continue
        if k == "call" and callee_of(e) == "core::result::Result::Ok" and len(e["args"]) == 1:
            e = e["args"][0]
            continue
        if k == "path":
            loc = local_id(e)
            got = binds.lookup(loc) if loc is not None else None
            if got is not None and not got[1]:
                e = got[0]
                continue
        return e
    return e


def is_err_value(e):
    e = peel(e)
    return isinstance(e, dict) and e.get("e") == "call" and callee_of(e) == "core::result::Result::Err"


EMPTY_CTORS = ("alloc::vec::Vec::<T>::new", "alloc::vec::Vec::<T>::with_capacity", "core::default::Default::default")


def is_empty_collection(e):
    e = peel(e)
    return isinstance(e, dict) and e.get("e") == "call" and callee_of(e) in EMPTY_CTORS


def closure_free_of_outer_locals(cl):
    """A closure whose body mentions only locals bound inside the closure (parameters / inner lets)."""
    inner = set()
    for p in cl.get("params", []):
        inner |= set(pattern_locals(p).keys())
    for n in walk(cl["body"]):
        if n.get("s") == "let":
            inner |= set(pattern_locals(n["pat"]).keys())
        if "pat" in n and isinstance(n["pat"], dict) and n.get("e") in ("let",):
            inner |= set(pattern_locals(n["pat"]).keys())
        if "arms" in n:
            for a in n["arms"]:
                inner |= set(pattern_locals(a["pat"]).keys())
        if n.get("e") == "closure":
            for p in n.get("params", []):
                inner |= set(pattern_locals(p).keys())
    for n in walk(cl["body"]):
        if n.get("e") == "path" and "local" in n["res"] and n["res"]["local"] not in inner:
            return False
    return True


# ---------------------------------------------------------------------------
# decision-flag combiners (`let mut denied = false; let mut grant = false; match module(..) { Deny => denied = true, ..}`)

def bool_assign(e):
    """(local, value) when e is `local = true|false` (possibly wrapped in a trivial block)."""
    e = unwrap(e)
    if isinstance(e, dict) and e.get("e") == "blockexpr" and not e["b"].get("tail") and len(e["b"]["stmts"]) == 1 \
            and e["b"]["stmts"][0].get("s") == "expr":
        e = unwrap(e["b"]["stmts"][0]["x"])
    if isinstance(e, dict) and e.get("e") == "assign":
        l = local_id(e["l"])
        r = unwrap(e["r"])
        if l is not None and r.get("e") == "lit" and r.get("lk") == "bool":
            return (l, r["v"] == "true")
    return None


def arm_variants(arm, enum_suffix=None):
    """def-paths of the variants an arm's pattern names (or-patterns expanded)."""
    return sorted({t[4:] for t in tokens(arm["pat"]) if t.startswith("def:")})


def module_matches(body):
    """`match <call>() { ..::Deny => .., ..}` statements of a combiner: [(match node, callee def-path)]."""
    out = []
    for n in user_nodes(body):
        if n.get("e") == "match" and n.get("src") == "Normal":
            s = unwrap(n["scrut"])
            if s.get("e") == "call" and any(ends(v, "Deny") for a in n["arms"] for v in arm_variants(a)):
                out.append((n, callee_of(s)))
    return out


from .hir import ex_s
from .pathcond import site_conditions, implied, collect_binds, render


def check_combiner(ctx, rule, fn, result_enum, floor, grant_needs_flag=True):
    """Decision-flag combiner: Deny dominates. Returns the deny local."""
    body = fn["body"]
    mm = module_matches(body)
    ctx.floor(rule, f"module decisions combined in {short(fn['fn'], 1)}", len(mm), floor)
    deny_locals = set()
    for (m, callee) in mm:
        for a in m["arms"]:
            vs = arm_variants(a)
            if any(ends(v, "Deny") for v in vs):
                ba = bool_assign(a["body"])
                ok = ba is not None and ba[1] is True and all(ends(v, "Deny") for v in vs)
                ctx.check(ok, rule, fn["fn"], f"deny-arm:{short(callee, 1)}",
                          f"{short(callee, 1)}: Deny => flag = true",
                          f"the Deny arm for {short(callee, 1)} is `{ex_s(a['body'])[:80]}` (pattern {pat_s(a['pat'])}): a module's Deny must set the deny flag and nothing else",
                          file=fn["file"], line=a["body"].get("line"))
                if ok:
                    deny_locals.add(ba[0])
    if not ctx.check(len(deny_locals) == 1, rule, fn["fn"], "single-deny-flag", "one deny flag",
                     f"expected exactly one deny flag set by the Deny arms, found {len(deny_locals)}", file=fn["file"], line=fn["line"]):
        return None
    D = next(iter(deny_locals))
    # initialised false, never cleared
    inits = [s for s in walk(body) if s.get("s") == "let" and s["pat"].get("p") == "bind" and s["pat"].get("local") == D]
    ok_init = len(inits) == 1 and unwrap(inits[0].get("init", {})).get("v") == "false"
    ctx.check(ok_init, rule, fn["fn"], "deny-flag-init", "deny flag initialised false once", "deny flag is not a single `let mut x = false`",
              file=fn["file"], line=fn["line"])
    clears = []
    for n in walk(body):
        if n.get("e") in ("assign", "assignop") and local_id(n["l"]) == D:
            r = unwrap(n["r"])
            if not (n.get("e") == "assign" and r.get("e") == "lit" and r.get("v") == "true"):
                clears.append(n)
    ctx.check(not clears, rule, fn["fn"], "deny-flag-monotone", "deny flag only ever set to true",
              f"the deny flag is overwritten with `{ex_s(clears[0]['r']) if clears else ''}`: a later module could clear an earlier Deny",
              file=fn["file"], line=clears[0].get("line") if clears else None)
    # every module call is combined
    mtys = {m.get("scrut_ty") for (m, _) in mm}
    scruts = {id(unwrap(m["scrut"])) for (m, _) in mm}
    for n in user_nodes(body):
        if n.get("e") == "call" and n.get("ty") in mtys and id(n) not in scruts:
            ctx.violation(rule, fn["fn"], f"uncombined:{short(callee_of(n), 1)}",
                          f"the decision of {short(callee_of(n))} is not matched with a Deny arm: its Deny would be ignored",
                          file=fn["file"], line=n.get("line"))
    # non-Deny results only under !denied
    pbinds = collect_binds(body)

    def is_sink(x):
        d = def_of(x)
        return bool(d) and d.startswith(result_enum + "::") and not d.endswith("::Deny") and x.get("e") in ("path", "call", "struct")
    sites = site_conditions(body, is_sink)
    ctx.check(len(sites) >= 1, rule, fn["fn"], "has-nondeny-result", f"{len(sites)} non-Deny result sites",
              "no non-Deny result constructor found (shape not understood)", file=fn["file"], line=fn["line"])
    for (s, conds) in sites:
        lits = implied(conds, pbinds)
        ok = any((not pol) and leaf[1] == "expr" and local_id(leaf[2]) == D for (pol, leaf) in lits.values())
        ctx.check(ok, rule, fn["fn"], f"deny-dominates:{short(def_of(s), 1)}",
                  f"{short(def_of(s))} constructed under !deny-flag",
                  f"{short(def_of(s))} can be returned while the deny flag is set (path condition: {render(lits)[:6]}): Deny no longer dominates",
                  file=fn["file"], line=s.get("line"))
    return D



# ---------------------------------------------------------------------------
# constructor-only evaluation of `static` initialisers

class Unevaluable(Exception):
    pass


class V:
    """Evaluated value: kind in {'variant','struct','list','str','lit','const','none','tuple','default'}"""

    def __init__(self, kind, name=None, args=None, fields=None, line=None):
        self.kind, self.name, self.args, self.fields, self.line = kind, name, args or [], fields or {}, line

    def __repr__(self):
        if self.kind == "variant":
            return short(self.name, 2) + ("(" + ", ".join(map(repr, self.args)) + ")" if self.args else "")
        if self.kind == "list":
            return "[" + ", ".join(map(repr, self.args)) + "]"
        if self.kind == "str":
            return "str(" + repr(self.args[0]) + ")"
        if self.kind == "const":
            return short(self.name, 1)
        if self.kind == "lit":
            return repr(self.name)
        if self.kind == "struct":
            return short(self.name, 1) + "{" + ", ".join(k + ": " + repr(v) for k, v in self.fields.items()) + "}"
        return self.kind


VEC_MACRO = ("alloc::boxed::box_assume_init_into_vec_unsafe", "alloc::slice::<impl [T]>::into_vec")
TRANSPARENT_M = ("core::clone::Clone::clone", "core::convert::Into::into", "core::convert::From::from",
                 "alloc::borrow::ToOwned::to_owned", "core::ops::deref::Deref::deref", "core::convert::AsRef::as_ref")


class StaticEval:
    """Evaluates `LazyLock::new(|| <constructor expression>)` initialisers from their HIR.
    Understands: struct literals (with `..Default::default()`), enum variant constructors, `vec![..]`,
    `Vec::new()/with_capacity(0)`, `Box::new`, `Some/None`, literals, consts (kept symbolic by def-path),
    `clone()/into()/to_owned()` (transparent), `to_string()` (-> str(value)), references to other
    statics (evaluated recursively), simple immutable `let` blocks. Anything else raises Unevaluable."""

    def __init__(self, facts, crate):
        self.F = facts
        self.crate = crate
        self.cache = {}
        self.stack = []
        self.defaults_used = set()     # `<T as Default>::default` impls relied on for omitted fields

    def static(self, defpath):
        if defpath in self.cache:
            return self.cache[defpath]
        if defpath in self.stack:
            raise Unevaluable(f"cyclic static reference {defpath}")
        d = self.F.fn(self.crate, defpath)
        if d is None or d.get("kind") != "static":
            raise Unevaluable(f"static {defpath} has no HIR initialiser in the facts")
        self.stack.append(defpath)
        try:
            v = self.ev(d["body"], {})
        finally:
            self.stack.pop()
        self.cache[defpath] = v
        return v

    def ev(self, e, env):
        e = unwrap(e)
        if not isinstance(e, dict):
            raise Unevaluable("non-expression")
        k = e.get("e")
        line = e.get("line")
        if k == "lit":
            return V("lit", e.get("v"), line=line)
        if k == "blockexpr":
            b = e["b"]
            env = dict(env)
            for s in b["stmts"]:
                if s.get("s") == "let" and "init" in s and s["pat"].get("p") == "bind" and not s["pat"].get("mut"):
                    env[s["pat"]["local"]] = self.ev(s["init"], env)
                elif s.get("s") == "item":
                    continue
                else:
                    raise Unevaluable(f"statement kind {s.get('s')} in a table initialiser (line {s.get('line', line)})")
            if "tail" not in b:
                raise Unevaluable(f"block without value (line {line})")
            return self.ev(b["tail"], env)
        if k == "path":
            r = e["res"]
            if "local" in r:
                if r["local"] in env:
                    return env[r["local"]]
                raise Unevaluable(f"unbound local {r.get('name')} (line {line})")
            d, kind = r.get("def", ""), r.get("kind", "")
            if kind.startswith("Ctor(Variant") or kind.startswith("Ctor(Struct"):
                if d == "core::option::Option::None":
                    return V("none", line=line)
                return V("variant", d, line=line)
            if kind.startswith("Const") or kind.startswith("AssocConst"):
                return V("const", d, line=line)
            if kind.startswith("Static"):
                return self.static(d)
            raise Unevaluable(f"path {d} of kind {kind} (line {line})")
        if k == "struct":
            fields = {}
            for f in e["fields"]:
                try:
                    fields[f["f"]] = self.ev(f["x"], env)
                except Unevaluable as ex:       # only an error if the rule reads this field
                    fields[f["f"]] = V("error", str(ex), line=f["x"].get("line"))
            base = None
            if "base" in e:
                bb = unwrap(e["base"])
                if bb.get("e") == "call" and not bb["args"] and any(c.endswith("::default") for c in callee_any(bb)):
                    base = "default"
                    self.defaults_used.add(bb.get("resolved") or bb.get("callee") or "")
                else:
                    bv = self.ev(bb, env)
                    if bv.kind != "struct":
                        raise Unevaluable(f"struct base is not a struct value (line {line})")
                    for kf, vf in bv.fields.items():
                        fields.setdefault(kf, vf)
                    base = bv.fields.get("__base__")
            v = V("struct", e["path"].get("def", ""), fields=fields, line=line)
            v.base = base
            return v
        if k == "call":
            if e.get("ctor"):
                c = e["ctor"]
                args = [self.ev(a, env) for a in e["args"]]
                if c == "core::option::Option::Some":
                    return args[0]
                return V("variant", c, args, line=line)
            c = callee_of(e)
            if c in VEC_MACRO:
                arr = self._find_array(e)
                if arr is None:
                    raise Unevaluable(f"vec! expansion without an array literal (line {line})")
                return V("list", args=[self.ev(x, env) for x in arr["xs"]], line=line)
            if c in ("alloc::vec::Vec::<T>::new", "alloc::vec::Vec::<T>::with_capacity"):
                return V("list", line=line)
            if c in ("alloc::boxed::Box::<T>::new",):
                return self.ev(e["args"][0], env)
            if c == "std::sync::lazy_lock::LazyLock::<T, F>::new":
                cl = unwrap(e["args"][0])
                if cl.get("e") != "closure":
                    raise Unevaluable(f"LazyLock::new argument is not a closure (line {line})")
                return self.ev(cl["body"], env)
            if c.endswith("::from") and len(e["args"]) == 1 and ends(c, "core::convert::From::from"):
                return self.ev(e["args"][0], env)
            if any(ends(x, "FromIterator::from_iter", "core::iter::FromIterator::from_iter") or x.endswith("::from_iter") for x in callee_any(e)) and len(e["args"]) == 1:
                v = self.ev(e["args"][0], env)
                if v.kind != "list":
                    raise Unevaluable(f"from_iter over a non-list (line {line})")
                return v
            raise Unevaluable(f"call to {c or '?'} (line {line})")
        if k == "mcall":
            cs = callee_any(e)
            if e["name"] == "to_string" and not e["args"]:
                return V("str", args=[self.ev(e["recv"], env)], line=line)
            if any(c in TRANSPARENT_M for c in cs) and not e["args"]:
                return self.ev(e["recv"], env)
            if e["name"] in ("into_iter", "iter", "collect", "cloned", "copied") and not e["args"]:
                v = self.ev(e["recv"], env)
                if v.kind != "list":
                    raise Unevaluable(f".{e['name']}() on a non-list (line {line})")
                return v
            if e["name"] == "map" and len(e["args"]) == 1 and any(c.endswith("Iterator::map") for c in cs):
                v = self.ev(e["recv"], env)
                cl = unwrap(e["args"][0])
                if v.kind != "list" or cl.get("e") != "closure" or len(cl.get("params", [])) != 1 or cl["params"][0].get("p") != "bind":
                    raise Unevaluable(f".map(..) shape not understood (line {line})")
                out = []
                for item in v.args:
                    env2 = dict(env)
                    env2[cl["params"][0]["local"]] = item
                    out.append(self.ev(cl["body"], env2))
                return V("list", args=out, line=line)
            raise Unevaluable(f"method call .{e['name']}() -> {sorted(cs)} (line {line})")
        if k == "array":
            return V("list", args=[self.ev(x, env) for x in e["xs"]], line=line)
        if k == "tuple":
            return V("tuple", args=[self.ev(x, env) for x in e["xs"]], line=line)
        if k == "closure":
            return self.ev(e["body"], env)
        raise Unevaluable(f"expression kind {k} (line {line})")

    @staticmethod
    def _find_array(e):
        for n in walk(e, into_closures=False):
            if n.get("e") == "array":
                return n
        return None


def field(v, name, default=None):
    """Field of an evaluated struct; missing fields of a `..Default::default()` literal give `default`."""
    if v.kind != "struct":
        raise Unevaluable("not a struct value")
    if name in v.fields:
        if v.fields[name].kind == "error":
            raise Unevaluable(f"field {name}: {v.fields[name].name}")
        return v.fields[name]
    if getattr(v, "base", None) == "default":
        return default
    raise Unevaluable(f"field {name} missing in {short(v.name, 1)} literal")


# ---------------------------------------------------------------------------
# the data module of the target domain level (shared by C25 and C48)

def target_data_module(F, crate="kanidmd_lib"):
    """(module def-path, migration fn def-path, target level) of the migration dispatched for DOMAIN_TGT_LEVEL by
    reload_domain_info_version, or raises Unevaluable. (C48 checks the dispatcher itself in detail.)"""
    import re
    CONST = "kanidmd_lib::constants::"
    MIG = "kanidmd_lib::server::migrations::<impl server::QueryServerWriteTransaction<'_>>::"
    tgt = F.const_val(crate, CONST + "DOMAIN_TGT_LEVEL")
    names = F.find_fns(crate, r"^kanidmd_lib::server::QueryServerWriteTransaction::<'.*>::reload_domain_info_version$")
    if tgt is None or len(names) != 1:
        raise Unevaluable("DOMAIN_TGT_LEVEL / reload_domain_info_version not found")
    rl = F.fn(crate, names[0])
    migs = []
    for x in user_nodes(rl["body"]):
        if x.get("e") != "if":
            continue
        c = peel(x["cond"])
        if not (c.get("e") == "bin" and c["op"] == "&&"):
            continue
        r = peel(c["r"])
        if r.get("e") == "bin" and r["op"] == ">=" and def_of(peel(r["r"])).startswith(CONST) and F.const_val(crate, def_of(peel(r["r"]))) == tgt:
            migs += [callee_of(k) for k in user_nodes(x["then"]) if k.get("e") == "mcall" and callee_of(k).startswith(MIG + "migrate_domain")]
    if len(migs) != 1:
        raise Unevaluable(f"no unique migration dispatched for target level {tgt}")
    mods = set()
    todo = [migs[0]]
    mf = F.fn(crate, migs[0])
    if mf is None:
        raise Unevaluable(f"{migs[0]} has no body")
    todo += [callee_of(k) for k in user_nodes(mf["body"]) if k.get("e") == "mcall" and callee_of(k).startswith(MIG + "migrate_schema")]
    for n in todo:
        d = F.fn(crate, n)
        for k in user_nodes(d["body"]) if d else []:
            if k.get("e") == "call":
                mm = re.match(r"^(kanidmd_lib::migration_data::\w+)::phase_\d+_\w+$", callee_of(k))
                if mm:
                    mods.add(mm.group(1))
    if len(mods) != 1:
        raise Unevaluable(f"target migration uses data modules {sorted(mods)}")
    return next(iter(mods)), migs[0], tgt
