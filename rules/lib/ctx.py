"""Check context: obligations, violations, known findings, evidence."""
import hashlib
import json
import os
import re
import time

from .facts import VERIF, REPO


class AnchorMissing(Exception):
    pass


class Ctx:
    def __init__(self, pid, tier, seed, facts, level="other"):
        self.pid = pid
        self.tier = tier
        self.seed = seed
        self.facts = facts
        self.level = level
        self.t0 = time.time()
        self.obligations = []     # (rule, fn, instance, ok, detail)
        self.violations = []      # dict
        self.known_hits = []
        self.analysed_fns = set()
        self.samples = []
        self.notes = []
        self.assumptions = []
        self.trusted_base = ["rustc nightly name resolution / type check / MIR (facts via kvfacts driver)",
                             "the rule tables in /verif/rules/" + pid + ".py"]
        self.explanation = ""
        self.exhaustive = None
        self.extra = {}
        kf = os.path.join(VERIF, "known_findings.json")
        self.known = json.load(open(kf))["findings"] if os.path.exists(kf) else []

    # ---- anchors ------------------------------------------------------------
    def fn(self, crate, name):
        """Anchor lookup; a missing anchor fails the check closed."""
        d = self.facts.fn(crate, name)
        if d is None:
            self.violation("anchor", name, "anchor-missing",
                           f"anchor function {name} not found in {crate} (renamed or removed: the rule cannot be decided)")
            raise AnchorMissing(name)
        self.analysed_fns.add(name)
        return d

    def fn_opt(self, crate, name):
        d = self.facts.fn(crate, name)
        if d is not None:
            self.analysed_fns.add(name)
        return d

    def fn1(self, crate, pattern):
        """Exactly one fn matching regex; fail closed otherwise."""
        names = self.facts.find_fns(crate, pattern)
        if len(names) != 1:
            self.violation("anchor", pattern, "anchor-missing" if not names else "anchor-ambiguous",
                           f"expected exactly one function matching /{pattern}/ in {crate}, found {len(names)}: {names[:5]}")
            raise AnchorMissing(pattern)
        return self.fn(crate, names[0])

    # ---- results ------------------------------------------------------------
    def ok(self, rule, fn, instance, detail=""):
        self.obligations.append((rule, fn, instance, True, detail))

    def violation(self, rule, fn, instance, detail, line=None, file=None):
        """instance is the stable key (no line numbers)."""
        key = {"property": self.pid, "rule": rule, "function": fn, "instance": instance}
        for k in self.known:
            if k.get("status", "known") == "known" and all(k.get(x) == key[x] for x in key):
                self.known_hits.append((k, detail, file, line))
                self.obligations.append((rule, fn, instance, False, "KNOWN: " + detail))
                return
        self.obligations.append((rule, fn, instance, False, detail))
        v = dict(key)
        v.update({"detail": detail, "file": file, "line": line})
        self.violations.append(v)

    def check(self, cond, rule, fn, instance, detail_ok="", detail_bad="", line=None, file=None):
        if cond:
            self.ok(rule, fn, instance, detail_ok)
        else:
            self.violation(rule, fn, instance, detail_bad or detail_ok, line=line, file=file)
        return bool(cond)

    def floor(self, rule, what, count, minimum):
        """Instance-count floor: a rule that matches fewer sites than were confirmed by hand fails closed."""
        self.check(count >= minimum, rule, "-", f"floor:{what}",
                   f"{what}: {count} >= {minimum}",
                   f"{what}: found {count}, expected at least {minimum} (confirmed on the pinned tree) — anchor drift, rule would pass vacuously")

    def sample(self, s):
        if len(self.samples) < 12:
            self.samples.append(s)

    # ---- output ---------------------------------------------------------------
    def finish(self):
        wall = round(time.time() - self.t0, 2)
        evdir = os.environ.get("KV_EVIDENCE_DIR") or os.path.join(VERIF, "evidence")
        os.makedirs(evdir, exist_ok=True)
        n_ob = len(self.obligations)
        n_ok = sum(1 for o in self.obligations if o[3])
        distinct = len({(o[0], o[1], o[2]) for o in self.obligations if not (o[0] == "anchor")})
        rc = 0
        for (k, detail, file, line) in self.known_hits:
            print(f"KNOWN-FINDING: property={self.pid} {k.get('id', '')} rule={k['rule']} fn={k['function']} instance={k['instance']} :: {k.get('desc', detail)}")
        vdir = os.path.join(evdir, "violations", self.pid)
        if self.violations:
            os.makedirs(vdir, exist_ok=True)
        for v in self.violations:
            h = hashlib.sha1(json.dumps([v["rule"], v["function"], v["instance"]]).encode()).hexdigest()[:12]
            p = os.path.join(vdir, h + ".json")
            with open(p, "w") as f:
                json.dump(v, f, indent=1)
            loc = f"{v['file']}:{v['line']} " if v.get("file") else (f"line {v['line']} " if v.get("line") else "")
            print(f"VIOLATION property={self.pid} replay={p}")
            print(f"  rule={v['rule']} fn={v['function']} instance={v['instance']}\n  {loc}{v['detail']}")
            rc = 1
        cov = {
            "obligations": n_ob,
            "discharged": n_ok,
            "evaluations": max(n_ob, 1),
            "distinct_nontrivial": distinct,
            "rule": "one evaluation per rule instance (rule, function, instance key) enumerated from the compiler facts of /repo's working tree; "
                    "distinct = distinct instance keys; an instance is non-trivial when it is a concrete site/row/arm the rule had to accept or reject",
            "samples": self.samples or [f"{o[0]} {o[1]} {o[2]} :: {o[4]}" for o in self.obligations[:8]],
            "functions_analysed": sorted(self.analysed_fns),
            "checker_cmd": f"./check {self.pid} --tier {self.tier}",
            "trusted_base": self.trusted_base,
            "explanation": self.explanation,
            "known_findings_hit": [k.get("id", k["instance"]) for (k, _, _, _) in self.known_hits],
            "instances": [{"rule": o[0], "fn": o[1], "instance": o[2], "ok": o[3], "detail": o[4][:300]} for o in self.obligations][:400],
            "notes": self.notes,
        }
        if self.exhaustive is not None:
            cov["exhaustive"] = self.exhaustive
        cov.update(self.extra)
        level = self.level
        if level == "proof" and (n_ok != n_ob):
            level = "other"
        ev = {
            "property_id": self.pid,
            "tier": self.tier,
            "seed": self.seed,
            "level": level,
            "coverage": cov,
            "assumptions": self.assumptions,
            "wall_s": wall,
            "violations": len(self.violations),
        }
        with open(os.path.join(evdir, self.pid + ".json"), "w") as f:
            json.dump(ev, f, indent=1)
        print(f"[{self.pid}] tier={self.tier} obligations={n_ob} discharged={n_ok} known={len(self.known_hits)} violations={len(self.violations)} fns={len(self.analysed_fns)} wall={wall}s")
        return rc


def relfile(path):
    """Path of a source file relative to /repo."""
    if path and path.startswith(REPO + "/"):
        return path[len(REPO) + 1:]
    return path
