"""K6 helpers: gating ("B runs only after A returned Ok"), evaluation order ("A is evaluated before B on
every path that reaches B") and a tiny local data-flow, all on the structured HIR of ONE body.

Used by C04-C07.  Nothing here matches local names, text or line numbers; nodes are identified by object
identity (the Facts loader caches parsed bodies, so `id(node)` is stable for a run).

Gating sources understood (DESIGN.md appendix D):
  * `a()?; b()`, `let x = a()?; b(x)`                                  (pathcond `ok` literal)
  * `match a() { Ok(..) => b(), Err(e) => .. }`, `if let Ok(..) = a() { b() }`, `if let Err(e) = a() { return .. }; b()`
  * `if a().is_err() { return .. }; b()`, `if r.is_ok() { b() }` with `let r = a();`
  * combinator chains: `a().map(|_| b())`, `a().and_then(|_| b())`, `a().inspect(|_| b())`, arbitrarily long
    (`x.map(f).and_then(g).map(|_| b())` gates b on x, and on the value returned by g)
  * any mixture of the above (closures are entered with the facts of their creation site).
A construct outside this list contributes no gate, so an unusual shape makes a rule *fire* (fail closed), never pass.
"""
import re

from .hir import unwrap, walk, ends, callee_of, callee_any
from . import pathcond as pc

RESULT = "core::result::Result::<T, E>::"
# closure argument runs iff the receiver is Ok, and the combinator's Ok implies the receiver's Ok
OK_RUNS_CLOSURE = ("map", "and_then", "inspect", "is_ok_and")
# the combinator's value is Ok only if the receiver was Ok
OK_PRESERVING = ("map", "and_then", "inspect", "map_err", "inspect_err")


def last_seg(path):
    return path.rsplit("::", 1)[-1] if path else ""


def is_result_comb(n, *names):
    if not isinstance(n, dict) or n.get("e") != "mcall":
        return False
    c = n.get("callee") or ""
    return c.startswith(RESULT) and (not names or last_seg(c) in names)


def pat_variant(p):
    """def-path of the variant a pattern tests at top level ('' if none)."""
    while isinstance(p, dict) and p.get("p") in ("ref",):
        p = p["pat"]
    if isinstance(p, dict) and p.get("p") == "bind" and "sub" in p:
        return pat_variant(p["sub"])
    if isinstance(p, dict) and p.get("p") in ("struct", "tstruct"):
        return p["path"].get("def", "")
    if isinstance(p, dict) and p.get("p") == "expr" and "path" in p:
        return p["path"].get("def", "")
    return ""


def fn_body(rec):
    """The real body of a fn record: async fns are a coroutine closure wrapping it."""
    b = rec["body"]
    if isinstance(b, dict) and b.get("e") == "closure" and str(b.get("kind", "")).startswith("Coroutine"):
        return b["body"]
    return b


class Body:
    def __init__(self, rec):
        self.rec = rec
        self.root = rec["body"]
        self.parent = {}          # id(dict node) -> (parent dict node, key, index|None)
        self.nodes = {}           # id -> node
        self._index(self.root)
        self.binds = pc.collect_binds(self.root)
        self._conds = None
        self._site_memo = {}
        self._val_memo = {}
        self._busy = set()

    # ---- structure ----------------------------------------------------------
    def _index(self, root):
        stack = [root]
        while stack:
            n = stack.pop()
            self.nodes[id(n)] = n
            for k, v in n.items():
                if k in ("line", "exp"):
                    continue
                if isinstance(v, dict):
                    self.parent[id(v)] = (n, k, None)
                    stack.append(v)
                elif isinstance(v, list):
                    for i, x in enumerate(v):
                        if isinstance(x, dict):
                            self.parent[id(x)] = (n, k, i)
                            stack.append(x)

    def ancestors(self, node):
        """[(ancestor, key, idx)] from the direct parent up to the root."""
        out = []
        cur = node
        while id(cur) in self.parent:
            p, k, i = self.parent[id(cur)]
            out.append((p, k, i))
            cur = p
        return out

    def calls(self, pred=None, skip_exp=True):
        """call/mcall nodes of the body in source (pre-)order."""
        out = []
        for n in walk(self.root):
            if n.get("e") in ("call", "mcall"):
                if skip_exp and n.get("exp"):
                    continue
                if pred is None or pred(n):
                    out.append(n)
        return out

    def calls_to(self, *suffixes):
        return self.calls(lambda n: any(ends(c, *suffixes) for c in callee_any(n)))

    # ---- path conditions ----------------------------------------------------
    def conds(self, node):
        if self._conds is None:
            self._conds = {}
            for (n, cs) in pc.site_conditions(self.root, lambda x: True):
                self._conds.setdefault(id(n), cs)
        return self._conds.get(id(node), [])

    def unreachable(self, node):
        """Statically dead code: under `if false {..}` (tracing's #[instrument] inserts a fake `return` there)."""
        return any(c == pc.FALSE for c in self.conds(node))

    # ---- gating ---------------------------------------------------------------
    def site_gates(self, node):
        """ids of call nodes that must have completed with Ok for control to reach `node`."""
        key = id(node)
        if key in self._site_memo:
            return self._site_memo[key]
        if ("s", key) in self._busy:
            return frozenset()
        self._busy.add(("s", key))
        g = set()
        lits = pc.implied(self.conds(node), self.binds)
        for (pol, leaf) in lits.values():
            kind, payload = leaf[1], leaf[2]
            if kind == "ok" and pol:
                g |= self._v(payload)
            elif kind in ("arm", "let"):
                pat, x = (payload[1], payload[0]) if kind == "arm" else (payload[0], payload[1])
                v = pat_variant(pat)
                if (pol and ends(v, "Result::Ok")) or ((not pol) and ends(v, "Result::Err")):
                    g |= self._v(x)
            elif kind == "expr":
                e = unwrap(payload)
                if is_result_comb(e, "is_ok") and pol:
                    g |= self._v(e["recv"])
                elif is_result_comb(e, "is_err") and not pol:
                    g |= self._v(e["recv"])
        # enclosing combinator closures
        cur = node
        while id(cur) in self.parent:
            p, k, i = self.parent[id(cur)]
            if cur.get("e") == "closure" and k == "args" and is_result_comb(p, *OK_RUNS_CLOSURE):
                g |= self._v(p["recv"])
            cur = p
        r = frozenset(g)
        self._busy.discard(("s", key))
        self._site_memo[key] = r
        return r

    def _v(self, e):
        r = self.value_ok_gates(e)
        return r if r is not None else frozenset()

    def value_ok_gates(self, e):
        """ids of call nodes that returned Ok whenever `e` evaluates to an Ok(..) value
        (None = `e` can never be Ok, e.g. `Err(..)` or a diverging expression)."""
        e = unwrap(e)
        if not isinstance(e, dict):
            return frozenset()
        key = id(e)
        if key in self._val_memo:
            return self._val_memo[key]
        if ("v", key) in self._busy:
            return frozenset()
        self._busy.add(("v", key))
        r = None if self.unreachable(e) else self._value(e)
        self._busy.discard(("v", key))
        self._val_memo[key] = r
        return r

    @staticmethod
    def _meet(parts):
        parts = [p for p in parts if p is not None]
        if not parts:
            return None
        out = set(parts[0])
        for p in parts[1:]:
            out &= p
        return frozenset(out)

    def _value(self, e):
        k = e.get("e")
        site = self.site_gates(e)
        if k in ("ret", "break", "continue"):
            return None
        if k == "call" and e.get("ctor"):
            if ends(e["ctor"], "Result::Err"):
                return None
            return site
        if k == "mcall" and is_result_comb(e):
            nm = last_seg(e["callee"])
            g = set(site)
            if nm in OK_PRESERVING:
                inner = self.value_ok_gates(e["recv"])
                if inner is None:
                    return None
                g |= inner
                if nm == "and_then" and e["args"]:
                    a = unwrap(e["args"][0])
                    if a.get("e") == "closure":
                        cv = self.value_ok_gates(a["body"])
                        if cv is None:
                            return None
                        g |= cv
            return frozenset(g)
        if k in ("call", "mcall"):
            return frozenset(set(site) | {id(e)})
        if k == "blockexpr":
            b = e["b"]
            if "tail" in b:
                return self.value_ok_gates(b["tail"])
            return site
        if k == "if":
            if "else" not in e:
                return site
            m = self._meet([self.value_ok_gates(e["then"]), self.value_ok_gates(e["else"])])
            return m
        if k == "match":
            src = e.get("src", "")
            if "TryDesugar" in src:
                inner = self.value_ok_gates(pc.try_inner(e))
                return frozenset(set(site) | set(inner or ()))
            if "AwaitDesugar" in src:
                s = unwrap(e["scrut"])
                if s.get("e") == "call" and s.get("args"):
                    return self.value_ok_gates(s["args"][0])
                return site
            return self._meet([self.value_ok_gates(a["body"]) for a in e["arms"]])
        if k == "path" and "local" in e.get("res", {}) and e["res"]["local"] in self.binds:
            inner = self.value_ok_gates(self.binds[e["res"]["local"]])
            if inner is None:
                return None
            return frozenset(set(site) | set(inner))
        return site

    def result_gates(self):
        """Call ids that returned Ok on every path on which this fn returns Ok(..):
        meet over the tail expression and every explicit `return`."""
        body = fn_body(self.rec)
        parts = [self.value_ok_gates(body)]
        for n in walk(body, into_closures=False):
            if n.get("e") == "ret" and not n.get("exp") and "x" in n:
                parts.append(self.value_ok_gates(n["x"]))
        return self._meet(parts) or frozenset()

    def gated_by(self, node, gate_ids):
        """The subset of gate_ids that gate `node`."""
        return self.site_gates(node) & frozenset(gate_ids)

    # ---- evaluation order ------------------------------------------------------
    COND_KEYS = {"if": ("then", "else"), "match": ("arms",), "loop": ("body",), "closure": ("body",)}

    def _unconditional_below(self, node, top):
        """`node` is evaluated whenever the child subtree it lives in (directly under `top`) is evaluated."""
        cur = node
        while id(cur) in self.parent:
            p, k, i = self.parent[id(cur)]
            if p is top:
                return True
            pk = p.get("e")
            if pk in self.COND_KEYS and k in self.COND_KEYS[pk]:
                return False
            if pk == "bin" and p.get("op") in ("&&", "||") and k == "r":
                return False
            if p.get("s") == "let" and k == "else":
                return False
            cur = p
        return False

    def precedes(self, a, b):
        """Expression `a` has been evaluated on every path that evaluates `b` (structural dominance)."""
        if a is b:
            return False
        chain_a = [a] + [x[0] for x in self.ancestors(a)]
        chain_b = [b] + [x[0] for x in self.ancestors(b)]
        pos_b = {id(n): j for j, n in enumerate(chain_b)}
        ja = next((j for j, n in enumerate(chain_a) if id(n) in pos_b), None)
        if ja is None or ja == 0:
            return False                      # a encloses b: a completes after b
        jb = pos_b[id(chain_a[ja])]
        lca = chain_a[ja]
        if jb == 0:
            # a is an operand of b: operands are evaluated before the call itself runs
            return b.get("e") in ("call", "mcall") and self._unconditional_below(a, b)
        _, ka, ia = self.parent[id(chain_a[ja - 1])]
        _, kb, ib = self.parent[id(chain_b[jb - 1])]
        lk = lca.get("e")
        keys = [k for k in lca.keys() if k not in ("line", "exp")]
        if lk == "assign":
            keys = [k for k in keys if k not in ("l", "r")] + ["r", "l"]
        if lk in self.COND_KEYS and ka in self.COND_KEYS[lk]:
            return False                      # a sits in a branch / loop body / closure body
        if lk == "bin" and lca.get("op") in ("&&", "||") and ka == "r":
            return False
        if lca.get("s") == "let" and ka == "else":
            return False
        pa = (keys.index(ka), ia if ia is not None else -1)
        pb = (keys.index(kb), ib if ib is not None else -1)
        if pa >= pb:
            return False
        return self._unconditional_below(a, lca)

    # ---- local data-flow ---------------------------------------------------------
    def flow_tokens(self, e, depth=6, _seen=None):
        """Resolved tokens an expression's value is computed from, following immutable-or-mutable simple `let`
        bindings (tuple patterns positionally): 'call:<callee>', 'field:<name>', 'param:<index>', 'lit:<v>',
        'def:<path>', 'static:<path>', 'local?' (a local whose origin is not a let/param: loop or pattern binding)."""
        out = set()
        _seen = _seen or set()
        params = {}
        for i, p in enumerate(self.rec.get("params", [])):
            for b in walk(p["pat"]):
                if b.get("p") == "bind":
                    params[b["local"]] = i
        lets = self._lets()
        stack = [(e, depth)]
        while stack:
            n, d = stack.pop()
            if isinstance(n, list):
                stack.extend((x, d) for x in n)
                continue
            if not isinstance(n, dict):
                continue
            k = n.get("e")
            if k == "path":
                res = n.get("res", {})
                if "local" in res:
                    loc = res["local"]
                    if loc in params:
                        out.add(f"param:{params[loc]}")
                    elif loc in lets and d > 0 and loc not in _seen:
                        _seen.add(loc)
                        stack.append((lets[loc], d - 1))
                    elif loc not in lets:
                        out.add("local?")
                elif "def" in res:
                    out.add(("static:" if str(res.get("kind", "")).startswith("Static") else "def:") + res["def"])
                continue
            if k in ("call", "mcall"):
                for c in callee_any(n):
                    out.add("call:" + c)
            elif k == "field":
                out.add("field:" + n["f"])
            elif k == "lit":
                out.add("lit:" + str(n.get("v")))
            elif k == "struct":
                out.add("def:" + n["path"].get("def", ""))
            if k == "closure":
                stack.append((n["body"], d))
                continue
            for kk, v in n.items():
                if kk in ("line", "exp", "pat", "params"):
                    continue
                if isinstance(v, (dict, list)):
                    stack.append((v, d))
        return out

    def _lets(self):
        """local id -> the expression that initialises it (positional through tuple patterns / tuple tails)."""
        if hasattr(self, "_lets_memo"):
            return self._lets_memo
        m = {}

        def value_of(x):
            x = unwrap(x)
            while isinstance(x, dict):
                if x.get("e") == "blockexpr" and "tail" in x["b"]:
                    x = unwrap(x["b"]["tail"])
                elif x.get("e") == "match" and "TryDesugar" in x.get("src", ""):
                    x = unwrap(pc.try_inner(x))
                    break
                else:
                    break
            return x

        def bind(pat, init):
            k = pat.get("p")
            if k == "bind":
                m.setdefault(pat["local"], init)
                if "sub" in pat:
                    bind(pat["sub"], init)
            elif k == "ref":
                bind(pat["pat"], init)
            elif k == "tuple":
                v = value_of(init)
                if isinstance(v, dict) and v.get("e") == "tuple" and len(v["xs"]) == len(pat["pats"]):
                    for sp, sx in zip(pat["pats"], v["xs"]):
                        bind(sp, sx)
                else:
                    for sp in pat["pats"]:
                        bind(sp, init)
            elif k in ("struct",):
                for f in pat["fields"]:
                    bind(f["pat"], {"e": "field", "f": f["f"], "x": init, "xty": ""})
            elif k == "tstruct":
                for sp in pat["pats"]:
                    bind(sp, init)

        for n in walk(self.root):
            if n.get("s") == "let" and "init" in n:
                bind(n["pat"], n["init"])
        self._lets_memo = m
        return m

    def fresh(self, call):
        """The receiver (method call) / the arguments (plain call) are computed only from values created in this
        body (constructors, literals): no parameter, no static, no local of unknown origin flows in."""
        if call.get("e") == "mcall":
            toks = self.flow_tokens(call["recv"])
        else:
            if not call.get("args"):
                return False
            toks = self.flow_tokens(call["args"])
        return not any(t.startswith(("param:", "static:")) or t == "local?" for t in toks)

    def recv_local(self, call):
        """Local id the receiver of a method call ultimately names (through &, *, fields are NOT followed)."""
        r = unwrap(call.get("recv", {}))
        if isinstance(r, dict) and r.get("e") == "path" and "local" in r.get("res", {}):
            return ("local", r["res"]["local"])
        if isinstance(r, dict) and r.get("e") == "field":
            x = unwrap(r["x"])
            if x.get("e") == "path" and "local" in x.get("res", {}):
                return ("field", x["res"]["local"], r["f"])
        return None


def erase_lifetimes(ty):
    ty = re.sub(r"'\w+\s*,\s*", "", ty or "")
    ty = re.sub(r"&'\w+\s+", "&", ty)
    ty = re.sub(r"<'\w+>", "", ty)
    return ty.replace("&mut ", "").replace("&", "").strip()


def lit_text(n):
    """Text of a string literal node; also decodes the `ByteStr([..])` literal that `format_args!` is lowered to
    (the driver prints it as a byte list), so SQL text inside `format!(..)` can be inspected."""
    if not isinstance(n, dict) or n.get("e") != "lit":
        return None
    v = n.get("v")
    if n.get("lk") == "str":
        return str(v)
    if isinstance(v, str) and v.startswith("ByteStr(["):
        try:
            bs = bytes(int(x) for x in v[len("ByteStr(["):v.index("]")].split(",") if x.strip())
            return bs.decode("latin-1")
        except Exception:
            return None
    return None


def strip_closure(caller):
    return re.sub(r"(::\{closure#\d+\})+$", "", caller)
