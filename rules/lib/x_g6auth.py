"""Helpers shared by the authentication / token / credential-update rules (C27 C28 C31 C32 C33 C37).

Nothing here matches on local names, lines or source text: only def-paths, field names, variant names and
the structure of the HIR.
"""
from .hir import (walk, unwrap, def_of, ends, tokens, has_token, callee_any, is_call_to, pat_alternatives,
                  pat_s, ex_s, short)
from . import pathcond as pc


# ---------------------------------------------------------------------------------------------
# sinks

def is_expr(n):
    return isinstance(n, dict) and "e" in n


def ctor_sink(*suffixes):
    """Predicate: expression node that constructs / names the variant or struct (never a pattern)."""
    def f(n):
        if not is_expr(n) or n["e"] not in ("path", "call", "struct"):
            return False
        d = def_of(n)
        return bool(d) and ends(d, *suffixes)
    return f


def ctor_exact(*defs):
    """Predicate: expression node whose resolved def-path is exactly one of defs."""
    ds = set(defs)

    def f(n):
        return is_expr(n) and n["e"] in ("path", "call", "struct") and def_of(n) in ds
    return f


def call_sink(*suffixes):
    def f(n):
        return is_expr(n) and n["e"] in ("call", "mcall") and is_call_to(n, *suffixes)
    return f


def bool_lit_sink(val):
    v = "true" if val else "false"

    def f(n):
        return is_expr(n) and n["e"] == "lit" and n.get("lk") == "bool" and n.get("v") == v and not n.get("exp")
    return f


class Site:
    """A sink with the literals implied at it and the conjunctions known false at it."""

    def __init__(self, node, conds, binds):
        self.node = node
        self.conds = conds
        self.lits = pc.implied(conds, binds)
        self._blocked = None

    @property
    def blocked(self):
        if self._blocked is None:
            self._blocked = pc.blocked(self.conds)
        return self._blocked

    @property
    def line(self):
        return self.node.get("line")

    # -- literal queries ----------------------------------------------------------------------
    def leaves(self, pol=None, kinds=None):
        for (p, leaf) in self.lits.values():
            if pol is not None and p != pol:
                continue
            if kinds and leaf[1] not in kinds:
                continue
            yield p, leaf

    def has(self, pol, pred, kinds=None):
        """Some implied literal of polarity `pol` satisfies pred(leaf)."""
        return any(pred(leaf) for _, leaf in self.leaves(pol, kinds))

    def holds(self, pol, pred, kinds=None):
        """`has`, plus one step of unit resolution over the blocked conjunctions: if `A ∧ B ∧ ¬X` is known false
        and A, B are implied, then X holds (guards of the form `if let Some(s) = x { if s == y {} else { return } }`)."""
        if self.has(pol, pred, kinds):
            return True
        for conj in self.blocked:
            cand = None
            ok = True
            for (p, leaf) in conj:
                key = (p, pc.leaf_key(leaf))
                if key in self.lits:
                    continue
                if cand is None:
                    cand = (p, leaf)
                else:
                    ok = False
                    break
            if ok and cand is not None:
                p, leaf = cand
                if (not p) == pol and (not kinds or leaf[1] in kinds) and pred(leaf):
                    return True
        return False

    def known(self):
        """[(pol, leaf)]: implied literals plus those obtained by one round of unit resolution over blocked conjunctions."""
        out = list(self.lits.values())
        seen = set(self.lits.keys())
        for conj in self.blocked:
            rest = [(p, leaf) for (p, leaf) in conj if (p, pc.leaf_key(leaf)) not in self.lits]
            if len(rest) == 1:
                p, leaf = rest[0]
                key = (not p, pc.leaf_key(leaf))
                if key not in seen:
                    seen.add(key)
                    out.append((not p, leaf))
        return out

    def has_call(self, pol, *suffixes, kinds=("expr", "ok", "let", "arm")):
        return self.has(pol, lambda l: leaf_has(l, "call", *suffixes), kinds)

    def arm(self, pred, pol=True):
        """An implied arm / if-let / let-else literal whose (scrutinee, pattern) satisfies pred(scrut, pat)."""
        for p, leaf in self.leaves(pol, ("arm", "let")):
            scrut, pat = (leaf[2][0], leaf[2][1]) if leaf[1] == "arm" else (leaf[2][1], leaf[2][0])
            if pred(scrut, pat):
                return leaf
        return None

    def render(self, limit=8):
        out = [x for x in pc.render(self.lits) if "tracing" not in x and "Level" not in x]
        return [x[:160] for x in out[:limit]]


def sites(body, is_sink):
    binds = pc.collect_binds(body)
    return [Site(n, conds, binds) for n, conds in pc.site_conditions(body, is_sink)]


def leaf_has(leaf, kind, *suffixes):
    return has_token(pc.leaf_tokens(leaf), kind, *suffixes)


def leaf_all(leaf, *kind_suffix_pairs):
    toks = pc.leaf_tokens(leaf)
    return all(has_token(toks, k, s) for k, s in kind_suffix_pairs)


# ---------------------------------------------------------------------------------------------
# patterns and match tables

def top_alternatives(p):
    """Top-level alternatives of a pattern as pattern dicts (or-patterns, refs, `x @ sub` expanded)."""
    k = p.get("p")
    if k == "or":
        out = []
        for x in p["pats"]:
            out.extend(top_alternatives(x))
        return out
    if k == "ref":
        return top_alternatives(p["pat"])
    if k == "bind" and "sub" in p:
        return top_alternatives(p["sub"])
    return [p]


def strip_ref(p):
    while p.get("p") == "ref" or (p.get("p") == "bind" and "sub" in p):
        p = p["pat"] if p.get("p") == "ref" else p["sub"]
    return p


def is_catch_all(p):
    p = strip_ref(p)
    return p.get("p") == "wild" or (p.get("p") == "bind" and "sub" not in p)


def pat_def(p):
    """Def-path of the outermost constructor of a (non-or) pattern, '' for wild / bind / tuple."""
    p = strip_ref(p)
    return def_of(p)


def arms_for_variant(m, variant_def):
    """Arms of match `m` that may be selected for a scrutinee of the given enum variant (top-level match on the
    enum): every arm up to and including the first *unguarded* arm that names the variant or is a catch-all."""
    out = []
    for a in m["arms"]:
        hit = False
        for alt in top_alternatives(a["pat"]):
            if is_catch_all(alt) or pat_def(alt) == variant_def:
                hit = True
        if hit:
            out.append(a)
            if "guard" not in a:
                return out
    return out


def find_matches(body, pred):
    """`match` nodes (source `Normal`) under body with pred(m) true, in source order."""
    return [n for n in walk(body) if n.get("e") == "match" and n.get("src") == "Normal" and pred(n)]


def scrut_is_field(m, field, xty_suffix=None):
    s = unwrap(m["scrut"])
    if s.get("e") != "field" or s.get("f") != field:
        return False
    return xty_suffix is None or s.get("xty", "").endswith(xty_suffix)


def always_diverges(e):
    return pc.div(e) == pc.TRUE


def returns_in(e):
    """`return` expressions under e that belong to this body (not to a nested closure)."""
    return [n for n in walk(e, into_closures=False) if n.get("e") == "ret"]


def constructs_any(e, *suffixes, into_closures=True):
    f = ctor_sink(*suffixes)
    return [n for n in walk(e, into_closures) if f(n)]


def bound_locals(pat, field=None):
    """local ids bound in a pattern; with `field`, only the binding at struct-pattern field `field`."""
    out = []
    if field is None:
        for n in walk(pat):
            if n.get("p") == "bind":
                out.append(n["local"])
        return out
    for n in walk(pat):
        if n.get("p") == "struct":
            for f in n["fields"]:
                if f["f"] == field:
                    out.extend(bound_locals(f["pat"]))
    return out


def mentions_local(e, local_ids):
    for n in walk(e):
        if n.get("e") == "path" and n["res"].get("local") in local_ids:
            return True
    return False


def fn_body(d):
    """Body of a fn record; for `async fn` the coroutine closure's body."""
    b = d["body"]
    u = unwrap(b)
    if isinstance(u, dict) and u.get("e") == "closure" and "Coroutine" in str(u.get("kind", "")):
        return u["body"]
    return b


def noexp(nodes):
    """Drop nodes that come from macro expansion (tracing etc.)."""
    return [n for n in nodes if not n.get("exp")]


# ---------------------------------------------------------------------------------------------
# field writes

def peel_place(n):
    while isinstance(n, dict) and (n.get("e") == "wrap" or (n.get("e") == "un" and n.get("op") == "Deref")):
        n = n["x"]
    return n


def field_writes(body, field, xty_suffix):
    """Expression nodes that (may) write `<x>.field` where x has ADT type xty_suffix:
    the left side of an assignment, or the place passed by reference to a call / method (mem::swap, replace, take, ...).
    Pure reads (match scrutinee, comparison operand, by-value copy) are not reported."""
    out = []

    def is_place(n):
        n2 = peel_place(n)
        return isinstance(n2, dict) and n2.get("e") == "field" and n2.get("f") == field and n2.get("xty", "").endswith(xty_suffix)

    def is_ref_of_place(n):
        return isinstance(n, dict) and n.get("e") == "wrap" and "cast" not in n and is_place(n)

    for n in walk(body):
        k = n.get("e")
        if k in ("assign", "assignop") and is_place(n["l"]):
            out.append(("assign", n))
        elif k == "call":
            for a in n.get("args", []):
                if is_ref_of_place(a):
                    out.append(("byref-arg:" + short(next(iter(sorted(callee_any(n))), "?")), n))
        elif k == "mcall":
            if is_place(n["recv"]) and str(n.get("recv_ty", "")).startswith("&mut"):
                out.append(("mut-recv:" + n.get("name", "?"), n))
            for a in n.get("args", []):
                if is_ref_of_place(a):
                    out.append(("byref-arg:" + n.get("name", "?"), n))
    return out


_DERIVED = {}


def is_derived_fn(F, crate, name):
    """True when `name` is a method of a compiler-derived impl (#[derive(Clone, Debug, PartialEq, ..)]) according to
    the item facts. Derived impls copy / print / compare values structurally and carry no policy decision; a
    hand-written impl of the same trait is NOT exempt."""
    key = crate
    if key not in _DERIVED:
        _DERIVED[key] = {it["name"] for it in F.items(crate) if it.get("item") == "impl" and it.get("derived")}
    base = name.rsplit("::", 1)[0]
    return base in _DERIVED[key]


_CALL_IDX = {}


def _call_index(F, crate):
    key = (id(F), crate)
    if key not in _CALL_IDX:
        idx = {}
        for row in F.calls(crate):
            for nm in (row[1], row[2]):
                if nm:
                    idx.setdefault(nm.rsplit("::", 1)[-1], []).append(row)
        _CALL_IDX[key] = idx
    return _CALL_IDX[key]


def callers_of(F, crates, *suffixes):
    """{caller def-path (closure suffixes stripped): [lines]} for MIR call rows whose callee/resolved ends with a suffix."""
    out = {}
    for c in crates:
        idx = _call_index(F, c)
        seen = set()
        for suf in suffixes:
            for row in idx.get(suf.rsplit("::", 1)[-1], []):
                if id(row) in seen:
                    continue
                (caller, callee, resolved, ln, exp, sty) = row
                if ends(callee, *suffixes) or (resolved and ends(resolved, *suffixes)):
                    seen.add(id(row))
                    base = caller.split("::{closure")[0]
                    out.setdefault(base, []).append(ln)
    return out


# ---------------------------------------------------------------------------------------------
# value leaves

def value_leaves(e):
    """Expressions in value (tail) position of e: descends blocks, if/else and normal match arms; diverging leaves dropped."""
    if not isinstance(e, dict):
        return []
    k = e.get("e")
    if k == "blockexpr":
        return value_leaves(e["b"])
    if k == "block":
        return value_leaves(e["tail"]) if "tail" in e else []
    if k == "if":
        out = value_leaves(e["then"])
        if "else" in e:
            out += value_leaves(e["else"])
        return out
    if k == "match" and e.get("src") == "Normal":
        out = []
        for a in e["arms"]:
            out += value_leaves(a["body"])
        return out
    if k == "wrap" and "cast" not in e:
        return value_leaves(e["x"])
    if k in ("ret", "break", "continue"):
        return []
    return [e]


def sites_of_nodes(body, nodes):
    ids = {id(n) for n in nodes}
    return sites(body, lambda n: id(n) in ids)


# ---------------------------------------------------------------------------------------------
# bindings

def binding_inits(body):
    """local id -> initialiser expression for every local bound by a `let` statement (any pattern, including tuples)."""
    out = {}
    for n in walk(body):
        if n.get("s") == "let" and "init" in n:
            for l in bound_locals(n["pat"]):
                out.setdefault(l, n["init"])
    return out


def deep_tokens(e, inits, depth=3):
    """tokens(e) plus the tokens of the initialisers of the locals e mentions (transitively, bounded)."""
    toks = set(tokens(e))
    if depth <= 0:
        return toks
    for n in walk(e):
        if n.get("e") == "path" and n["res"].get("local") in inits:
            toks |= deep_tokens(inits[n["res"]["local"]], inits, depth - 1)
    return toks


def locals_in(e):
    return {n["res"]["local"] for n in walk(e) if n.get("e") == "path" and "local" in n["res"]}


def deep_locals(e, inits, depth=3):
    ls = set(locals_in(e))
    if depth <= 0:
        return ls
    for l in list(ls):
        if l in inits:
            ls |= deep_locals(inits[l], inits, depth - 1)
    return ls
