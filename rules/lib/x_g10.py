"""Helpers for C29 / C30 (group g10): a small symbolic evaluator for pure arithmetic/combinator code (K7 template extraction),
a per-body local data-flow (`Flow`), hash-type classification and tag extraction from path-condition literals.

Nothing here looks at local names, source text or line numbers (one documented exception: `mir_type_arg` joins a HIR call node
with its MIR call row by line because HIR call nodes carry no turbofish type arguments).
"""
import re

from .hir import unwrap, walk, ends, callee_of, callee_any
from . import pathcond as pc


def last_seg(path):
    return path.rsplit("::", 1)[-1] if path else ""


def strip_closure(caller):
    return re.sub(r"(::\{closure#\d+\})+$", "", caller)


def int_lit(n):
    """int value of a literal node (suffixes / underscores tolerated), else None."""
    n = unwrap(n)
    if isinstance(n, dict) and n.get("e") == "lit" and n.get("lk") == "int":
        m = re.match(r"-?\d+", str(n.get("v")).replace("_", ""))
        if m:
            return int(m.group(0))
    return None


def str_lit(n):
    n = unwrap(n)
    if isinstance(n, dict) and n.get("e") == "lit" and n.get("lk") in ("str", "char"):
        return str(n.get("v"))
    return None


# ---------------------------------------------------------------------------------------------------------
# hash classification from a type string printed by rustc

def hash_of_type(ty):
    """'sha1' | 'sha256' | 'sha512' | 'sha224' | 'sha384' | 'md4' | 'md5' | None — the hash function a RustCrypto type is built on."""
    ty = ty or ""
    if "sha1::Sha1Core" in ty or re.search(r"\bsha1::Sha1\b", ty):
        return "sha1"
    m = re.search(r"sha2::OidSha(\d+)", ty)
    if m:
        return "sha" + m.group(1)
    if "Sha256VarCore" in ty:
        return "sha256-family"
    if "Sha512VarCore" in ty:
        return "sha512-family"
    if "md4::Md4Core" in ty:
        return "md4"
    if "md5::Md5Core" in ty or "md5::Md5" in ty:
        return "md5"
    return None


def is_hmac_type(ty):
    return "HmacCore<" in (ty or "") or "hmac::Hmac<" in (ty or "") or "SimpleHmac<" in (ty or "")


def digits_of(name):
    """'Sha256' / 'S256' / 'sha256' -> '256' (the algorithm number a variant or tag names)."""
    m = re.search(r"(\d+)$", name or "")
    return m.group(1) if m else None


# ---------------------------------------------------------------------------------------------------------
# enum discriminants

def enum_discriminants(F, crate, enum_name):
    """{variant: int} of a fieldless enum from the compiler-evaluated per-variant `discr` of the enum's item fact
    (adt_def.discriminants); None when the item or any `discr` is missing (callers fail closed)."""
    it = F.item(crate, "enum", enum_name)
    if it is None:
        return None
    out = {}
    for v in it.get("variants", []):
        d = v.get("discr")
        if d is None:
            return None
        try:
            out[v["v"]] = int(str(d))
        except ValueError:
            return None
    return out or None


# ---------------------------------------------------------------------------------------------------------
# MIR join: type argument of a free generic call (`pbkdf2_hmac::<Sha1>(..)`)

def mir_type_arg(F, crate, fn_name, call_node, callee_suffix):
    """First type argument of the call `call_node` (HIR) taken from the MIR call rows of the same function and line.
    Returns the type string, or None when no row / several differing rows match (callers fail closed)."""
    line = call_node.get("line")
    tys = set()
    for (caller, callee, resolved, ln, exp, sty) in F.calls(crate):
        if ln == line and strip_closure(caller) == fn_name and (ends(callee, callee_suffix) or ends(resolved, callee_suffix)):
            tys.add(sty)
    if len(tys) == 1:
        return next(iter(tys))
    return None


# ---------------------------------------------------------------------------------------------------------
# local data-flow

TRY = "TryDesugar"


def try_inner(m):
    return pc.try_inner(m)


class Flow:
    """Where do the locals of one body come from?  local id -> ('param', i) | ('let', init, proj) | ('pat', variant_def, field, scrut)
    | ('cparam', closure_node, i).  `proj` is a tuple of positions when the let destructures a tuple."""

    def __init__(self, rec):
        self.rec = rec
        self.src = {}
        self.mut = set()
        for i, p in enumerate(rec.get("params", [])):
            self._bind_param(p["pat"], i)
        self._scan(rec["body"])

    def _bind_param(self, pat, i):
        for b in walk(pat):
            if b.get("p") == "bind":
                self.src.setdefault(b["local"], ("param", i))

    def _bind(self, pat, init, proj=()):
        k = pat.get("p")
        if k == "bind":
            self.src.setdefault(pat["local"], ("let", init, proj))
            if pat.get("mut"):
                self.mut.add(pat["local"])
            if "sub" in pat:
                self._bind(pat["sub"], init, proj)
        elif k == "ref":
            self._bind(pat["pat"], init, proj)
        elif k == "tuple":
            for j, sp in enumerate(pat["pats"]):
                self._bind(sp, init, proj + (j,))
        elif k in ("struct", "tstruct"):
            self._bind_variant(pat, init, proj)

    def _bind_variant(self, pat, scrut, proj=()):
        """pattern bindings under a variant/struct pattern: ('pat', variant, field, scrut, proj)"""
        k = pat.get("p")
        if k == "ref":
            return self._bind_variant(pat["pat"], scrut, proj)
        if k == "bind":
            if "sub" in pat:
                self._bind_variant(pat["sub"], scrut, proj)
            self.src.setdefault(pat["local"], ("let", scrut, proj))
            return
        if k == "tuple":
            for j, sp in enumerate(pat["pats"]):
                self._bind_variant(sp, scrut, proj + (j,))
            return
        if k == "or":
            for sp in pat["pats"]:
                self._bind_variant(sp, scrut, proj)
            return
        if k in ("struct", "tstruct"):
            v = pat["path"].get("def", "")
            subs = [(f["f"], f["pat"]) for f in pat.get("fields", [])] if k == "struct" else [(str(j), sp) for j, sp in enumerate(pat.get("pats", []))]
            wrapper = ends(v, "Option::Some", "Result::Ok", "Result::Err", "ControlFlow::Continue", "ControlFlow::Break")
            for fname, sp in subs:
                inner = sp
                while inner.get("p") == "ref":
                    inner = inner["pat"]
                if inner.get("p") == "bind":
                    if wrapper:
                        self.src.setdefault(inner["local"], ("let", scrut, proj))
                    else:
                        self.src.setdefault(inner["local"], ("pat", v, fname, scrut, proj))
                    if "sub" in inner:
                        self._bind_variant(inner["sub"], scrut, proj)
                elif inner.get("p") in ("struct", "tstruct", "tuple", "or"):
                    # nested: Option/Result wrappers are transparent, else descend with the field as context
                    if wrapper:
                        self._bind_variant(inner, scrut, proj)
                    else:
                        self._bind_variant(inner, {"e": "patfield", "variant": v, "f": fname, "x": scrut}, ())

    def _scan(self, root):
        for n in walk(root):
            if n.get("s") == "let" and "init" in n:
                self._bind(n["pat"], n["init"])
            elif n.get("e") == "let":
                self._bind_variant(n["pat"], n["init"])
            elif n.get("e") == "match":
                if TRY in n.get("src", ""):
                    inner = try_inner(n)
                    for a in n["arms"]:
                        for b in walk(a["pat"]):
                            if b.get("p") == "bind":
                                self.src.setdefault(b["local"], ("let", inner, ()))
                else:
                    for a in n["arms"]:
                        self._bind_variant(a["pat"], n["scrut"])
            elif n.get("e") == "closure":
                for i, p in enumerate(n.get("params", [])):
                    for b in walk(p):
                        if b.get("p") == "bind":
                            self.src.setdefault(b["local"], ("cparam", n, i))

    # ---- tracing ---------------------------------------------------------------------------------------
    ARGMAP = {"decode": 0, "Some": 0, "Ok": 0, "from": 0, "try_from": 0}

    def trace(self, e, depth=32, argmap=None, stop_at_mut=False):
        """Follow `e` backwards through transparent wrappers, `?`, method-call receivers and let-bound locals.
        Returns (root, chain): chain = names of the method calls / projections traversed (outermost first); root is
        ('param', i) | ('pat', variant, field) | ('cparam', closure, i) | ('node', hir_node) (a call, literal, index, ...).
        Calls named in `argmap` (name -> argument position) are followed through that argument instead of the receiver
        (`engine.decode(data)`, `hex::decode(data)`, `Some(x)`)."""
        chain = []
        argmap = self.ARGMAP if argmap is None else argmap
        while depth > 0:
            depth -= 1
            e = unwrap(e)
            if not isinstance(e, dict):
                return ("node", e), chain
            k = e.get("e")
            if k == "match" and TRY in e.get("src", ""):
                chain.append("?")
                e = try_inner(e)
                continue
            if k == "wrapcast":
                e = e["x"]
                continue
            if k == "mcall":
                nm = last_seg(e.get("callee") or e.get("name") or "")
                chain.append(nm)
                if nm in argmap and len(e.get("args", [])) > argmap[nm] and not (e.get("callee") or "").startswith(("core::option::Option", "core::result::Result")):
                    e = e["args"][argmap[nm]]
                else:
                    e = e["recv"]
                continue
            if k == "call":
                nm = last_seg(e.get("ctor") or e.get("callee") or "")
                if nm in argmap and len(e.get("args", [])) > argmap[nm]:
                    chain.append(nm)
                    e = e["args"][argmap[nm]]
                    continue
                return ("node", e), chain
            if k == "blockexpr" and "tail" in e["b"]:
                e = e["b"]["tail"]
                continue
            if k == "patfield":
                return ("pat", e["variant"], e["f"]), chain
            if k == "field":
                chain.append("." + str(e["f"]))
                e = e["x"]
                continue
            if k == "path" and "local" in e.get("res", {}):
                s = self.src.get(e["res"]["local"])
                if s is None:
                    return ("node", e), chain
                if stop_at_mut and e["res"]["local"] in self.mut:
                    return ("mutlocal", e["res"]["local"]), chain
                if s[0] == "param":
                    return ("param", s[1]), chain
                if s[0] == "cparam":
                    return ("cparam", s[1], s[2]), chain
                if s[0] == "pat":
                    return ("pat", s[1], s[2]), chain
                if s[0] == "let":
                    for j in s[2]:
                        chain.append(f".{j}")
                    e = s[1]
                    continue
            return ("node", e), chain
        return ("node", e), chain

    def local_of(self, e):
        """local id an expression names through &, *, and nothing else."""
        e = unwrap(e)
        if isinstance(e, dict) and e.get("e") == "path" and "local" in e.get("res", {}):
            return e["res"]["local"]
        return None

    def roots(self, e, depth=8, _seen=None):
        """May-flow: the set of roots ('param',i) / ('pat',variant,field) / ('call',callee) / ('lit',v) / ('def',path) that any
        sub-expression of `e` is computed from, following let-bound locals."""
        out = set()
        _seen = _seen if _seen is not None else set()
        stack = [(e, depth)]
        while stack:
            n, d = stack.pop()
            if isinstance(n, list):
                stack.extend((x, d) for x in n)
                continue
            if not isinstance(n, dict):
                continue
            k = n.get("e")
            if k == "path":
                res = n.get("res", {})
                if "local" in res:
                    s = self.src.get(res["local"])
                    if s is None:
                        out.add(("local?", res["local"]))
                    elif s[0] == "param":
                        out.add(("param", s[1]))
                    elif s[0] == "pat":
                        out.add(("pat", s[1], s[2]))
                    elif s[0] == "cparam":
                        out.add(("cparam", s[2]))
                    elif s[0] == "let" and d > 0 and res["local"] not in _seen:
                        _seen.add(res["local"])
                        stack.append((s[1], d - 1))
                elif "def" in res:
                    out.add(("def", res["def"]))
                continue
            if k == "patfield":
                out.add(("pat", n["variant"], n["f"]))
                continue
            if k in ("call", "mcall"):
                for c in callee_any(n):
                    out.add(("call", c))
            elif k == "lit":
                out.add(("lit", str(n.get("v"))))
            for kk, v in n.items():
                if kk in ("line", "exp", "pat", "params", "res"):
                    continue
                if isinstance(v, (dict, list)):
                    stack.append((v, d))
        return out


# ---------------------------------------------------------------------------------------------------------
# symbolic evaluation of pure code (K7 template extraction)
#
# Terms (hashable tuples):
#   ('param', i) ('int', n) ('bool', b) ('str', s) ('def', path) ('unit',)
#   ('field', name, base) ('index', base, idx) ('range', lo, hi) ('tuple', (..))
#   ('bin', op, l, r) ('not', x) ('cast', ty, x)
#   ('call', callee, (args..))           uninterpreted call (receiver first for method calls)
#   ('res', x)                           a Result/Option whose success payload is x (failure possible)
#   ('fail',)                            definitely Err / None
#   ('alt', x, d)                        x when the underlying Result/Option succeeded, d when it failed
#   ('ite', c, a, b) ('switch', scrut, ((variant|'_', value)..))
#   ('lam', closure_node, env_id) ('unknown', why)

class Unknown(Exception):
    pass


RES_COMBINATORS = ("core::option::Option::<T>::", "core::result::Result::<T, E>::")
TRANSPARENT_METHODS = {"clone", "to_owned", "as_slice", "as_ref", "borrow", "to_vec", "as_mut_slice", "into", "deref", "as_mut", "iter", "copied", "cloned", "into_iter"}


class Ev:
    def __init__(self, F, crate, primitives=(), inline_prefix=None, max_inline=3):
        self.F = F
        self.crate = crate
        self.primitives = set(primitives)
        self.inline_prefix = inline_prefix
        self.max_inline = max_inline
        self._envs = {}
        self.inlined = []

    # ---- entry ---------------------------------------------------------------------------------------------
    def eval_fn(self, rec, args=None, depth=0):
        env = {}
        for i, p in enumerate(rec.get("params", [])):
            v = args[i] if args is not None and i < len(args) else ("param", i)
            self._bind(p["pat"], v, env)
        return self.ev(rec["body"], env, depth)

    # ---- patterns --------------------------------------------------------------------------------------------
    def _bind(self, pat, val, env):
        k = pat.get("p")
        if k == "bind":
            env[pat["local"]] = val
            if "sub" in pat:
                self._bind(pat["sub"], val, env)
        elif k == "ref":
            self._bind(pat["pat"], val, env)
        elif k == "tuple":
            for j, sp in enumerate(pat["pats"]):
                if val[0] == "tuple" and j < len(val[1]):
                    self._bind(sp, val[1][j], env)
                else:
                    self._bind(sp, ("field", str(j), val), env)
        elif k == "wild":
            pass
        elif k in ("struct", "tstruct"):
            subs = [(f["f"], f["pat"]) for f in pat.get("fields", [])] if k == "struct" else [(str(j), sp) for j, sp in enumerate(pat.get("pats", []))]
            for fname, sp in subs:
                self._bind(sp, ("field", fname, val), env)

    @staticmethod
    def _pat_variant(p):
        while isinstance(p, dict) and p.get("p") == "ref":
            p = p["pat"]
        if isinstance(p, dict) and p.get("p") == "bind" and "sub" in p:
            return Ev._pat_variant(p["sub"])
        if isinstance(p, dict) and p.get("p") in ("struct", "tstruct"):
            return p["path"].get("def", "")
        if isinstance(p, dict) and p.get("p") == "expr" and "path" in p:
            return p["path"].get("def", "")
        if isinstance(p, dict) and p.get("p") == "expr" and "v" in p:
            return "lit:" + str(p["v"])
        if isinstance(p, dict) and p.get("p") in ("wild", "bind"):
            return "_"
        return "?"

    @staticmethod
    def _payload_pat(p):
        """sub-pattern bound to the payload of Ok(..)/Some(..)"""
        while p.get("p") == "ref":
            p = p["pat"]
        if p.get("p") == "tstruct" and p.get("pats"):
            return p["pats"][0]
        if p.get("p") == "struct" and p.get("fields"):
            return p["fields"][0]["pat"]
        return None

    # ---- blocks ----------------------------------------------------------------------------------------------
    def _block(self, b, env, depth):
        env = dict(env)
        stmts = b.get("stmts", [])
        return self._stmts(stmts, 0, b.get("tail"), env, depth)

    def _stmts(self, stmts, i, tail, env, depth):
        while i < len(stmts):
            s = stmts[i]
            if s.get("s") == "let":
                if "init" in s:
                    v = self.ev(s["init"], env, depth)
                    if "else" in s:
                        # let-else: the success pattern binds the payload
                        if v[0] == "res":
                            pp = self._payload_pat(s["pat"])
                            if pp is not None:
                                self._bind(pp, v[1], env)
                            else:
                                raise Unknown("let-else pattern")
                        else:
                            raise Unknown("let-else on non-result")
                    else:
                        self._bind(s["pat"], v, env)
                i += 1
                continue
            if s.get("s") == "expr":
                x = unwrap(s["x"])
                if isinstance(x, dict) and x.get("e") == "if":
                    rv = self._early_return(x, env, depth)
                    if rv is not None:
                        c, val, negate = rv
                        rest = self._stmts(stmts, i + 1, tail, dict(env), depth)
                        return ("ite", c, val, rest) if not negate else ("ite", c, rest, val)
                if isinstance(x, dict) and x.get("e") == "ret":
                    return self.ev(x["x"], env, depth) if "x" in x else ("unit",)
                if isinstance(x, dict) and x.get("e") in ("assign", "assignop"):
                    raise Unknown("assignment")
                if any(n.get("e") == "ret" and not n.get("exp") for n in walk(x, into_closures=False)):
                    raise Unknown("return in an unsupported position")
                i += 1
                continue
            i += 1
        if tail is None:
            return ("unit",)
        return self.ev(tail, env, depth)

    def _early_return(self, ifn, env, depth):
        """`if c { return X }` (no else, or else without return) -> (cond, X, negate=False); None when the `if` has no return."""
        def ret_of(block):
            b = unwrap(block)
            if b.get("e") == "ret":
                return b
            if b.get("e") == "blockexpr":
                bb = b["b"]
                last = bb.get("tail") or (bb["stmts"][-1].get("x") if bb.get("stmts") and bb["stmts"][-1].get("s") == "expr" else None)
                if last is not None and len(bb.get("stmts", [])) <= (0 if bb.get("tail") else 1):
                    last = unwrap(last)
                    if last.get("e") == "ret":
                        return last
                if last is not None and unwrap(last).get("e") == "ret" and all(st.get("s") == "expr" and st["x"].get("exp") for st in bb.get("stmts", [])[:-1 if not bb.get("tail") else None]):
                    return unwrap(last)
            return None
        r = ret_of(ifn["then"])
        has_ret_else = "else" in ifn and any(n.get("e") == "ret" and not n.get("exp") for n in walk(ifn["else"], into_closures=False))
        if r is None:
            if any(n.get("e") == "ret" and not n.get("exp") for n in walk(ifn["then"], into_closures=False)) or has_ret_else:
                raise Unknown("return in an unsupported position")
            return None
        if has_ret_else:
            raise Unknown("return in both branches")
        c = unwrap(ifn["cond"])
        if c.get("e") == "let":
            raise Unknown("if-let with early return")
        cv = self.ev(c, env, depth)
        val = self.ev(r["x"], env, depth) if "x" in r else ("unit",)
        return (cv, val, False)

    # ---- expressions -----------------------------------------------------------------------------------------
    def ev(self, e, env, depth=0):
        if not isinstance(e, dict):
            raise Unknown("non-node")
        k = e.get("e")
        if k == "wrap":
            v = self.ev(e["x"], env, depth)
            if e.get("cast"):
                return ("cast", e["cast"], v)
            return v
        if k == "un":
            v = self.ev(e["x"], env, depth)
            if e["op"] == "Deref":
                return v
            if e["op"] == "Not":
                return ("not", v)
            return ("call", "neg", (v,))
        if k == "blockexpr":
            return self._block(e["b"], env, depth)
        if k == "block":
            return self._block(e, env, depth)
        if k == "lit":
            if e.get("lk") == "int":
                return ("int", int_lit(e))
            if e.get("lk") == "bool":
                return ("bool", str(e.get("v")) == "true")
            if e.get("lk") in ("str", "char"):
                return ("str", str(e.get("v")))
            return ("unknown", "lit")
        if k == "path":
            res = e.get("res", {})
            if "local" in res:
                if res["local"] in env:
                    return env[res["local"]]
                return ("unknown", "local")
            d = res.get("def", "")
            if ends(d, "Option::None"):
                return ("fail",)
            return ("def", d)
        if k == "field":
            return ("field", e["f"], self.ev(e["x"], env, depth))
        if k == "index":
            return ("index", self.ev(e["x"], env, depth), self.ev(e["i"], env, depth))
        if k == "tuple":
            return ("tuple", tuple(self.ev(x, env, depth) for x in e["xs"]))
        if k == "struct":
            d = e["path"].get("def", "")
            fs = {f["f"]: self.ev(f["x"], env, depth) for f in e.get("fields", [])}
            if ends(d, "ops::range::Range"):
                return ("range", fs.get("start"), fs.get("end"))
            if ends(d, "ops::range::RangeTo"):
                return ("range", ("int", 0), fs.get("end"))
            if ends(d, "ops::range::RangeFrom"):
                return ("range", fs.get("start"), None)
            return ("struct", d, tuple(sorted(fs.items())))
        if k == "bin":
            return ("bin", e["op"], self.ev(e["l"], env, depth), self.ev(e["r"], env, depth))
        if k == "closure":
            key = len(self._envs)
            self._envs[key] = dict(env)
            return ("lam", id(e), key, e)
        if k == "if":
            return self._if(e, env, depth)
        if k == "match":
            return self._match(e, env, depth)
        if k == "call":
            return self._call(e, env, depth)
        if k == "mcall":
            return self._mcall(e, env, depth)
        if k == "ret":
            raise Unknown("return in an unsupported position")
        raise Unknown("expression kind " + str(k))

    def apply(self, lam, args, depth):
        if lam[0] != "lam":
            # a path to a function used as a callback
            if lam[0] == "def":
                return ("call", lam[1], tuple(args))
            raise Unknown("callback is not a closure")
        node = lam[3]
        env = dict(self._envs[lam[2]])
        for p, a in zip(node.get("params", []), args):
            self._bind(p, a, env)
        return self.ev(node["body"], env, depth)

    def _if(self, e, env, depth):
        c = unwrap(e["cond"])
        if c.get("e") == "let":
            sv = self.ev(c["init"], env, depth)
            v = self._pat_variant(c["pat"])
            if sv[0] in ("res", "alt") and ends(v, "Option::Some", "Result::Ok"):
                env2 = dict(env)
                pp = self._payload_pat(c["pat"])
                payload = sv[1] if sv[0] == "res" else None
                if payload is None:
                    raise Unknown("if-let on alt")
                if pp is not None:
                    self._bind(pp, payload, env2)
                a = self.ev(e["then"], env2, depth)
                b = self.ev(e["else"], env, depth) if "else" in e else ("unit",)
                return ("alt", a, b)
            if sv[0] == "res" and ends(v, "Option::None", "Result::Err"):
                a = self.ev(e["then"], env, depth)
                b = self.ev(e["else"], env, depth) if "else" in e else ("unit",)
                return ("alt", b, a)
            raise Unknown("if-let shape")
        cv = self.ev(c, env, depth)
        a = self.ev(e["then"], env, depth)
        b = self.ev(e["else"], env, depth) if "else" in e else ("unit",)
        return ("ite", cv, a, b)

    def _match(self, e, env, depth):
        if TRY in e.get("src", ""):
            v = self.ev(try_inner(e), env, depth)
            if v[0] == "res":
                return v[1]
            if v[0] == "fail":
                raise Unknown("`?` on a value that is always an error")
            return ("call", "?", (v,))
        sv = self.ev(e["scrut"], env, depth)
        arms = e["arms"]
        if sv[0] == "res":
            okv, failv, wild = None, None, None
            for a in arms:
                v = self._pat_variant(a["pat"])
                if ends(v, "Option::Some", "Result::Ok"):
                    env2 = dict(env)
                    pp = self._payload_pat(a["pat"])
                    if pp is not None:
                        self._bind(pp, sv[1], env2)
                    body = self.ev(a["body"], env2, depth)
                    if "guard" in a:
                        g = self.ev(a["guard"], env2, depth)
                        okv = ("guarded", g, body)
                    else:
                        okv = body
                elif ends(v, "Option::None", "Result::Err"):
                    failv = self.ev(a["body"], env, depth)
                elif v == "_":
                    wild = self.ev(a["body"], env, depth)
                else:
                    raise Unknown("match arm over a result: " + v)
            if okv is not None and okv[0] == "guarded":
                if wild is None:
                    raise Unknown("guarded arm without a wildcard")
                okv = ("ite", okv[1], okv[2], wild)
            if okv is None:
                okv = wild
            if failv is None:
                failv = wild
            if okv is None or failv is None:
                raise Unknown("non-exhaustive result match")
            return ("alt", okv, failv)
        rows = []
        for a in arms:
            if "guard" in a:
                raise Unknown("guarded arm")
            pats = a["pat"]["pats"] if a["pat"].get("p") == "or" else [a["pat"]]
            env2 = dict(env)
            body = self.ev(a["body"], env2, depth)
            for p in pats:
                rows.append((self._pat_variant(p), body))
        return ("switch", sv, tuple(rows))

    def _call(self, e, env, depth):
        if e.get("ctor"):
            c = e["ctor"]
            args = tuple(self.ev(a, env, depth) for a in e["args"])
            if ends(c, "Result::Ok", "Option::Some"):
                return ("res", args[0] if args else ("unit",))
            if ends(c, "Result::Err"):
                return ("fail",)
            return ("ctor", c, args)
        names = callee_any(e)
        args = tuple(self.ev(a, env, depth) for a in e["args"])
        if not names and isinstance(e.get("fun"), dict):
            fv = self.ev(e["fun"], env, depth)
            if fv[0] == "lam":
                return self.apply(fv, list(args), depth)
            raise Unknown("call through a value that is not a local closure")
        name = e.get("callee") or callee_of(e)
        return self._dispatch(name, names, args, e, depth)

    def _mcall(self, e, env, depth):
        recv = self.ev(e["recv"], env, depth)
        args = tuple(self.ev(a, env, depth) for a in e["args"])
        callee = e.get("callee") or ""
        nm = last_seg(callee) or e.get("name")
        if any(callee.startswith(p) for p in RES_COMBINATORS):
            return self._combinator(nm, recv, args, depth)
        if nm in TRANSPARENT_METHODS and not any(n in self.primitives for n in callee_any(e)):
            return recv
        if nm in ("try_into", "try_from") and not args:
            return ("res", recv)
        if nm in ("checked_sub", "checked_add") and len(args) == 1:
            return ("res", ("bin", "-" if nm == "checked_sub" else "+", recv, args[0]))
        if nm in ("saturating_sub", "wrapping_sub") and len(args) == 1:
            return ("bin", "-", recv, args[0])
        if nm in ("saturating_add", "wrapping_add") and len(args) == 1:
            return ("bin", "+", recv, args[0])
        if nm in ("last",) and not args:
            return ("res", ("last", recv))
        if nm in ("eq", "ne") and len(args) == 1:
            return ("bin", "==" if nm == "eq" else "!=", recv, args[0])
        return self._dispatch(callee or callee_of(e), callee_any(e), (recv,) + args, e, depth)

    def _dispatch(self, name, names, args, node, depth):
        ty = node.get("ty") or ""
        wrap = (lambda t: ("res", t)) if ty.startswith(("core::result::Result<", "core::option::Option<")) else (lambda t: t)
        if any(n in self.primitives for n in names):
            hit = next(n for n in names if n in self.primitives)
            return wrap(("call", hit, args))
        target = next((n for n in names if self.inline_prefix and n.startswith(self.inline_prefix)), None)
        if target and depth < self.max_inline:
            rec = self.F.fn(self.crate, target)
            if rec is not None:
                self.inlined.append(target)
                return self.eval_fn(rec, list(args), depth + 1)
        return wrap(("call", name, args))

    def _combinator(self, nm, recv, args, depth):
        """Option/Result combinators on ('res', x) / ('fail',) / ('alt', ..)."""
        if recv[0] == "fail":
            if nm in ("unwrap_or",):
                return args[0]
            if nm in ("map", "map_err", "ok", "ok_or", "ok_or_else", "and_then", "inspect", "inspect_err"):
                return ("fail",)
            if nm in ("is_ok_and", "is_some_and", "is_some", "is_ok"):
                return ("bool", False)
            if nm == "map_or":
                return args[0]
            raise Unknown("combinator " + nm + " on a failure")
        if recv[0] != "res":
            return ("call", "comb:" + nm, (recv,) + tuple(args))
        x = recv[1]
        if nm in ("map",):
            return ("res", self.apply(args[0], [x], depth))
        if nm in ("map_err", "ok", "ok_or", "ok_or_else", "inspect", "inspect_err", "as_ref", "as_mut", "copied", "cloned", "or", "as_deref"):
            return recv
        if nm == "and_then":
            r = self.apply(args[0], [x], depth)
            if r[0] in ("res", "fail"):
                return r
            if r[0] == "alt":
                return ("res", r) if False else ("call", "and_then", (recv, r))
            return ("call", "and_then", (recv, r))
        if nm == "unwrap_or":
            return ("alt", x, args[0])
        if nm == "unwrap_or_default":
            return ("alt", x, ("default",))
        if nm == "unwrap_or_else":
            return ("alt", x, self.apply(args[0], [("unit",)], depth))
        if nm == "map_or":
            return ("alt", self.apply(args[1], [x], depth), args[0])
        if nm == "map_or_else":
            return ("alt", self.apply(args[1], [x], depth), self.apply(args[0], [("unit",)], depth))
        if nm in ("is_ok_and", "is_some_and"):
            return ("alt", self.apply(args[0], [x], depth), ("bool", False))
        if nm in ("is_ok", "is_some"):
            return ("alt", ("bool", True), ("bool", False))
        if nm in ("is_err", "is_none"):
            return ("alt", ("bool", False), ("bool", True))
        if nm in ("unwrap", "expect", "unwrap_unchecked"):
            return x
        if nm in ("eq",):
            return ("bin", "==", recv, args[0])
        raise Unknown("combinator " + nm)


def render(t, depth=0):
    """compact rendering of a term for messages"""
    if not isinstance(t, tuple) or not t:
        return str(t)
    if depth > 10:
        return "…"
    k = t[0]
    r = lambda x: render(x, depth + 1)
    if k == "param":
        return f"arg{t[1]}"
    if k == "int":
        return hex(t[1]) if t[1] is not None and t[1] > 255 else str(t[1])
    if k in ("bool", "str"):
        return repr(t[1])
    if k == "def":
        return "::".join(t[1].split("::")[-2:])
    if k == "field":
        return f"{r(t[2])}.{t[1]}"
    if k == "index":
        return f"{r(t[1])}[{r(t[2])}]"
    if k == "range":
        return f"{r(t[1]) if t[1] else ''}..{r(t[2]) if t[2] else ''}"
    if k == "bin":
        return f"({r(t[2])} {t[1]} {r(t[3])})"
    if k == "not":
        return "!" + r(t[1])
    if k == "cast":
        return f"({r(t[2])} as {t[1]})"
    if k == "call":
        return f"{last_seg(t[1])}({', '.join(r(a) for a in t[2])})"
    if k == "res":
        return f"Ok/Some({r(t[1])})"
    if k == "fail":
        return "Err/None"
    if k == "alt":
        return f"[{r(t[1])} | on-failure {r(t[2])}]"
    if k == "ite":
        return f"if {r(t[1])} {{{r(t[2])}}} else {{{r(t[3])}}}"
    if k == "switch":
        return "match " + r(t[1]) + " {" + ", ".join(f"{last_seg(v)}=>{r(b)}" for v, b in t[2]) + "}"
    if k == "last":
        return f"last({r(t[1])})"
    if k == "tuple":
        return "(" + ", ".join(r(x) for x in t[1]) + ")"
    if k == "lam":
        return "|..|"
    return k


def strip_casts(t):
    while isinstance(t, tuple) and t and t[0] == "cast":
        t = t[2]
    return t


# ---------------------------------------------------------------------------------------------------------
# tags of a site: which textual tests (prefix / exact format name / equality) hold on the path

def site_tags(lits):
    """[(kind, value(s), subject_node)] from implied literals: ('prefix', 'lit'), ('fmt', frozenset(lits)), ('eq', 'lit')."""
    out = []
    for (pol, leaf) in lits.values():
        kind, payload = leaf[1], leaf[2]
        if kind == "expr":
            e = unwrap(payload)
            if pol and e.get("e") == "mcall" and last_seg(e.get("callee", "")) == "starts_with" and e.get("args"):
                s = str_lit(e["args"][0])
                if s is not None:
                    out.append(("prefix", s, e["recv"]))
            if e.get("e") == "bin" and ((e["op"] == "==" and pol) or (e["op"] == "!=" and not pol)):
                for a, b in ((e["l"], e["r"]), (e["r"], e["l"])):
                    s = str_lit(b)
                    if s is not None:
                        out.append(("eq", s, a))
        elif kind == "let" and pol:
            pat, init = payload
            i = unwrap(init)
            if i.get("e") == "mcall" and last_seg(i.get("callee", "")) == "strip_prefix" and i.get("args") and ends(Ev._pat_variant(pat), "Option::Some"):
                s = str_lit(i["args"][0])
                if s is not None:
                    out.append(("prefix", s, i["recv"]))
        elif kind == "arm" and pol:
            scrut, pat = payload
            alts = pat["pats"] if pat.get("p") == "or" else [pat]
            vals = []
            for a in alts:
                if a.get("p") == "expr" and a.get("lk") in ("str", "char"):
                    vals.append(str(a.get("v")))
                else:
                    vals = None
                    break
            if vals:
                out.append(("fmt", frozenset(vals), scrut))
    return out
