"""Decision-table helpers shared by C01/C02/C03 (K4/K5): evaluating `match` patterns against abstract
variant values with first-match semantics (so reordering independent arms never changes the extracted table),
plus a few HIR shape recognisers (for-loops, `?`, local binding lookup).

Abstract values:  V(name, args)   an enum variant (last path segment) with sub-values
                  T(items)        a tuple
                  LIT(v)          a literal
                  None            unknown (matches only irrefutable patterns; a refutable pattern raises Undecided)
"""
from .hir import walk, unwrap, def_of, callee_any, ends, pat_s


class Undecided(Exception):
    """A pattern / guard cannot be decided on the abstract value: the caller reports shape-not-understood (fail closed)."""


class V:
    __slots__ = ("name", "args")

    def __init__(self, name, args=None):
        self.name = name
        self.args = args

    def __repr__(self):
        return f"V({self.name})"


class T:
    __slots__ = ("items",)

    def __init__(self, items):
        self.items = list(items)

    def __repr__(self):
        return "T(" + ",".join(map(repr, self.items)) + ")"


class LIT:
    __slots__ = ("v",)

    def __init__(self, v):
        self.v = v


def last(path):
    return path.split("::")[-1] if path else ""


def enum_variants(F, crate, enum_path):
    it = F.item(crate, "enum", enum_path)
    if it is None:
        return None
    return [(v["v"], [f["ty"] for f in v.get("fields", [])]) for v in it["variants"]]


def pat_match(p, val, binds=None, maybe=None):
    """Match pattern p against abstract value val. Returns dict {local id: sub-value} or None (no match).
    A refutable pattern against an unknown value raises Undecided, unless `maybe` is a list: then it is taken as a
    possible match and a note is appended to `maybe` (the caller must also consider the non-matching case)."""
    if binds is None:
        binds = {}
    k = p.get("p")
    if k == "wild":
        return binds
    if k == "bind":
        if "sub" in p:
            r = pat_match(p["sub"], val, binds, maybe)
            if r is None:
                return None
        binds[p["local"]] = val
        return binds
    if k == "ref":
        return pat_match(p["pat"], val, binds, maybe)
    if k == "or":
        # rustc resolves uses of an or-pattern binding to the FIRST alternative's binding id: alias the matched
        # alternative's bindings to the first alternative's ids by name
        first_ids = {x["name"]: x["local"] for x in walk(p["pats"][0]) if x.get("p") == "bind"} if p["pats"] else {}
        for alt in p["pats"]:
            b = dict(binds)
            r = pat_match(alt, val, b, maybe)
            if r is not None:
                for x in walk(alt):
                    if x.get("p") == "bind" and x["name"] in first_ids and x["local"] in r:
                        r[first_ids[x["name"]]] = r[x["local"]]
                binds.update(r)      # callers matching a tuple keep using `binds`
                return binds
        return None
    if k == "tuple":
        if val is None:
            # irrefutable only if every sub-pattern is
            for sp in p["pats"]:
                if pat_match(sp, None, binds, maybe) is None:
                    return None
            return binds
        if not isinstance(val, T) or len(val.items) != len(p["pats"]):
            raise Undecided("tuple pattern against " + repr(val))
        for sp, sv in zip(p["pats"], val.items):
            if pat_match(sp, sv, binds, maybe) is None:
                return None
        return binds
    if k in ("tstruct", "struct") or (k == "expr" and "path" in p):
        d = p["path"].get("def", "")
        if val is None or not isinstance(val, V):
            if maybe is None:
                raise Undecided("refutable pattern " + pat_s(p) + " against " + ("an unknown value" if val is None else repr(val)))
            maybe.append(pat_s(p))
            for x in walk(p):
                if x.get("p") == "bind":
                    binds[x["local"]] = None
            return binds
        if last(d) != val.name:
            return None
        if k == "tstruct":
            subs = p["pats"]
            args = val.args if val.args is not None else [None] * len(subs)
            if len(args) != len(subs):
                args = [None] * len(subs)
            for sp, sv in zip(subs, args):
                if pat_match(sp, sv, binds, maybe) is None:
                    return None
        elif k == "struct":
            for f in p["fields"]:
                sv = None
                if val.args is not None and f["f"].isdigit() and int(f["f"]) < len(val.args):
                    sv = val.args[int(f["f"])]
                if pat_match(f["pat"], sv, binds, maybe) is None:
                    return None
        return binds
    if k == "expr":   # literal
        if isinstance(val, LIT):
            return binds if str(val.v) == str(p.get("v")) else None
        if maybe is None:
            raise Undecided("literal pattern against " + repr(val))
        maybe.append(pat_s(p))
        return binds
    raise Undecided("pattern kind " + str(k))


def first_arm(match_node, val, allow_guard=False):
    """First arm of `match_node` whose pattern matches `val` -> (index, arm, binds). Raises Undecided."""
    for i, a in enumerate(match_node["arms"]):
        b = pat_match(a["pat"], val, {})
        if b is None:
            continue
        if a.get("guard") is not None and not allow_guard:
            raise Undecided("guarded arm " + pat_s(a["pat"]))
        return i, a, b
    return None, None, None


def pat_variants(p, enum_path=None):
    """Variant names a pattern names at its top level (through or/ref/bind@)."""
    k = p.get("p")
    if k == "or":
        out = []
        for x in p["pats"]:
            out.extend(pat_variants(x, enum_path))
        return out
    if k == "ref":
        return pat_variants(p["pat"], enum_path)
    if k == "bind" and "sub" in p:
        return pat_variants(p["sub"], enum_path)
    if k in ("tstruct", "struct") or (k == "expr" and "path" in p):
        d = p["path"].get("def", "")
        if enum_path is None or d.startswith(enum_path + "::"):
            return [last(d)]
    return []


def is_catch_all(p):
    k = p.get("p")
    if k == "wild":
        return True
    if k == "bind":
        return "sub" not in p or is_catch_all(p["sub"])
    if k == "ref":
        return is_catch_all(p["pat"])
    if k == "tuple":
        return all(is_catch_all(x) for x in p["pats"])
    if k == "or":
        return any(is_catch_all(x) for x in p["pats"])
    return False


# ---------------------------------------------------------------------------
# expression shapes

def local_of(e):
    """Local id of a (possibly &-wrapped / deref'd) path expression, else None."""
    e = unwrap(e)
    if isinstance(e, dict) and e.get("e") == "path":
        return e["res"].get("local")
    return None


def try_inner(e):
    """`expr?`  ->  expr  (None when e is not a `?` desugaring)."""
    e = unwrap(e)
    if isinstance(e, dict) and e.get("e") == "match" and str(e.get("src", "")).startswith("TryDesugar"):
        s = e["scrut"]
        if s.get("e") == "call" and s.get("args"):
            return s["args"][0]
    return None


def strip_try(e):
    while True:
        i = try_inner(e)
        if i is None:
            return unwrap(e)
        e = i


def for_loop(e):
    """`for PAT in ITER { BODY }` -> (iter_expr, pat, body) or None."""
    e = unwrap(e)
    if not (isinstance(e, dict) and e.get("e") == "match" and e.get("src") == "ForLoopDesugar"):
        return None
    scr = e["scrut"]
    it = scr["args"][0] if scr.get("e") == "call" and scr.get("args") else scr
    for n in walk(e["arms"][0]["body"], into_closures=False):
        if n.get("e") == "match" and n.get("src") == "ForLoopDesugar":
            for a in n["arms"]:
                vs = pat_variants(a["pat"])
                if vs == ["Some"]:
                    p = a["pat"]
                    sub = p["pats"][0] if p.get("p") == "tstruct" else p["fields"][0]["pat"]
                    return it, sub, a["body"]
    return None


_TRACE_CACHE = {}


def is_trace(n):
    """Macro-expanded tracing / logging code (ignored by span origin, appendix D)."""
    if not (isinstance(n, dict) and n.get("exp") and n.get("e") == "blockexpr"):
        return False
    k = id(n)
    r = _TRACE_CACHE.get(k)
    if r is None or r[0] is not n:
        r = (n, _is_trace(n))
        _TRACE_CACHE[k] = r
    return r[1]


def _is_trace(n):
    if not (isinstance(n, dict) and n.get("exp") and n.get("e") == "blockexpr"):
        return False
    st = n["b"].get("stmts") or []
    if not st or st[0].get("s") != "item":
        return False
    cnt = 0
    for x in walk(n):
        cnt += 1
        if cnt > 4000:
            break
        if x.get("e") == "path":
            d = x["res"].get("def", "")
            if "__CALLSITE" in d or d.startswith("tracing") or "::tracing_core::" in d or d.startswith("tracing_core"):
                return True
        elif x.get("e") in ("call", "mcall"):
            for c in callee_any(x):
                if c.startswith("tracing") or "__CALLSITE" in c or "assert_eventtag" in c:
                    return True
    return False


def refs_to(node, local, skip_exp=True):
    """Path nodes under `node` that reference local id `local` (macro-expanded debug code optionally skipped)."""
    out = []
    stack = [node]
    while stack:
        n = stack.pop()
        if isinstance(n, dict):
            if skip_exp and is_trace(n):
                continue
            if n.get("e") == "path" and n["res"].get("local") == local:
                out.append(n)
            for k, v in n.items():
                if k not in ("line", "exp") and isinstance(v, (dict, list)):
                    stack.append(v)
        elif isinstance(n, list):
            stack.extend(n)
    return out


def recv_root(e):
    """Root of a method-call chain: a.b().c().d()  ->  a"""
    e = unwrap(e)
    while isinstance(e, dict) and e.get("e") == "mcall":
        e = unwrap(e["recv"])
    return e


def chain_calls(e):
    """Method calls of a chain, outermost first."""
    out = []
    e = unwrap(e)
    while isinstance(e, dict) and e.get("e") == "mcall":
        out.append(e)
        e = unwrap(e["recv"])
    return out


def closure_of(e):
    e = unwrap(e)
    if isinstance(e, dict) and e.get("e") == "closure":
        return e
    return None


def param_local(fnrec, idx):
    p = fnrec["params"][idx]["pat"]
    return p.get("local") if p.get("p") == "bind" else None
