"""Binding provenance on HIR JSON (helper for C08-C14; not part of the shared core lib).

Every local of a body is traced back to the function parameters it was computed from.
Nothing here looks at the *names* of locals: a local is identified by its HIR id and its
meaning is where its value came from.

    P = Prov(fn_record)            # fn_record as returned by Facts.fn()
    P.labels(expr)                 # -> frozenset of 'p0','p1',.. (parameter indices) the value derives from
    P.labels(expr, args=False)     # "side" mode: a method call derives from its receiver only
    P.sources(local_id)            # the expressions bound to a local (let / if-let / match arm / closure param / assignment)

Destructuring is component-wise where the shapes line up: `let (a, b) = (x, y)`,
`match (x, y) { (P, Q) => .. }`, `let (a, b) = if c { (x1, y1) } else { (x2, y2) }`.
"""
from .hir import walk, unwrap, is_call_to, ends


def pat_binds(p, out=None):
    """All (local id, name) bound by a pattern."""
    if out is None:
        out = []
    if not isinstance(p, dict):
        return out
    k = p.get("p")
    if k == "bind":
        out.append((p["local"], p.get("name", "?")))
        if "sub" in p:
            pat_binds(p["sub"], out)
    elif k == "struct":
        for f in p.get("fields", []):
            pat_binds(f["pat"], out)
    elif k in ("tstruct", "tuple", "or", "slice"):
        for x in p.get("pats", []):
            pat_binds(x, out)
    elif k == "ref":
        pat_binds(p["pat"], out)
    return out


def tails(e):
    """The expressions an expression may evaluate to (through blocks, if/else, match arms)."""
    e = unwrap(e)
    if not isinstance(e, dict):
        return []
    k = e.get("e")
    if k == "blockexpr":
        b = e["b"]
        return tails(b["tail"]) if "tail" in b else []
    if k == "if" and "else" in e:
        return tails(e["then"]) + tails(e["else"])
    if k == "match" and e.get("src") == "Normal":
        out = []
        for a in e["arms"]:
            out.extend(tails(a["body"]))
        return out
    return [e]


class Prov:
    def __init__(self, fn):
        self.fn = fn
        self.param_of = {}      # local -> 'p<i>'
        self.src = {}           # local -> [expr]
        self.names = {}
        for i, p in enumerate(fn.get("params", [])):
            for (lid, nm) in pat_binds(p["pat"]):
                self.param_of[lid] = f"p{i}"
                self.names[lid] = nm
        self._collect(fn["body"])
        self._memo = {}

    # ---- collection ----------------------------------------------------------
    def _bind(self, pat, expr):
        if not isinstance(pat, dict):
            return
        k = pat.get("p")
        if k == "ref":
            return self._bind(pat["pat"], expr)
        if k == "tuple" and expr is not None:
            ts = tails(expr)
            if ts and all(t.get("e") == "tuple" and len(t["xs"]) == len(pat["pats"]) for t in ts):
                for t in ts:
                    for sub, x in zip(pat["pats"], t["xs"]):
                        self._bind(sub, x)
                return
        if k == "or":
            for x in pat["pats"]:
                self._bind(x, expr)
            return
        for (lid, nm) in pat_binds(pat):
            self.names[lid] = nm
            if expr is not None:
                self.src.setdefault(lid, []).append(expr)
            else:
                self.src.setdefault(lid, [])

    def _collect(self, body):
        for n in walk(body):
            if n.get("s") == "let":
                self._bind(n["pat"], n.get("init"))
            k = n.get("e")
            if k == "let":
                self._bind(n["pat"], n["init"])
            elif k == "match":
                for a in n["arms"]:
                    self._bind(a["pat"], n["scrut"])
            elif k == "assign":
                l = n["l"]
                while isinstance(l, dict) and l.get("e") == "wrap":
                    l = l["x"]
                # `*p = v` writes through a pointer, it does not rebind p
                if l.get("e") == "path" and "local" in l["res"]:
                    self.src.setdefault(l["res"]["local"], []).append(n["r"])
            elif k == "mcall":
                for a in n["args"]:
                    a = unwrap(a)
                    if a.get("e") == "closure":
                        for p in a.get("params", []):
                            self._bind(p.get("pat", p), n["recv"])
            elif k == "call":
                cl = [unwrap(a) for a in n["args"]]
                others = [a for a in cl if a.get("e") != "closure"]
                for a in cl:
                    if a.get("e") == "closure":
                        for p in a.get("params", []):
                            for o in others or [None]:
                                self._bind(p.get("pat", p), o)

    # ---- queries ---------------------------------------------------------------
    def sources(self, lid):
        return self.src.get(lid, [])

    def labels(self, e, args=True, _stack=None):
        """Parameter labels an expression's value derives from."""
        out = set()
        self._labels(e, args, out, _stack or set())
        return frozenset(out)

    def _labels(self, e, args, out, stack):
        if isinstance(e, list):
            for x in e:
                self._labels(x, args, out, stack)
            return
        if not isinstance(e, dict):
            return
        k = e.get("e")
        if k == "path":
            r = e["res"]
            if "local" in r:
                lid = r["local"]
                if lid in self.param_of:
                    out.add(self.param_of[lid])
                    return
                key = (lid, args)
                if key in self._memo:
                    out |= self._memo[key]
                    return
                if lid in stack:
                    return
                sub = set()
                for s in self.src.get(lid, []):
                    self._labels(s, args, sub, stack | {lid})
                if not stack:
                    self._memo[key] = frozenset(sub)
                out |= sub
            return
        if k == "mcall" and not args:
            self._labels(e["recv"], args, out, stack)
            return
        if k == "closure":
            self._labels(e.get("body"), args, out, stack)
            return
        for key, v in e.items():
            if key in ("line", "exp", "pat", "params"):
                continue
            if isinstance(v, (dict, list)):
                self._labels(v, args, out, stack)

    def local_roots(self, e, args=True):
        """All local ids the value of e derives from (transitively through bindings), including e's own locals."""
        seen = set()

        def go(x):
            if isinstance(x, list):
                for y in x:
                    go(y)
                return
            if not isinstance(x, dict):
                return
            k = x.get("e")
            if k == "path":
                r = x["res"]
                if "local" in r and r["local"] not in seen:
                    seen.add(r["local"])
                    for s_ in self.src.get(r["local"], []):
                        go(s_)
                return
            if k == "mcall" and not args:
                go(x["recv"])
                return
            if k == "closure":
                go(x.get("body"))
                return
            for key, v in x.items():
                if key in ("line", "exp", "pat", "params"):
                    continue
                if isinstance(v, (dict, list)):
                    go(v)
        go(e)
        return seen

    def local_of(self, e):
        e = unwrap(e)
        if isinstance(e, dict) and e.get("e") == "path" and "local" in e["res"]:
            return e["res"]["local"]
        return None

    def resolve(self, e, depth=4):
        """Follow a local to its unique initialiser (up to depth), else return e unwrapped."""
        e = unwrap(e)
        while depth > 0:
            lid = self.local_of(e)
            if lid is None or lid in self.param_of:
                break
            s = self.src.get(lid, [])
            if len(s) != 1:
                break
            e = unwrap(s[0])
            depth -= 1
        return e


def strip_try(e):
    """`inner?`  ->  inner   (match with TryDesugar over Try::branch(inner)); also strips `.await`-free wrappers."""
    e = unwrap(e)
    while isinstance(e, dict) and e.get("e") == "match" and "TryDesugar" in e.get("src", ""):
        s = unwrap(e["scrut"])
        if s.get("e") == "call" and s.get("args"):
            e = unwrap(s["args"][0])
        else:
            break
    return e


def real_stmts(block):
    """Statements of a block that come from user source (macro-expanded tracing etc. dropped)."""
    out = []
    for s in block.get("stmts", []):
        if s.get("s") == "item":
            continue
        x = s.get("x") if s.get("s") == "expr" else s.get("init")
        if s.get("s") == "expr" and isinstance(x, dict) and x.get("exp") and not _has_user_code(x):
            continue
        out.append(s)
    return out


def _has_user_code(e):
    """A macro-expanded node may still wrap user code (for-loops are desugared: the loop is `exp`, its body is not)."""
    for n in walk(e):
        if "e" in n and not n.get("exp") and n.get("e") not in ("lit", "path"):
            return True
    return False


def find_loop(fn):
    loops = [n for n in walk(fn["body"]) if n.get("e") == "match" and "ForLoopDesugar" in n.get("src", "")
             and is_call_to(unwrap(n["scrut"]), "IntoIterator::into_iter", "into_iter")]
    return loops


def loop_parts(loop):
    """(iterated expr, item pattern, body) of a desugared for-loop."""
    it = unwrap(loop["scrut"])["args"][0]
    for n in walk(loop["arms"][0]["body"]):
        if n.get("e") == "match" and "ForLoopDesugar" in n.get("src", "") and n is not loop:
            for a in n["arms"]:
                if a["pat"].get("p") in ("struct", "tstruct") and ends(a["pat"]["path"].get("def", ""), "core::option::Option::Some"):
                    pat = a["pat"]["fields"][0]["pat"] if a["pat"]["p"] == "struct" else a["pat"]["pats"][0]
                    return it, pat, a["body"]
    return it, None, None
