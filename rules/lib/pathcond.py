"""K3: path conditions of sink sites on structured HIR (DESIGN.md 3.2).

A *formula* is one of
    ("true",) ("false",)
    ("and", [f..]) ("or", [f..]) ("not", f)
    ("leaf", kind, payload)
leaf kinds:
    "expr"  payload = expression node (a boolean expression that is not &&,||,!)
    "let"   payload = (pat, init)           `if let pat = init` / let-else success
    "arm"   payload = (scrut, pat)          match arm selected
    "ok"    payload = expression node       `expr?` did not return early

site_conditions(fn_body, is_sink) -> [(sink_node, [formula...])], the formulas being
facts that hold whenever control reaches the sink:
  * polarity of every enclosing `if`, pattern of every enclosing `match` arm
    (plus the negation of the earlier arms),
  * for each earlier statement of every enclosing block: the negation of that statement's
    divergence condition (so `if c { return Err }` contributes not(c), `x?` contributes ok(x),
    let-else contributes the pattern),
  * closures are entered with the facts of their creation site (closures here are used as
    immediately-applied combinator arguments); a `return` inside a closure does not diverge
    the enclosing body.
implied(formulas, binds) -> the set of literals (polarity, leaf) that necessarily hold.
"""
from .hir import unwrap, ex_s, pat_s, walk, callee_of, tokens, has_token, ends, pat_norm

TRUE = ("true",)
FALSE = ("false",)


def f_and(fs):
    out = []
    for f in fs:
        if f == TRUE:
            continue
        if f == FALSE:
            return FALSE
        if f[0] == "and":
            out.extend(f[1])
        else:
            out.append(f)
    if not out:
        return TRUE
    if len(out) == 1:
        return out[0]
    return ("and", out)


def f_or(fs):
    out = []
    for f in fs:
        if f == FALSE:
            continue
        if f == TRUE:
            return TRUE
        if f[0] == "or":
            out.extend(f[1])
        else:
            out.append(f)
    if not out:
        return FALSE
    if len(out) == 1:
        return out[0]
    return ("or", out)


def f_not(f):
    if f == TRUE:
        return FALSE
    if f == FALSE:
        return TRUE
    if f[0] == "not":
        return f[1]
    return ("not", f)


def is_bool_lit(e, val=None):
    e = unwrap(e)
    if isinstance(e, dict) and e.get("e") == "lit" and e.get("lk") == "bool":
        return val is None or e["v"] == ("true" if val else "false")
    return False


def arm_formula(scrut, arm):
    f = ("leaf", "arm", (scrut, arm["pat"]))
    if "guard" in arm:
        f = f_and([f, cond(arm["guard"])])
    return f


def is_catch_all(p):
    return p.get("p") == "wild" or (p.get("p") == "bind" and "sub" not in p)



def _strip_pat(p):
    while isinstance(p, dict):
        k = p.get("p")
        if k == "ref":
            p = p["pat"]
        elif k == "bind" and "sub" in p:
            p = p["sub"]
        else:
            break
    return p


def _ctor_of(p):
    """(def-path, is_constructor) of a struct / tuple-struct / unit-variant pattern."""
    k = p.get("p")
    if k in ("struct", "tstruct"):
        return p["path"].get("def"), True
    if k == "expr" and "path" in p:
        kind = p["path"].get("kind", "")
        return p["path"].get("def"), ("Ctor" in kind or "Variant" in kind)
    return None, False


def pats_disjoint(p, q):
    """True only when no value can match both patterns (syntactic, conservative: False = may overlap)."""
    p, q = _strip_pat(p), _strip_pat(q)
    if not isinstance(p, dict) or not isinstance(q, dict):
        return False
    kp, kq = p.get("p"), q.get("p")
    if kp == "or":
        return all(pats_disjoint(x, q) for x in p["pats"])
    if kq == "or":
        return all(pats_disjoint(p, x) for x in q["pats"])
    if kp in ("wild", "bind") or kq in ("wild", "bind"):
        return False
    if kp == "tuple" and kq == "tuple":
        if len(p["pats"]) != len(q["pats"]):
            return False
        return any(pats_disjoint(a, b) for a, b in zip(p["pats"], q["pats"]))
    dp, cp = _ctor_of(p)
    dq, cq = _ctor_of(q)
    if dp and dq and cp and cq:
        if dp != dq:
            return True
        if kp == "tstruct" and kq == "tstruct" and len(p["pats"]) == len(q["pats"]):
            return any(pats_disjoint(a, b) for a, b in zip(p["pats"], q["pats"]))
        if kp == "struct" and kq == "struct":
            fq = {f["f"]: f["pat"] for f in q["fields"]}
            return any(f["f"] in fq and pats_disjoint(f["pat"], fq[f["f"]]) for f in p["fields"])
        return False
    if kp == "expr" and kq == "expr" and "v" in p and "v" in q and p.get("lk") == q.get("lk"):
        return p["v"] != q["v"]
    return False


def _earlier_arms_not_taken(scrut, arms, i):
    """Formulas ¬(arm_j taken) for the earlier arms j < i that may overlap arm i (first-match semantics)."""
    out = []
    for j in range(i):
        if pats_disjoint(arms[j]["pat"], arms[i]["pat"]):
            continue
        out.append(f_not(arm_formula(scrut, arms[j])))
    return out


def cond(e):
    """Formula of a boolean expression."""
    e = unwrap(e)
    k = e.get("e")
    if k == "un" and e.get("op") == "Not":
        return f_not(cond(e["x"]))
    if k == "bin" and e["op"] == "&&":
        return f_and([cond(e["l"]), cond(e["r"])])
    if k == "bin" and e["op"] == "||":
        return f_or([cond(e["l"]), cond(e["r"])])
    if k == "lit" and e.get("lk") == "bool":
        return TRUE if e["v"] == "true" else FALSE
    if k == "let":
        return ("leaf", "let", (e["pat"], e["init"]))
    if k == "match" and e.get("arms") and all(is_bool_lit(a["body"]) for a in e["arms"]):
        # matches!(x, P) and friends
        return arms_true_formula(e)
    if k == "if" and "else" in e and is_bool_lit(e["then"]) and is_bool_lit(e["else"]):
        c = cond(e["cond"])
        return c if is_bool_lit(e["then"], True) else f_not(c)
    return ("leaf", "expr", e)


def arms_true_formula(m):
    fs = []
    arms = m["arms"]
    for i, a in enumerate(arms):
        earlier = _earlier_arms_not_taken(m["scrut"], arms, i)
        if is_catch_all(a["pat"]) and "guard" not in a:
            me = f_and(earlier)
        else:
            me = f_and([arm_formula(m["scrut"], a)] + earlier)
        if is_bool_lit(a["body"], True):
            fs.append(me)
    return f_or(fs)


# ---------------------------------------------------------------------------
# divergence

def div(e):
    """Formula under which evaluating `e` does NOT complete normally (returns, breaks, `?` fails)."""
    if isinstance(e, list):
        return f_or([div(x) for x in e])
    if not isinstance(e, dict):
        return FALSE
    if "s" in e:
        return div_stmt(e)
    k = e.get("e")
    if k in ("ret", "break", "continue"):
        return TRUE
    if k == "closure":
        return FALSE
    if k == "loop":
        return FALSE
    if k == "block":
        return f_or([div_stmt(s) for s in e["stmts"]] + ([div(e["tail"])] if "tail" in e else []))
    if k == "blockexpr":
        return div(e["b"])
    if k == "if":
        c = cond(e["cond"])
        parts = [div_cond(e["cond"]), f_and([c, div(e["then"])])]
        if "else" in e:
            parts.append(f_and([f_not(c), div(e["else"])]))
        return f_or(parts)
    if k == "match":
        src = e.get("src", "")
        if "TryDesugar" in src:
            # `inner?` : scrut is `Try::branch(inner)`
            inner = try_inner(e)
            return f_or([div(inner), f_not(("leaf", "ok", inner))])
        if "AwaitDesugar" in src:
            return div(e["scrut"])
        parts = [div(e["scrut"])]
        arms = e["arms"]
        for i, a in enumerate(arms):
            d = div(a["body"])
            if "guard" in a:
                d = f_or([d, div_cond(a["guard"])])
            if d != FALSE:
                earlier = _earlier_arms_not_taken(e["scrut"], arms, i)
                if is_catch_all(a["pat"]) and "guard" not in a and i > 0:
                    me = f_and(earlier)
                else:
                    me = f_and([arm_formula(e["scrut"], a)] + earlier)
                parts.append(f_and([me, d]))
        return f_or(parts)
    if k == "call" and is_never_call(e):
        return TRUE
    # generic: any sub-expression may diverge (args containing `?`)
    parts = []
    for key, v in e.items():
        if key in ("line", "exp"):
            continue
        if isinstance(v, dict):
            if "p" in v and "e" not in v:
                continue
            parts.append(div(v))
        elif isinstance(v, list):
            for x in v:
                if isinstance(x, dict) and ("e" in x or "s" in x):
                    parts.append(div(x))
                elif isinstance(x, dict) and "x" in x and "f" in x:
                    parts.append(div(x["x"]))      # struct field initialisers
    return f_or(parts)


def is_never_call(e):
    c = callee_of(e)
    return any(ends(c, s) for s in ("core::panicking::panic", "core::panicking::panic_fmt",
                                    "std::rt::begin_panic", "core::panicking::unreachable_display",
                                    "std::process::exit", "core::panicking::panic_display"))


def div_cond(c):
    """Divergence hidden inside a condition expression (e.g. `if foo()? {`)."""
    return div(c) if any(n.get("e") in ("ret", "match") for n in walk(c, into_closures=False)) else FALSE


def try_inner(m):
    """The operand of a `?` match: scrut = call Try::branch(inner)."""
    s = unwrap(m["scrut"])
    if s.get("e") == "call" and s.get("args"):
        return s["args"][0]
    return s


def div_stmt(s):
    k = s.get("s")
    if k == "let":
        parts = []
        if "init" in s:
            parts.append(div(s["init"]))
        if "else" in s:
            parts.append(f_not(("leaf", "let", (s["pat"], s.get("init", {})))))
        return f_or(parts)
    if k == "expr":
        return div(s["x"])
    return FALSE


# ---------------------------------------------------------------------------
# site conditions

def site_conditions(root, is_sink):
    out = []
    _visit(root, is_sink, [], out)
    return out


def _visit(node, is_sink, conds, out):
    if isinstance(node, list):
        for n in node:
            _visit(n, is_sink, conds, out)
        return
    if not isinstance(node, dict):
        return
    if "e" in node and is_sink(node):
        out.append((node, list(conds)))
    k = node.get("e")
    if k == "if":
        c = node["cond"]
        _visit(c, is_sink, conds, out)
        f = cond(c)
        dc = div_cond(c)
        if dc != FALSE:
            conds = conds + [f_not(dc)]     # the condition was evaluated completely (`if f()? {..}`)
        _visit(node["then"], is_sink, conds + [f], out)
        if "else" in node:
            _visit(node["else"], is_sink, conds + [f_not(f)], out)
        return
    if k == "match":
        src = node.get("src", "")
        _visit(node["scrut"], is_sink, conds, out)
        if "TryDesugar" in src or "AwaitDesugar" in src:
            return
        ds = div(node["scrut"])
        if ds != FALSE:
            conds = conds + [f_not(ds)]     # the scrutinee was evaluated completely (`match f()? {..}`)
        arms = node["arms"]
        for i, a in enumerate(arms):
            earlier = _earlier_arms_not_taken(node["scrut"], arms, i)
            if is_catch_all(a["pat"]) and "guard" not in a:
                extra = earlier
            else:
                extra = [arm_formula(node["scrut"], a)] + earlier
            if "guard" in a:
                _visit(a["guard"], is_sink, conds + [("leaf", "arm", (node["scrut"], a["pat"]))] + earlier, out)
            _visit(a["body"], is_sink, conds + extra, out)
        return
    if k == "blockexpr":
        return _visit(node["b"], is_sink, conds, out)
    if k == "block":
        cur = list(conds)
        for s in node["stmts"]:
            sk = s.get("s")
            if sk == "let":
                if "init" in s:
                    _visit(s["init"], is_sink, cur, out)
                if "else" in s:
                    _visit(s["else"], is_sink, cur + [f_not(("leaf", "let", (s["pat"], s.get("init", {}))))], out)
            elif sk == "expr":
                _visit(s["x"], is_sink, cur, out)
            d = div_stmt(s)
            if d != FALSE:
                cur = cur + [f_not(d)]
        if "tail" in node:
            _visit(node["tail"], is_sink, cur, out)
        return
    if k == "bin" and node["op"] in ("&&", "||"):
        _visit(node["l"], is_sink, conds, out)
        f = cond(node["l"])
        _visit(node["r"], is_sink, conds + [f if node["op"] == "&&" else f_not(f)], out)
        return
    for key, v in node.items():
        if key in ("line", "exp"):
            continue
        if isinstance(v, (dict, list)):
            _visit(v, is_sink, conds, out)


def _could_overlap(prev_f, me_f):
    # negations of earlier, more specific arms are only informative for catch-alls;
    # for explicit patterns they are noise. Keep guards' negations (same pattern, guard failed).
    return prev_f[0] == "and"


# ---------------------------------------------------------------------------
# implied literals

def leaf_key(leaf):
    _, kind, payload = leaf
    if kind == "expr":
        return "expr:" + ex_s(payload)
    if kind == "ok":
        return "ok:" + ex_s(payload)
    if kind == "let":
        return "let:" + pat_s(payload[0]) + "=" + ex_s(payload[1])
    if kind == "arm":
        return "arm:" + ex_s(payload[0]) + "~" + pat_s(payload[1])
    return "?"


def collect_binds(fn_body):
    """local id -> initialiser for immutable simple `let x = init;` bindings (used to
    substitute pre-computed guards)."""
    binds = {}
    for n in walk(fn_body):
        if n.get("s") == "let" and "init" in n and "else" not in n:
            p = n["pat"]
            if p.get("p") == "bind" and not p.get("mut") and "sub" not in p:
                binds[p["local"]] = n["init"]
    return binds


def implied(formulas, binds=None, depth=3):
    """Set of (polarity, leaf) literals that hold whenever all `formulas` hold.
    Returns dict key -> (polarity, leaf)."""
    res = {}
    for f in formulas:
        for (pol, leaf) in _implied(f, True, binds or {}, depth):
            res[(pol, leaf_key(leaf))] = (pol, leaf)
    return res


def _implied(f, pol, binds, depth):
    t = f[0]
    if t in ("true", "false"):
        return []
    if t == "not":
        return _implied(f[1], not pol, binds, depth)
    if (t == "and" and pol) or (t == "or" and not pol):
        out = []
        for g in f[1]:
            out.extend(_implied(g, pol, binds, depth))
        return out
    if t in ("and", "or"):
        # disjunction: literals common to every branch
        sets = []
        for g in f[1]:
            sets.append({(p, leaf_key(l)): (p, l) for (p, l) in _implied(g, pol, binds, depth)})
        if not sets:
            return []
        common = set(sets[0].keys())
        for s in sets[1:]:
            common &= set(s.keys())
        return [sets[0][k] for k in common]
    if t == "leaf":
        out = [(pol, f)]
        kind, payload = f[1], f[2]
        if kind == "expr" and depth > 0:
            e = unwrap(payload)
            if e.get("e") == "path" and "local" in e["res"] and e["res"]["local"] in binds:
                out.extend(_implied(cond(binds[e["res"]["local"]]), pol, binds, depth - 1))
        if kind in ("let", "arm") and depth > 0:
            # `let Some(x) = local` / `match local {..}` where local was bound from an initialiser:
            # add the same literal over the initialiser
            idx = 1 if kind == "let" else 0
            e = unwrap(payload[idx])
            if e.get("e") == "path" and "local" in e["res"] and e["res"]["local"] in binds:
                init = binds[e["res"]["local"]]
                np = (payload[0], init) if kind == "let" else (init, payload[1])
                out.extend(_implied(("leaf", kind, np), pol, binds, depth - 1))
        return out
    return []


# ---------------------------------------------------------------------------
# predicates over literals

def leaf_nodes(leaf):
    _, kind, payload = leaf
    if kind in ("expr", "ok"):
        return [payload]
    if kind == "let":
        return [payload[1], payload[0]]
    if kind == "arm":
        return [payload[0], payload[1]]
    return []


def leaf_tokens(leaf, into_closures=True):
    s = set()
    for n in leaf_nodes(leaf):
        s |= tokens(n, into_closures)
    return s


def lit_has(lits, pol, kind, *suffixes, leaf_kind=None):
    """Some implied literal of polarity `pol` mentions token kind:suffix."""
    for (p, leaf) in lits.values():
        if p != pol:
            continue
        if leaf_kind and leaf[1] != leaf_kind:
            continue
        if has_token(leaf_tokens(leaf), kind, *suffixes):
            return True
    return False


def lits_with(lits, pol, kind, *suffixes):
    out = []
    for (p, leaf) in lits.values():
        if p == pol and has_token(leaf_tokens(leaf), kind, *suffixes):
            out.append(leaf)
    return out


def render(lits):
    return sorted(("" if p else "NOT ") + k for (p, k) in lits.keys())


def arm_lit(lits, *variant_suffixes, pol=True):
    """An implied arm/let literal whose pattern names one of the variants."""
    for (p, leaf) in lits.values():
        if p != pol or leaf[1] not in ("arm", "let"):
            continue
        pat = leaf[2][1] if leaf[1] == "arm" else leaf[2][0]
        if has_token(tokens(pat), "def", *variant_suffixes):
            return leaf
    return None


# ---------------------------------------------------------------------------
# blocked conjunctions: guards of the form `if a && b { return }` / `if let Some(e) = x { if now >= e { return } }`
# contribute not(a ∧ b), which implies no single literal. blocked() lists, for every fact, the
# conjunctions of literals that are known to be FALSE at the site (DNF of the negated fact, bounded).

def _dnf(f, pol, limit=64):
    """DNF of (f if pol else not f) as a list of conjunctions; each conjunction is a list of (pol, leaf)."""
    t = f[0]
    if t == "true":
        return [[]] if pol else []
    if t == "false":
        return [] if pol else [[]]
    if t == "not":
        return _dnf(f[1], not pol, limit)
    if t == "leaf":
        return [[(pol, f)]]
    conj = (t == "and") == pol
    parts = [_dnf(g, pol, limit) for g in f[1]]
    if conj:
        acc = [[]]
        for p in parts:
            acc = [a + b for a in acc for b in p]
            if len(acc) > limit:
                return acc[:limit]
        return acc
    out = []
    for p in parts:
        out.extend(p)
    return out[:limit]


def blocked(formulas):
    """[[(pol, leaf), ...], ...]: each inner list is a conjunction known to be false at the site."""
    out = []
    for f in formulas:
        for conj in _dnf(f, False):
            if conj:
                out.append(conj)
    return out


def render_blocked(bl):
    return [" AND ".join(("" if p else "NOT ") + leaf_key(l) for (p, l) in c) for c in bl]
