"""In-memory settings are refreshed after every kind of write (K2/K4 sibling rule over the ChangeFlag blocks).

kanidm keeps server-wide settings (schema, access controls, system config incl. the password badlist, key material,
OAuth2 clients, ...) in memory and refreshes them at commit from `changed_flags`. Every write path decides which flags
to raise with a list of blocks

    if !self.changed_flags.contains(ChangeFlag::X) && <entries touched look like an X entry> {
        self.changed_flags.insert(ChangeFlag::X)
    }

The replication consumer additionally reloads some settings explicitly. For a setting X this module decides:
  * guard/insert agreement: a block guarded by X inserts X (a block that tests X and raises Y refreshes the wrong thing);
  * coverage: each write path (create, modify, batch_modify, delete, incremental replication, refresh replication) can
    raise X — or, for replication, reloads X explicitly after the entries were applied;
  * the condition of the replication block uses only class / uuid tests on the applied entries (predicates over the
    entry's change ids are meaningless there: replicated entries keep the supplier's change ids);
  * `reload()` turns flag X into the matching reload_* call.
"""
from .hir import walk, unwrap, def_of, tokens, has_token, callee_any, is_call_to, all_calls, short, ends

LIB = "kanidmd_lib"
FLAG = "kanidmd_lib::server::ChangeFlag::"
QSW = "kanidmd_lib::server::"

WRITE_PATHS = {
    "create": r"^kanidmd_lib::server::create::<impl server::QueryServerWriteTransaction<'_>>::create$",
    "modify": r"^kanidmd_lib::server::modify::<impl server::QueryServerWriteTransaction<'_>>::modify_apply$",
    "batch_modify": r"^kanidmd_lib::server::batch_modify::<impl server::QueryServerWriteTransaction<'_>>::batch_modify$",
    "delete": r"^kanidmd_lib::server::delete::<impl server::QueryServerWriteTransaction<'_>>::delete$",
    "repl_incremental": r"^kanidmd_lib::repl::consumer::<impl server::QueryServerWriteTransaction<'_>>::consumer_incremental_apply_entries$",
}
REPL_INC_DRIVER = r"^kanidmd_lib::repl::consumer::<impl server::QueryServerWriteTransaction<'_>>::consumer_apply_changes_v1$"
REPL_REFRESH = r"^kanidmd_lib::repl::consumer::<impl server::QueryServerWriteTransaction<'_>>::consumer_apply_refresh_v1$"
RELOAD = "kanidmd_lib::server::QueryServerWriteTransaction::<'a>::reload"

# predicates a flag condition may use on the replication path (entry shape only)
SHAPE_CALLS = ("attribute_equality", "attribute_pres", "iter", "any", "chain", "map", "as_ref", "into", "get_uuid", "zip", "into_iter",
               "contains", "not", "deref", "eq", "ne", "filter", "all", "borrow", "from", "clone", "to_partialvalue", "to_value")


def _flags_in(e):
    """names of the ChangeFlag constants an expression mentions (bitflags associated consts: `..<impl server::ChangeFlag>::NAME`)"""
    out = set()
    for t in tokens(e):
        if t.startswith("def:") and "impl server::ChangeFlag>::" in t:
            name = t.rsplit("::", 1)[1]
            if name.isupper() or "_" in name and name.upper() == name:
                out.add(name)
    return sorted(out)


def flag_blocks(body):
    """[{guard:[flags], insert:[flags], cond: expr, line}] for every `if <cond> { changed_flags.insert(..) }`"""
    out = []
    for n in walk(body):
        if n.get("e") != "if":
            continue
        ins = [c for c in walk(n["then"], into_closures=False)
               if c.get("e") == "mcall" and c.get("name") == "insert" and "ChangeFlag" in str(c.get("recv_ty", ""))]
        if not ins:
            continue
        guard = []
        for c in walk(n["cond"]):
            if c.get("e") == "mcall" and c.get("name") in ("contains", "intersects") and "ChangeFlag" in str(c.get("recv_ty", "")):
                guard.extend(_flags_in({"a": c.get("args", [])}))
        inserted = []
        for c in ins:
            inserted.extend(_flags_in({"a": c.get("args", [])}))
        out.append({"guard": sorted(set(guard)), "insert": sorted(set(inserted)), "cond": n["cond"], "line": n.get("line")})
    return out


def unconditional_inserts(body):
    flags = []
    for c in walk(body):
        if c.get("e") == "mcall" and c.get("name") == "insert" and "ChangeFlag" in str(c.get("recv_ty", "")):
            flags.extend(_flags_in({"a": c.get("args", [])}))
    return sorted(set(flags))


def check_setting(ctx, rule, flag, reload_fn, why, marker_tokens):
    """marker_tokens: def-path suffixes that identify an X entry in a block's condition (class or uuid constants)."""
    F = ctx.facts
    # reload() wires the flag to its reload function
    rl = ctx.fn(LIB, RELOAD)
    wired = False
    for n in walk(rl["body"]):
        if n.get("e") == "if" and flag in _flags_in(n["cond"]) and any(is_call_to(c, reload_fn) for c in all_calls(n["then"])):
            wired = True
    ctx.check(wired, rule, rl["fn"], f"reload-wires:{flag}", f"ChangeFlag::{flag} => {reload_fn}()",
              f"QueryServerWriteTransaction::reload no longer calls {reload_fn}() when ChangeFlag::{flag} is set: {why}", file=rl["file"], line=rl["line"])
    for path, rx in WRITE_PATHS.items():
        f = ctx.fn1(LIB, rx)
        blocks = flag_blocks(f["body"])
        mine = [b for b in blocks if flag in b["guard"] or flag in b["insert"]]
        raised = [b for b in mine if flag in b["insert"]]
        explicit = False
        if path == "repl_incremental":
            drv = ctx.fn1(LIB, REPL_INC_DRIVER)
            explicit = any(is_call_to(c, reload_fn) for c in all_calls(drv["body"]))
        for b in mine:
            ctx.check(flag not in b["guard"] or flag in b["insert"], rule, f["fn"], f"{path}:guard-matches-insert:{flag}",
                      f"block guarded by {flag} raises {flag}",
                      f"{short(f['fn'], 1)}: the block that tests ChangeFlag::{flag} raises {b['insert']} instead — an entry of this kind changed by this path "
                      f"refreshes the wrong setting and {why}", file=f["file"], line=b["line"])
        ok = bool(raised) or explicit
        ctx.check(ok, rule, f["fn"], f"{path}:refreshes:{flag}",
                  f"{'raises the flag' if raised else 'reloads explicitly'}",
                  f"a change applied through {short(f['fn'], 1)} neither raises ChangeFlag::{flag} nor (replication) reloads it explicitly: {why}",
                  file=f["file"], line=f["line"])
        for b in raised:
            t = tokens(b["cond"])
            ctx.check(any(has_token(t, "def", m) for m in marker_tokens), rule, f["fn"], f"{path}:condition-identifies:{flag}",
                      "the condition tests the entry kind",
                      f"{short(f['fn'], 1)}: the ChangeFlag::{flag} block no longer tests for {marker_tokens}", file=f["file"], line=b["line"])
            if path == "repl_incremental":
                odd = sorted({short(c, 1) for n in walk(b["cond"]) if n.get("e") in ("call", "mcall") and not n.get("exp")
                              for c in [next(iter(callee_any(n)), "")] if c and short(c, 1) not in SHAPE_CALLS
                              and not (n.get("name") in SHAPE_CALLS)})
                ctx.check(not odd, rule, f["fn"], f"{path}:shape-only-condition:{flag}", "class / uuid tests only",
                          f"the replication consumer raises ChangeFlag::{flag} only when {odd} also holds. Replicated entries keep the supplier's change ids and "
                          f"attribute states, so predicates beyond the entry's class / uuid (e.g. 'changed since my cid') are false for every replicated change: "
                          f"the flag is never raised and {why}", file=f["file"], line=b["line"])
    rf = ctx.fn1(LIB, REPL_REFRESH)
    ok = flag in unconditional_inserts(rf["body"]) or any(is_call_to(c, reload_fn) for c in all_calls(rf["body"]))
    ctx.check(ok, rule, rf["fn"], f"repl_refresh:refreshes:{flag}", "refresh raises / reloads it",
              f"a replication refresh neither raises ChangeFlag::{flag} nor reloads it: {why}", file=rf["file"], line=rf["line"])
