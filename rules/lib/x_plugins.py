"""K2 pipeline engine shared by C15-C22 and C36 (DESIGN.md 3.2 K2, section 5 "C16 ... C22", appendix E.1).

Two layers:

 * `Flow` - a small abstract interpreter over the structured HIR of one function. It follows the
   evaluation order and tracks, for a configurable set of *events* (calls recognised by a predicate),
       must : events that were executed AND whose result was propagated successfully (`?`) on every path reaching the point,
       may  : events that were possibly executed before the point.
   It understands `?`, `.map_err/.inspect_err/.map/...` result adapters, early returns, if/match joins, loops
   (body 0..n times), closures (executed conditionally, at or after their creation point), `let r = call(); ... r?`,
   and inlines same-crate helper functions that (transitively) contain events, so splitting a function into a
   helper that is still called on every path does not change the result. Anything it does not understand makes
   `must` smaller (never larger), i.e. it fails closed.

 * `Pipelines` - the plugin registries `Plugins::run_*` (ordered list of hook calls resolved to the impl's *own*
   method; an inherited trait default counts as absent), the seven write operations (matching run_pre_* before
   and run_post_* after the backend write on every success path) and the requirement helpers used by the Cxx
   modules ("contains", "before", "first", "last", "siblings agree").  Requirements never mention positions or
   counts, so adding a plugin does not alarm.
"""
import re

from .hir import walk, unwrap, callee_of, callee_any, ends, short, def_of

LIB = "kanidmd_lib"
QSW = r"<impl server::QueryServerWriteTransaction<'_>>"

# Result adapters that keep an `Err` an `Err` (so `x.adapter(..)?` succeeding implies x succeeded).
ERR_PRESERVING = ("core::result::Result::<T, E>::map_err", "core::result::Result::<T, E>::inspect_err",
                  "core::result::Result::<T, E>::map", "core::result::Result::<T, E>::inspect",
                  "core::result::Result::<T, E>::and_then")
AND_THEN = "core::result::Result::<T, E>::and_then"
NEVER = ("core::panicking::panic", "core::panicking::panic_fmt", "std::rt::begin_panic",
         "core::panicking::unreachable_display", "std::process::exit", "core::panicking::panic_display",
         "core::panicking::panic_explicit")


class St:
    __slots__ = ("must", "may")

    def __init__(self, must=frozenset(), may=frozenset()):
        self.must = frozenset(must)
        self.may = frozenset(may)

    def add_may(self, evs):
        return St(self.must, self.may | frozenset(evs))

    def add_must(self, evs):
        return St(self.must | frozenset(evs), self.may | frozenset(evs))

    def __repr__(self):
        return f"St(must={sorted(self.must)}, may={sorted(self.may)})"


def join(a, b):
    """Join of two states; None = unreachable."""
    if a is None:
        return b
    if b is None:
        return a
    return St(a.must & b.must, a.may | b.may)


class Val:
    """Abstract value: `carries` = events whose success is implied when this value is `Ok`,
    `ok` = 'ok' | 'err' | None (syntactically an Ok(..) / Err(..) constructor), `ok_state` = state to continue
    with when an inlined call's result is Ok."""
    __slots__ = ("carries", "ok", "ok_state", "has_ok_state", "sites")

    def __init__(self, carries=frozenset(), ok=None, ok_state=None, has_ok_state=False, sites=()):
        self.carries = frozenset(carries)
        self.sites = tuple(sites)       # Site objects whose result this value is (marked `propagated` on `?` / tail return)
        self.ok = ok
        self.ok_state = ok_state
        self.has_ok_state = has_ok_state


PLAIN = Val()


def join_val(a, b):
    if a is None:
        return b
    if b is None:
        return a
    if a.has_ok_state or b.has_ok_state:
        return PLAIN
    return Val(a.carries & b.carries, a.ok if a.ok == b.ok else None, sites=a.sites + b.sites)


class Site:
    """One event call: kind (event name), node, state just before the call executes, inline chain, order index."""
    __slots__ = ("ev", "node", "st", "chain", "idx", "fn", "in_closure", "in_loop", "propagated")

    def __init__(self, ev, node, st, chain, idx, fn, in_closure, in_loop):
        self.ev, self.node, self.st, self.chain, self.idx, self.fn = ev, node, st, chain, idx, fn
        self.in_closure, self.in_loop = in_closure, in_loop
        self.propagated = False         # the call's Result reaches a `?` or is returned (through Err-preserving adapters only)


class Exit:
    __slots__ = ("kind", "node", "st", "fn")

    def __init__(self, kind, node, st, fn):
        self.kind, self.node, self.st, self.fn = kind, node, st, fn   # kind: 'ok' | 'err' | 'unknown'


class _Frame:
    def __init__(self, fn, chain, closure_depth=0):
        self.fn = fn
        self.chain = chain
        self.env = {}            # local id -> Val
        self.exits = []          # Exit
        self.loops = []          # stack of lists collecting break states
        self.closure_depth = closure_depth


class Flow:
    """events: {name: predicate(call_node) -> bool}.  inline(callee_defpath) -> fn record or None."""

    MAX_DEPTH = 3

    def __init__(self, facts, crate, events, no_inline=(), relevant=None):
        self.F = facts
        self.crate = crate
        self.events = events
        self.no_inline = set(no_inline)
        self.sites = {}          # (chain, id(node)) -> Site
        self.order = 0
        self.problems = []       # shapes not understood (strings)
        self._loopdepth = 0
        self._relevant = relevant if relevant is not None else {}

    # ---- which helpers are worth inlining -----------------------------------------------------
    def event_of(self, n):
        if callable(self.events):
            return self.events(n)
        for name, pred in self.events.items():
            if pred(n):
                return name
        return None

    def _contains_events(self, fn_name, depth, seen):
        """True when the body of fn_name contains an event call, directly or through helpers (bounded)."""
        key = (fn_name, depth)
        if key in self._relevant:
            return self._relevant[key]
        if fn_name in seen or fn_name in self.no_inline:
            return False
        d = self.F.fn(self.crate, fn_name)
        if d is None:
            self._relevant[key] = False
            return False
        res = False
        seen = seen | {fn_name}
        for n in walk(d["body"]):
            if n.get("e") in ("call", "mcall"):
                if self.event_of(n):
                    res = True
                    break
                c = callee_of(n)
                if depth > 0 and c.startswith(self.crate + "::") and c not in self.no_inline and c != fn_name \
                        and self._inlinable_name(c) and self._contains_events(c, depth - 1, seen):
                    res = True
                    break
        self._relevant[key] = res
        return res

    def _inlinable_name(self, c):
        # helpers of the write transaction, of the plugin registry and plain functions of the plugin modules
        return ("QueryServerWriteTransaction" in c or "::plugins::" in c or "::repl::consumer::" in c
                or c.startswith(self.crate + "::server::"))

    # ---- entry point --------------------------------------------------------------------------
    def run(self, fn_rec, start=None):
        fr = _Frame(fn_rec["fn"], (fn_rec["fn"],))
        s = start or St()
        body = fn_rec["body"]
        body = self._strip_async(body)
        self._tail(body, s, fr)
        return fr.exits

    def _strip_async(self, body):
        b = unwrap(body)
        if isinstance(b, dict) and b.get("e") == "closure" and "Coroutine" in str(b.get("kind", "")):
            return b["body"]
        return body

    # ---- tail position: the value is the function's (or closure's) result -----------------------
    def _tail(self, e, s, fr):
        """Evaluate `e` in return position, registering exits."""
        if s is None or not isinstance(e, dict):
            return
        k = e.get("e")
        if k == "blockexpr":
            return self._tail(e["b"], s, fr)
        if k == "block":
            s = self._stmts(e["stmts"], s, fr)
            if s is None:
                return
            if "tail" in e:
                return self._tail(e["tail"], s, fr)
            fr.exits.append(Exit("unknown", e, s, fr.fn))
            return
        if k == "if":
            s1 = self._cond(e["cond"], s, fr)
            if s1 is None:
                return
            if not self._is_false(e["cond"]):
                self._tail(e["then"], s1, fr)
            if "else" in e:
                if not self._is_true(e["cond"]):
                    self._tail(e["else"], s1, fr)
            else:
                fr.exits.append(Exit("unknown", e, s1, fr.fn))
            return
        if k == "match" and e.get("src") == "Normal":
            s1, _ = self._ev(e["scrut"], s, fr)
            if s1 is None:
                return
            for a in e["arms"]:
                sa = s1
                if "guard" in a:
                    sa = self._cond(a["guard"], sa, fr)
                self._tail(a["body"], sa, fr)
            return
        if k == "ret":
            self._ev(e, s, fr)
            return
        s1, v = self._ev(e, s, fr)
        if s1 is None:
            return
        self._exit(e, s1, v, fr)

    def _exit(self, node, s, v, fr):
        if v.has_ok_state:
            # result of an inlined helper returned as is: success exits are the helper's success exits
            if v.ok_state is not None:
                fr.exits.append(Exit("unknown", node, v.ok_state, fr.fn))
            return
        if v.ok == "err":
            fr.exits.append(Exit("err", node, s, fr.fn))
            return
        for st in v.sites:
            st.propagated = True
        fr.exits.append(Exit("ok" if v.ok == "ok" else "unknown", node, s.add_must(v.carries), fr.fn))

    # ---- statements ------------------------------------------------------------------------------
    def _stmts(self, stmts, s, fr):
        for st in stmts:
            if s is None:
                return None
            k = st.get("s")
            if k == "let":
                v = PLAIN
                if "init" in st:
                    s, v = self._ev(st["init"], s, fr)
                    if s is None:
                        return None
                if "else" in st:
                    # the else block diverges; evaluate it for its exits
                    self._ev(st["else"], s, fr)
                p = st["pat"]
                if p.get("p") == "bind" and "sub" not in p:
                    fr.env[p["local"]] = v
            elif k == "expr":
                s, _ = self._ev(st["x"], s, fr)
        return s

    # ---- conditions --------------------------------------------------------------------------------
    def _is_false(self, c):
        c = unwrap(c)
        return isinstance(c, dict) and c.get("e") == "lit" and c.get("lk") == "bool" and c.get("v") == "false"

    def _is_true(self, c):
        c = unwrap(c)
        return isinstance(c, dict) and c.get("e") == "lit" and c.get("lk") == "bool" and c.get("v") == "true"

    def _cond(self, c, s, fr):
        s, _ = self._ev(c, s, fr)
        return s

    # ---- expressions ---------------------------------------------------------------------------------
    def _seq(self, xs, s, fr):
        for x in xs:
            if s is None:
                return None
            if isinstance(x, dict) and "e" in x:
                s, _ = self._ev(x, s, fr)
        return s

    def _ev(self, e, s, fr):
        """-> (state after normal completion | None, Val)"""
        if s is None:
            return None, PLAIN
        if not isinstance(e, dict) or "e" not in e:
            return s, PLAIN
        k = e["e"]
        if k in ("lit", "continue", "other"):
            if k == "continue":
                return None, PLAIN
            return s, PLAIN
        if k == "path":
            r = e["res"]
            if "local" in r and r["local"] in fr.env:
                return s, fr.env[r["local"]]
            return s, PLAIN
        if k == "wrap":
            s, v = self._ev(e["x"], s, fr)
            return s, (v if not e.get("cast") else PLAIN)
        if k in ("un", "field", "yield"):
            s, _ = self._ev(e["x"], s, fr)
            return s, PLAIN
        if k == "blockexpr":
            return self._ev(e["b"], s, fr)
        if k == "block":
            s = self._stmts(e["stmts"], s, fr)
            if s is None:
                return None, PLAIN
            if "tail" in e:
                return self._ev(e["tail"], s, fr)
            return s, PLAIN
        if k == "bin":
            s1, _ = self._ev(e["l"], s, fr)
            if e["op"] in ("&&", "||"):
                s2, _ = self._ev(e["r"], s1, fr)
                return join(s1, s2), PLAIN
            s2, _ = self._ev(e["r"], s1, fr)
            return s2, PLAIN
        if k in ("assign", "assignop"):
            s, v = self._ev(e["r"], s, fr)
            s, _ = self._ev(e["l"], s, fr)
            l = unwrap(e["l"])
            if k == "assign" and isinstance(l, dict) and l.get("e") == "path" and "local" in l["res"]:
                fr.env[l["res"]["local"]] = PLAIN      # re-assigned local: forget what it carried
            return s, PLAIN
        if k == "index":
            s, _ = self._ev(e["x"], s, fr)
            s, _ = self._ev(e["i"], s, fr)
            return s, PLAIN
        if k in ("tuple", "array"):
            return self._seq(e["xs"], s, fr), PLAIN
        if k == "struct":
            s = self._seq([f["x"] for f in e["fields"]], s, fr)
            if s is not None and "base" in e:
                s, _ = self._ev(e["base"], s, fr)
            return s, PLAIN
        if k == "let":
            s, _ = self._ev(e["init"], s, fr)
            return s, PLAIN
        if k == "ret":
            v = PLAIN
            if "x" in e:
                s, v = self._ev(e["x"], s, fr)
            if s is not None:
                self._exit(e.get("x", e), s, v, fr)
            return None, PLAIN
        if k == "break":
            if "x" in e:
                s, _ = self._ev(e["x"], s, fr)
            if s is not None and fr.loops:
                fr.loops[-1].append(s)
            return None, PLAIN
        if k == "if":
            s1 = self._cond(e["cond"], s, fr)
            if s1 is None:
                return None, PLAIN
            st, vt = (None, None)
            if not self._is_false(e["cond"]):
                st, vt = self._ev(e["then"], s1, fr)
            if "else" in e:
                se, ve = self._ev(e["else"], s1, fr) if not self._is_true(e["cond"]) else (None, None)
            else:
                se, ve = s1, PLAIN
            out = join(st, se)
            v = join_val(vt if st is not None else None, ve if se is not None else None) or PLAIN
            return out, v
        if k == "match":
            return self._match(e, s, fr)
        if k == "loop":
            return self._loop(e, s, fr)
        if k == "closure":
            return self._closure(e, s, fr), PLAIN
        if k == "call":
            return self._call(e, s, fr)
        if k == "mcall":
            return self._mcall(e, s, fr)
        # unknown node kind: evaluate children in order, learn nothing
        self.problems.append(f"{fr.fn}: node kind {k} @ {e.get('line')}")
        for key, v in e.items():
            if isinstance(v, dict) and "e" in v:
                s, _ = self._ev(v, s, fr)
            elif isinstance(v, list):
                s = self._seq(v, s, fr)
        return s, PLAIN

    def _match(self, e, s, fr):
        src = e.get("src", "")
        if "TryDesugar" in src:
            sc = unwrap(e["scrut"])
            inner = sc["args"][0] if sc.get("e") == "call" and sc.get("args") else sc
            s1, v = self._ev(inner, s, fr)
            if s1 is None:
                return None, PLAIN
            # Err / None is returned to the caller: an error exit (state irrelevant)
            fr.exits.append(Exit("err", e, s1, fr.fn))
            if v.has_ok_state:
                return v.ok_state, PLAIN
            for st in v.sites:
                st.propagated = True
            return s1.add_must(v.carries), PLAIN
        if "AwaitDesugar" in src:
            sc = unwrap(e["scrut"])
            inner = sc["args"][0] if sc.get("e") == "call" and sc.get("args") else sc
            return self._ev(inner, s, fr)
        s1, _ = self._ev(e["scrut"], s, fr)
        if s1 is None:
            return None, PLAIN
        out, val, first = None, None, True
        for a in e["arms"]:
            sa = s1
            if "guard" in a:
                sa = self._cond(a["guard"], sa, fr)
            sa, va = self._ev(a["body"], sa, fr)
            if sa is not None:
                val = va if first else join_val(val, va)
                first = False
            out = join(out, sa)
        return out, (val or PLAIN)

    def _loop(self, e, s, fr):
        # body runs 0..n times: events inside never become `must` after the loop
        breaks = []
        fr.loops.append(breaks)
        self._loopdepth += 1
        s1, _ = self._ev(e["body"], s, fr)
        sj = join(s, s1)
        del breaks[:]
        s2, _ = self._ev(e["body"], sj, fr)
        self._loopdepth -= 1
        fr.loops.pop()
        out = None
        for b in breaks:
            out = join(out, b)
        if out is not None:
            out = St(out.must & s.must, out.may)     # 0 iterations possible only via break in iteration 1: keep conservative
        return out, PLAIN

    def _closure(self, e, s, fr, want_exits=False):
        """A closure literal: its body runs conditionally, not before this point. Returns inside it are local."""
        sub = _Frame(fr.fn, fr.chain, fr.closure_depth + 1)
        sub.env = dict(fr.env)
        body = e["body"]
        self._tail(body, s, sub)
        may = set(s.may)
        for x in sub.exits:
            may |= x.st.may
        # sites inside were recorded with their own states; here only `may` grows
        out = St(s.must, may)
        if want_exits:
            return out, sub.exits
        return out

    def _args(self, args, s, fr):
        vals = []
        for a in args:
            if s is None:
                return None, vals
            s, v = self._ev(a, s, fr)
            vals.append(v)
        return s, vals

    def _record(self, ev, node, s, fr):
        key = (fr.chain, id(node))
        st = self.sites.get(key)
        if st is None:
            self.order += 1
            st = Site(ev, node, s, fr.chain, self.order, fr.fn, fr.closure_depth > 0, self._loopdepth > 0)
            self.sites[key] = st
        else:
            st.st = join(st.st, s)
        return st

    def _call(self, e, s, fr):
        # callee expression (closure call through a local etc.)
        if "fun" in e and isinstance(e["fun"], dict):
            s, _ = self._ev(e["fun"], s, fr)
        s, vals = self._args(e.get("args", []), s, fr)
        if s is None:
            return None, PLAIN
        c = callee_of(e)
        if any(ends(c, n) for n in NEVER):
            return None, PLAIN
        ctor = e.get("ctor") or ""
        if ends(ctor, "core::result::Result::Ok"):
            return s, Val(ok="ok")
        if ends(ctor, "core::result::Result::Err"):
            return s, Val(ok="err")
        return self._invoke(e, c, s, fr)

    def _mcall(self, e, s, fr):
        s, rv = self._ev(e["recv"], s, fr)
        c = callee_of(e)
        if s is not None and (c == AND_THEN or e.get("callee") == AND_THEN) and len(e.get("args", [])) == 1 \
                and unwrap(e["args"][0]).get("e") == "closure" and not rv.has_ok_state:
            # `a.and_then(|_| b)`: Ok only if a was Ok, the closure ran and returned Ok
            s2, cexits = self._closure(unwrap(e["args"][0]), s, fr, want_exits=True)
            succ = [x for x in cexits if x.kind != "err"]
            gained = None
            for x in succ:
                g = x.st.must - s.must
                gained = g if gained is None else (gained & g)
            return s2, Val(rv.carries | (gained or frozenset()), "err" if rv.ok == "err" else None, sites=rv.sites)
        s, vals = self._args(e.get("args", []), s, fr)
        if s is None:
            return None, PLAIN
        if any(c == a or e.get("callee") == a for a in ERR_PRESERVING):
            if rv.has_ok_state:
                return s, rv
            return s, Val(rv.carries, "err" if rv.ok == "err" else None, sites=rv.sites)
        return self._invoke(e, c, s, fr)

    def _invoke(self, e, c, s, fr):
        ev = self.event_of(e)
        if ev:
            site = self._record(ev, e, s, fr)
            return s.add_may([ev]), Val(carries=[ev], sites=(site,))
        # inline a same-crate helper that contains events
        if c and c.startswith(self.crate + "::") and len(fr.chain) <= self.MAX_DEPTH and c not in fr.chain \
                and c not in self.no_inline and self._inlinable_name(c) and self._contains_events(c, 2, frozenset()):
            d = self.F.fn(self.crate, c)
            if d is not None:
                sub = _Frame(c, fr.chain + (c,), fr.closure_depth)
                self._tail(self._strip_async(d["body"]), s, sub)
                s_ok, s_any = None, None
                for x in sub.exits:
                    s_any = join(s_any, x.st)
                    if x.kind != "err":
                        s_ok = join(s_ok, x.st)
                if s_any is None:
                    return None, PLAIN
                return s_any, Val(ok_state=s_ok, has_ok_state=True)
        return s, PLAIN

    # ---- results ----------------------------------------------------------------------------------------
    def ordered_sites(self, ev=None):
        out = sorted(self.sites.values(), key=lambda x: x.idx)
        return [x for x in out if ev is None or x.ev == ev or (not isinstance(ev, str) and x.ev in ev)]


def success_exits(exits):
    return [x for x in exits if x.kind != "err"]


# =============================================================================================================
# plugin registries

HOOK_RX = re.compile(r"^kanidmd_lib::<plugins::(?:\w+::)*(\w+) as plugins::Plugin>::(\w+)$")
TRAIT_PREFIX = "kanidmd_lib::plugins::Plugin::"
REG_PREFIX = "kanidmd_lib::plugins::Plugins::"

# today's registry functions (floor); `run_verify` is a read-only consistency report, not a write hook
WRITE_REGISTRIES = [
    "run_pre_create_transform", "run_pre_create", "run_post_create", "run_pre_modify", "run_post_modify",
    "run_pre_batch_modify", "run_post_batch_modify", "run_pre_delete", "run_post_delete", "run_pre_repl_refresh",
    "run_post_repl_refresh", "run_pre_repl_incremental", "run_post_repl_incremental_conflict", "run_post_repl_incremental",
    "run_build_memorials", "run_teardown_memorials",
]


def is_hook_call(n):
    return n.get("e") == "call" and (n.get("callee") or "").startswith(TRAIT_PREFIX)


def hook_event(n):
    if is_hook_call(n):
        return n["callee"][len(TRAIT_PREFIX):] + "|" + (n.get("resolved") or "default")
    return None


class Entry:
    """One registry entry."""
    __slots__ = ("plugin", "hook", "own", "propagated", "unconditional", "line", "resolved")

    def __init__(self, plugin, hook, own, propagated, unconditional, line, resolved):
        self.plugin, self.hook, self.own, self.propagated, self.unconditional = plugin, hook, own, propagated, unconditional
        self.line, self.resolved = line, resolved


# The write operations: (key, root fn regex, pre registry, backend write method, post registries, token)
OPS = {
    "create": dict(root=rf"^kanidmd_lib::server::create::{QSW}::create$", pre="run_pre_create_transform",
                   write="create", post=["run_post_create"]),
    "modify": dict(root=rf"^kanidmd_lib::server::modify::{QSW}::modify_apply$", pre="run_pre_modify",
                   write="modify", post=["run_post_modify"], token="kanidmd_lib::server::modify::ModifyPartial",
                   entry=rf"^kanidmd_lib::server::modify::{QSW}::modify$",
                   pre_fn=rf"^kanidmd_lib::server::modify::{QSW}::modify_pre_apply$"),
    "batch_modify": dict(root=rf"^kanidmd_lib::server::batch_modify::{QSW}::batch_modify$", pre="run_pre_batch_modify",
                         write="modify", post=["run_post_batch_modify"]),
    "delete": dict(root=rf"^kanidmd_lib::server::delete::{QSW}::delete$", pre="run_pre_delete",
                   write="modify", post=["run_post_delete"]),
    "revive_recycled": dict(root=rf"^kanidmd_lib::server::recycle::{QSW}::revive_recycled$", pre="run_pre_modify",
                            write="modify", post=["run_post_modify"]),
    "consumer_incremental_apply_entries": dict(
        root=rf"^kanidmd_lib::repl::consumer::{QSW}::consumer_incremental_apply_entries$", pre="run_pre_repl_incremental",
        write="incremental_apply", post=["run_post_repl_incremental_conflict", "run_post_repl_incremental"]),
    "consumer_refresh_create_entries": dict(
        root=rf"^kanidmd_lib::repl::consumer::{QSW}::consumer_refresh_create_entries$", pre="run_pre_repl_refresh",
        write="refresh", post=["run_post_repl_refresh"]),
}

# Backend writes inside an operation that are deliberately outside the pre/post plugin bracket (one reason each).
AUX_WRITES = {
    ("delete", "create"): "memorial entries for hmac-name-unique are created before the entries are recycled; "
                          "they carry only class/uuid/in_memoriam and are validated+sealed in place",
    ("revive_recycled", "modify"): "memorial entries of the revived entries are tombstoned before the revive pre-plugins run",
}

BE_WRITE_PREFIX = "kanidmd_lib::be::BackendWriteTransaction::<'a>::"
BE_WRITES = ("create", "modify", "refresh", "incremental_apply")

# every function that is itself a complete pipeline (verified on its own): never inlined into another one
PIPELINE_ROOTS = [
    rf"^kanidmd_lib::server::create::{QSW}::create$", rf"^kanidmd_lib::server::modify::{QSW}::modify$",
    rf"^kanidmd_lib::server::batch_modify::{QSW}::batch_modify$", rf"^kanidmd_lib::server::delete::{QSW}::delete$",
    rf"^kanidmd_lib::server::recycle::{QSW}::revive_recycled$",
    rf"^kanidmd_lib::repl::consumer::{QSW}::consumer_incremental_apply_entries$",
    rf"^kanidmd_lib::repl::consumer::{QSW}::consumer_refresh_create_entries$",
]


def be_write_kind(n):
    if n.get("e") != "mcall" and n.get("e") != "call":
        return None
    c = callee_of(n)
    if c.startswith(BE_WRITE_PREFIX):
        m = c[len(BE_WRITE_PREFIX):]
        if m in BE_WRITES:
            return m
    return None


def registry_call_name(n):
    if n.get("e") != "call":
        return None
    c = callee_of(n)
    if c.startswith(REG_PREFIX):
        return c[len(REG_PREFIX):]
    return None


class Pipelines:
    def __init__(self, ctx):
        self.ctx = ctx
        self.F = ctx.facts
        self.impls = {}       # plugin short name -> set of own assoc fns
        for it in self.F.items(LIB):
            if it["item"] == "impl" and it.get("trait") == "kanidmd_lib::plugins::Plugin":
                self.impls[it["self_ty"].split("::")[-1]] = set(it.get("assoc", []))
        self.reg = {}         # run_x -> [Entry]
        self.reg_rec = {}
        self._ops_done = {}
        self._roots = None
        self._extract()

    # ---- registry extraction -------------------------------------------------------------------------------
    def _extract(self):
        ctx = self.ctx
        names = [n for n in self.F.find_fns(LIB, r"^kanidmd_lib::plugins::Plugins::run_\w+$")]
        ctx.floor("K2-registry", "Plugins::run_* registry functions", len([n for n in names if short(n, 1) in WRITE_REGISTRIES]),
                  len(WRITE_REGISTRIES))
        ctx.floor("K2-registry", "impl Plugin for ..", len(self.impls), 16)
        for n in names:
            rn = short(n, 1)
            if rn == "run_verify":
                continue
            d = ctx.fn(LIB, n)
            self.reg_rec[rn] = d
            # one event name per (hook, resolved impl method): must/may are tracked per entry
            fl = Flow(self.F, LIB, hook_event)
            exits = fl.run(d)
            succ = success_exits(exits)
            entries = []
            for st in fl.ordered_sites():
                node = st.node
                trait_m = (node.get("callee") or "")[len(TRAIT_PREFIX):]
                res = node.get("resolved") or ""
                m = HOOK_RX.match(res)
                plugin = m.group(1) if m else self._plugin_from_rows(st.fn, node)
                own = bool(m) and m.group(2) == trait_m and trait_m in self.impls.get(plugin, set())
                # propagated: on every success exit the event is in must
                prop = bool(succ) and all(st.ev in x.st.must for x in succ)
                uncond = not st.in_closure and not st.in_loop
                entries.append(Entry(plugin, trait_m, own, prop, uncond, node.get("line"), res))
            self.reg[rn] = entries
            self.reg_rec[rn] = d

    def _plugin_from_rows(self, caller, node):
        """Inherited default: the HIR call has no impl method to resolve to; the MIR call row still names the Self type."""
        for (c, callee, resolved, ln, exp, sty) in self.F.calls(LIB):
            if c == caller and ln == node.get("line") and callee == node.get("callee") and sty:
                return sty.split("::")[-1]
        m = re.search(r"<plugins::(?:\w+::)*(\w+) as", node.get("resolved") or "")
        return m.group(1) if m else "?"

    def fn_of(self, run):
        return REG_PREFIX + run

    def plugins_in(self, run, own_only=True):
        return [e.plugin for e in self.reg.get(run, []) if e.own or not own_only]

    def render(self, run):
        return " > ".join(e.plugin + ("" if e.own else "(inherited default!)") for e in self.reg.get(run, []))

    # ---- generic soundness of the registries a property relies on --------------------------------------------
    def check_registries(self, rule, runs, plugins=None):
        """every entry (of the given plugins) is unconditional and its result is propagated (`?` or tail)."""
        ctx = self.ctx
        for run in runs:
            d = self.reg_rec.get(run)
            if d is None:
                ctx.violation(rule, self.fn_of(run), "registry-missing",
                              f"registry function Plugins::{run} not found: the hooks it invoked no longer run")
                continue
            for e in self.reg[run]:
                if plugins is not None and e.plugin not in plugins:
                    continue
                ctx.check(e.propagated and e.unconditional, rule, d["fn"], f"propagated:{e.plugin}",
                          f"{e.plugin}::{e.hook} unconditional, result propagated",
                          f"{e.plugin}::{e.hook} is invoked in Plugins::{run} but "
                          + ("conditionally (inside a closure/loop)" if not e.unconditional else
                             "its Result is not propagated with `?`/tail on every success path")
                          + " — a failing or skipped plugin would let the write proceed without its invariant",
                          file=d["file"], line=e.line)
            ctx.sample(f"Plugins::{run}: {self.render(run) or '(empty)'}")

    def contains(self, rule, run, plugin, why):
        d = self.reg_rec.get(run)
        fn = self.fn_of(run)
        ents = [e for e in self.reg.get(run, []) if e.plugin == plugin]
        own = [e for e in ents if e.own]
        if own:
            self.ctx.ok(rule, fn, f"contains:{plugin}", f"{plugin}::{own[0].hook} (own impl) in Plugins::{run}")
            return True
        if ents:
            det = (f"Plugins::{run} names {plugin}::{ents[0].hook} but the call resolves to {ents[0].resolved or 'the trait default'}: "
                   f"`impl Plugin for {plugin}` does not define {ents[0].hook}, so the inherited default (which returns "
                   f"Err(InvalidState) / does no work) runs instead — {why}")
        else:
            det = (f"{plugin} is not invoked by Plugins::{run} (found: {self.render(run) or 'nothing'}) — {why}")
        self.ctx.violation(rule, fn, f"contains:{plugin}", det, file=d["file"] if d else None,
                           line=(ents[0].line if ents else (d["line"] if d else None)))
        return False

    def _pos(self, run, plugin):
        ps = [i for i, e in enumerate(self.reg.get(run, [])) if e.plugin == plugin and e.own]
        return ps

    def before(self, rule, run, a, b, why):
        """every own-impl invocation of a precedes every invocation of b (both must be present)."""
        pa, pb = self._pos(run, a), self._pos(run, b)
        d = self.reg_rec.get(run)
        ok = bool(pa) and bool(pb) and max(pa) < min(pb)
        self.ctx.check(ok, rule, self.fn_of(run), f"order:{a}<{b}", f"{a} before {b} in Plugins::{run}",
                       f"Plugins::{run} must run {a} before {b}, found: {self.render(run) or 'nothing'} — {why}",
                       file=d["file"] if d else None, line=d["line"] if d else None)
        return ok

    def first(self, rule, run, plugin, why):
        ents = self.reg.get(run, [])
        d = self.reg_rec.get(run)
        ok = bool(ents) and ents[0].plugin == plugin and ents[0].own
        self.ctx.check(ok, rule, self.fn_of(run), f"first:{plugin}", f"{plugin} first in Plugins::{run}",
                       f"{plugin} must be the first plugin of Plugins::{run}, found: {self.render(run) or 'nothing'} — {why}",
                       file=d["file"] if d else None, line=d["line"] if d else None)
        return ok

    def last(self, rule, run, plugin, why):
        ents = self.reg.get(run, [])
        d = self.reg_rec.get(run)
        ok = bool(ents) and ents[-1].plugin == plugin and ents[-1].own
        self.ctx.check(ok, rule, self.fn_of(run), f"last:{plugin}", f"{plugin} last in Plugins::{run}",
                       f"{plugin} must be the last plugin of Plugins::{run}, found: {self.render(run) or 'nothing'} — {why}",
                       file=d["file"] if d else None, line=d["line"] if d else None)
        return ok

    def siblings_agree(self, rule, run_a, run_b, why, plugins=None):
        """The two registries list the same plugins in the same order (projected on `plugins` when given, so that a
        property only answers for the plugins it depends on)."""
        a = [e.plugin for e in self.reg.get(run_a, []) if e.own and (plugins is None or e.plugin in plugins)]
        b = [e.plugin for e in self.reg.get(run_b, []) if e.own and (plugins is None or e.plugin in plugins)]
        d = self.reg_rec.get(run_b)
        ok = bool(a) and a == b
        det = ""
        if not ok:
            only_a = [x for x in a if x not in b]
            only_b = [x for x in b if x not in a]
            det = (f"Plugins::{run_a} and Plugins::{run_b} must list the same plugins in the same order; "
                   f"only in {run_a}: {only_a}, only in {run_b}: {only_b}"
                   + ("" if only_a or only_b else f"; order differs: {a} vs {b}") + f" — {why}")
        scope = "" if plugins is None else ":" + "+".join(sorted(plugins))
        self.ctx.check(ok, rule, self.fn_of(run_b), f"siblings:{run_a}={run_b}{scope}", f"{run_a} and {run_b} agree ({len(a)} plugins)", det,
                       file=d["file"] if d else None, line=d["line"] if d else None)
        return ok

    # ---- the write operations ---------------------------------------------------------------------------------------
    def roots(self):
        if self._roots is None:
            out = set()
            for rx in PIPELINE_ROOTS:
                out |= set(self.F.find_fns(LIB, rx))
            self._roots = out
        return self._roots

    def ops_using(self, runs):
        runs = set(runs)
        return [k for k, o in OPS.items() if o["pre"] in runs or runs & set(o["post"])]

    def op_events(self, op, extra=None):
        o = OPS[op]
        ev = {
            "P": lambda n, _o=o: registry_call_name(n) == _o["pre"],
            "W": lambda n, _o=o: be_write_kind(n) == _o["write"],
            "Wx": lambda n, _o=o: be_write_kind(n) is not None and be_write_kind(n) != _o["write"],
        }
        for i, q in enumerate(o["post"]):
            ev[f"Q{i}"] = (lambda n, _q=q: registry_call_name(n) == _q)
        if extra:
            ev.update(extra)
        return ev

    def check_ops(self, rule, runs, need_pre=True, need_post=True):
        """For every write operation that uses one of the registries `runs`: the matching run_pre_* is called and
        propagated before the backend write, the matching run_post_* after it on every success path."""
        for op in self.ops_using(runs):
            o = OPS[op]
            want_pre = need_pre and o["pre"] in runs
            want_post = need_post and bool(set(runs) & set(o["post"]))
            self.check_op(rule, op, want_pre, [q for q in o["post"] if q in runs] if want_post else [])

    def analyse_op(self, op, extra=None):
        key = (op, tuple(sorted(extra)) if extra else None)
        if key in self._ops_done:
            return self._ops_done[key]
        o = OPS[op]
        root = self.ctx.fn1(LIB, o["root"])
        fl = Flow(self.F, LIB, self.op_events(op, extra), no_inline=self.roots() - {root["fn"]})
        start = St()
        has_token = None
        if "token" in o:
            # the helper only accepts a value of the token type, which is built only after the pre-plugins ran
            has_token = any(o["token"].split("::")[-1] in p["ty"] for p in root["params"])
        exits = fl.run(root, start)
        res = (root, fl, exits, has_token)
        self._ops_done[key] = res
        return res

    def check_op(self, rule, op, want_pre, want_posts):
        ctx = self.ctx
        o = OPS[op]
        root, fl, exits, has_token = self.analyse_op(op)
        fn = root["fn"]
        wsites = fl.ordered_sites("W")
        if not ctx.check(bool(wsites), rule, fn, "backend-write-found", f"{len(wsites)} be_txn.{o['write']} site(s)",
                         f"no call to BackendWriteTransaction::{o['write']} found in {op} (or its helpers): anchor drift, the pipeline cannot be decided",
                         file=root["file"], line=root["line"]):
            return
        if want_pre:
            if "token" in o:
                self._check_token(rule, op, root, has_token)
            else:
                covered = [w for w in wsites if "P" in w.st.must]
                uncovered = [w for w in wsites if "P" not in w.st.must]
                ctx.check(bool(covered), rule, fn, f"pre-before-write:{o['pre']}",
                          f"Plugins::{o['pre']} succeeded before be_txn.{o['write']} ({len(covered)} site(s))",
                          f"in {op} the backend write be_txn.{o['write']} is not dominated by a propagated call of Plugins::{o['pre']} "
                          f"(state before the write: {[repr(w.st) for w in uncovered][:2]}) — entries reach the database without the pre-write plugins",
                          file=root["file"], line=wsites[0].node.get("line"))
                allowed = 1 if (op, o["write"]) in AUX_WRITES else 0
                ctx.check(len(uncovered) <= allowed, rule, fn, f"aux-write:{o['write']}",
                          f"{len(uncovered)} auxiliary be_txn.{o['write']} outside the bracket (allowed {allowed}: {AUX_WRITES.get((op, o['write']), '-')})",
                          f"{len(uncovered)} be_txn.{o['write']} call(s) in {op} run before/without Plugins::{o['pre']} (allowed: {allowed}) at lines "
                          f"{[w.node.get('line') for w in uncovered]} — a write bypasses the pre-write plugins",
                          file=root["file"], line=(uncovered[-1].node.get("line") if uncovered else None))
            # writes of another kind inside the operation
            for w in fl.ordered_sites("Wx"):
                kind = be_write_kind(w.node)
                ctx.check((op, kind) in AUX_WRITES or "P" in w.st.must, rule, fn, f"aux-write:{kind}",
                          f"auxiliary be_txn.{kind}: {AUX_WRITES.get((op, kind), 'inside the bracket')}",
                          f"{op} performs an extra backend write be_txn.{kind} that is neither bracketed by the plugins nor in the allow-list",
                          file=root["file"], line=w.node.get("line"))
        succ = success_exits(exits)
        for q in want_posts:
            qi = "Q%d" % o["post"].index(q)
            bad = [x for x in succ if ("W" in x.st.may) and qi not in x.st.must]
            after = [x for x in succ if "W" in x.st.may]
            ok = bool(after) and not bad
            ctx.check(ok, rule, fn, f"post-after-write:{q}",
                      f"Plugins::{q} succeeded on all {len(after)} success exit(s) that follow be_txn.{o['write']}",
                      (f"{op}: {len(bad)} success path(s) return after be_txn.{o['write']} without a propagated Plugins::{q} "
                       f"(exit at line {[x.node.get('line') for x in bad][:3]}) — the post-write plugins (referential integrity, memberOf, ...) are skipped"
                       if after else f"{op}: no success exit follows the backend write (shape not understood)"),
                      file=root["file"], line=(bad[0].node.get("line") if bad else root["line"]))
            # order among the post registries and relative to the write
            qs = fl.ordered_sites(qi)
            if qs and wsites:
                ctx.check(all("W" in s.st.must for s in qs), rule, fn, f"write-before-post:{q}",
                          f"be_txn.{o['write']} succeeded before Plugins::{q}",
                          f"{op}: Plugins::{q} runs at a point where be_txn.{o['write']} has not (always) succeeded — post plugins would inspect entries that are not written",
                          file=root["file"], line=qs[0].node.get("line"))
        ctx.sample(f"{op}: " + " ; ".join(
            f"{s.ev}={short(callee_of(s.node), 2)}@{s.node.get('line')}" for s in fl.ordered_sites() if s.ev in ("P", "W", "Wx") or s.ev.startswith("Q")))

    def _check_token(self, rule, op, root, has_token):
        """modify is split in modify_pre_apply / modify_apply joined by a ModifyPartial value."""
        ctx = self.ctx
        o = OPS[op]
        tok = o["token"]
        ctx.check(bool(has_token), rule, root["fn"], "token-param",
                  f"{short(root['fn'], 1)} only accepts a {short(tok, 1)}",
                  f"{short(root['fn'], 1)} no longer takes a {short(tok, 1)} parameter: nothing ties the backend write to a preceding Plugins::{o['pre']}",
                  file=root["file"], line=root["line"])
        # every construction site of the token is dominated by a successful pre-plugin run
        names = self.F.fns_mentioning(LIB, tok)
        n_sites = 0
        for n in sorted(names):
            d = self.F.fn(LIB, n)
            is_tok = lambda x, _t=tok: x.get("e") == "struct" and x["path"].get("def") == _t
            if not any(is_tok(x) for x in walk(d["body"])):
                continue
            self.ctx.analysed_fns.add(n)
            ev = {"P": lambda x, _o=o: registry_call_name(x) == _o["pre"], "T": is_tok}
            fl = TokenFlow(self.F, LIB, ev, no_inline=self.roots() - {n})
            fl.run(d)
            for s in fl.ordered_sites("T"):
                n_sites += 1
                ctx.check("P" in s.st.must, rule, n, f"token-after-pre:{o['pre']}",
                          f"{short(tok, 1)} built after Plugins::{o['pre']} succeeded",
                          f"{short(n, 1)} builds a {short(tok, 1)} (accepted by modify_apply, which writes it) at a point where Plugins::{o['pre']} "
                          f"has not succeeded on every path — entries reach the database without the pre-write plugins",
                          file=d["file"], line=s.node.get("line"))
        ctx.floor(rule, f"{short(tok, 1)} construction sites", n_sites, 2)
        # the public entry point really applies what it prepared
        if "entry" in o:
            e = ctx.fn1(LIB, o["entry"])
            cs = {callee_of(c) for c in walk(e["body"]) if c.get("e") in ("call", "mcall")}
            pre_fn = self.F.find_fns(LIB, o["pre_fn"])
            ctx.check(root["fn"] in cs and any(p in cs for p in pre_fn), rule, e["fn"], "entry-calls-both-halves",
                      "modify = modify_pre_apply ; modify_apply",
                      f"{short(e['fn'], 1)} no longer calls both modify_pre_apply and modify_apply", file=e["file"], line=e["line"])


class TokenFlow(Flow):
    """Flow that also treats struct literals of a given type as events (used for the ModifyPartial token)."""

    def _ev(self, e, s, fr):
        if s is not None and isinstance(e, dict) and e.get("e") == "struct":
            ev = self.event_of(e)
            if ev:
                s2, v = Flow._ev(self, e, s, fr)
                if s2 is not None:
                    self._record(ev, e, s2, fr)
                    return s2.add_may([ev]), v
                return s2, v
        return Flow._ev(self, e, s, fr)


# =============================================================================================================
# small shared helpers for hook bodies

def hook_fn(ctx, plugin_mod, plugin, hook):
    """Body record of `impl Plugin for <plugin>`'s own hook (fails closed when absent)."""
    return ctx.fn(LIB, f"kanidmd_lib::<plugins::{plugin_mod}::{plugin} as plugins::Plugin>::{hook}")


def user_calls(body):
    """callee def-paths of calls written in the source (macro expansions such as tracing skipped)."""
    out = []
    for n in walk(body):
        if n.get("e") in ("call", "mcall") and not n.get("exp"):
            c = callee_of(n)
            if c:
                out.append((c, n))
    return out


def delegates_to(ctx, rule, rec, targets, what, why):
    """The hook's result is the (propagated) result of a call to one of `targets` on every success path."""
    ev = {"T": lambda n: n.get("e") in ("call", "mcall") and any(ends(c, *targets) for c in callee_any(n))}
    fl = Flow(ctx.facts, LIB, ev)
    exits = fl.run(rec)
    succ = success_exits(exits)
    ok = bool(succ) and all("T" in x.st.must for x in succ)
    ctx.check(ok, rule, rec["fn"], f"delegates:{what}", f"every success path went through {what}",
              f"{short(rec['fn'], 2)} has a success path that does not go through a propagated call of {what} — {why}",
              file=rec["file"], line=rec["line"])
    return ok


def hook_nontrivial(ctx, rule, plugin_mod, plugin, hook):
    """The impl's own hook does some work: at least one call written in its body (not macro-expanded) goes into kanidmd_lib.
    Robust to renames of the helpers it uses; catches a hook whose body was replaced by `Ok(())`."""
    rec = hook_fn(ctx, plugin_mod, plugin, hook)
    n = sum(1 for (c, _) in user_calls(rec["body"]) if c.startswith(LIB + "::"))
    ctx.check(n >= 1, rule, rec["fn"], "hook-does-work", f"{n} call(s) into kanidmd_lib",
              f"{plugin}::{hook} contains no call into kanidmd_lib: the hook is registered but does nothing",
              file=rec["file"], line=rec["line"])
    return rec
