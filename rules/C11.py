"""C11 Replicated session and key revocations are never lost — clause (K4 + item facts).

Per-key merge is `max` under a total order (hence commutative, associative, idempotent) if the clauses below hold:
 (a) `impl Ord for SessionState`: the (self, other) table is evaluated for every ordered pair of variants: off-diagonal rows are
     constant and antisymmetric, the variants form a strict chain, RevokedAt is on top; diagonal rows compare the two payloads
     (fieldless: Equal) and RevokedAt *reverses* its payload comparison (the earliest revocation is the greatest state);
     partial_cmp delegates to cmp, PartialEq/Eq are derived;
 (b) KeyStatus derives PartialOrd/Ord and declares Revoked last (item facts);
 (c) the three merge bodies (ValueSetSession, ValueSetOauth2Session, ValueSetKeyInternal :: repl_merge_valueset) start from the
     newer side's map, walk the older side's map, overwrite an existing key only under `older.state > newer.state` (strict, on the
     field whose type is the ordered enum), insert a key only when it is missing, never remove, and return that map;
     the two session impls have the same extracted shape;
 (d) ValueSetAuditLogString::repl_merge_valueset is the older map overlaid with the newer one, followed by remove_oldest;
 (e) merge_state calls repl_merge_valueset as newer.repl_merge_valueset(older) in both (Some, Some) rows (table evaluated as in C08).
Not decided: fields other than the state on a tie, the trim step, behaviour over actual merge sequences.
"""
import re
from .lib.hir import *
from .lib import pathcond as pc
from .lib.x_prov import Prov, tails, pat_binds, find_loop, loop_parts
from .lib import x_merge as M

META = dict(
    technique="decision-table evaluation of the hand-written Ord (K4), item facts for the derived Ord, path conditions of the overwrite/insert sites of the merge bodies (K3)",
    level_text="Exhaustive structural check: all 9 rows of SessionState's comparison table form a total order with revocation on top and earliest-revocation-wins; "
               "KeyStatus derives its order with Revoked last; every overwrite site of the three keyed merge bodies is guarded by a strict `older > newer` state test and every insert by "
               "absence of the key; merge_state passes (newer, older). Together these make the per-key merge a max over a total order. Tests merge two hand-made sets in one direction only.",
    level_note="Decides the named clauses; equality of the other fields of a session/key on a tie, the trim step and actual merge sequences are NOT decided. "
               "Trusted: rustc's HIR/types/derive expansion facts, the provenance tracer, the K3 engine.",
)
LIB = "kanidmd_lib"
SS = "kanidmd_lib::value::SessionState"
ORD = "core::cmp::Ordering"
ORDERED_TYPES = ("value::SessionState", "value::KeyStatus")
MERGERS = {
    "ValueSetSession": "kanidmd_lib::<valueset::session::ValueSetSession as valueset::ValueSetT>::repl_merge_valueset",
    "ValueSetOauth2Session": "kanidmd_lib::<valueset::session::ValueSetOauth2Session as valueset::ValueSetT>::repl_merge_valueset",
    "ValueSetKeyInternal": "kanidmd_lib::<valueset::key_internal::ValueSetKeyInternal as valueset::ValueSetT>::repl_merge_valueset",
}
AUDIT = "kanidmd_lib::<valueset::auditlogstring::ValueSetAuditLogString as valueset::ValueSetT>::repl_merge_valueset"


def run(ctx):
    ctx.explanation = ("SessionState's Ord table is a total order with RevokedAt on top and reversed payload comparison; KeyStatus derives Ord with Revoked last; "
                       "the three keyed merge bodies overwrite only on strictly greater state and insert only missing keys; audit log merge is an overlay + size trim; "
                       "merge_state passes (newer, older). Clauses that make the per-key merge a max over a total order.")
    session_order(ctx)
    keystatus(ctx)
    shapes = {}
    for name, path in MERGERS.items():
        shapes[name] = merge_body(ctx, name, path)
    a, b = shapes.get("ValueSetSession"), shapes.get("ValueSetOauth2Session")
    ctx.check(a is not None and a == b, "K4-merge-max", "-", "session-impls-agree", f"both session merges: {a}",
              f"ValueSetSession and ValueSetOauth2Session merge differently: {a} vs {b} — user sessions and OAuth2 sessions of one login would diverge on revocation")
    audit(ctx)
    direction(ctx)
    trim_rules(ctx)


# ---------------------------------------------------------------------------

def session_order(ctx):
    R = "K4-session-order"
    F = ctx.facts
    fn = ctx.fn(LIB, "kanidmd_lib::<value::SessionState as core::cmp::Ord>::cmp")
    P = Prov(fn)
    loc = dict(file=fn["file"], line=fn["line"])
    enum = F.item(LIB, "enum", SS)
    variants = [(v["v"], len(v.get("fields", []))) for v in enum["variants"]] if enum else []
    ctx.floor(R, "SessionState variants", len(variants), 3)
    ms = [n for n in M.find_tuple_match(fn["body"], lambda t: t.replace("&", "").replace(" ", "") == "(value::SessionState,value::SessionState)")]
    if not ctx.check(len(ms) == 1, R, fn["fn"], "table-found", "match (self, other)", f"expected one `match (self, other)` over two SessionStates, found {len(ms)} (shape not understood)", **loc):
        return
    m = ms[0]
    sides = M.sides_of_scrut(P, m)
    if not ctx.check(sides == [{"p0"}, {"p1"}], R, fn["fn"], "table-sides", "scrutinee = (self, other)", f"scrutinee is not (self, other): {[sorted(s) for s in sides]} (shape not understood)", **loc):
        return

    def outcome(v, w):
        arm = M.select_arm(m, (SS + "::" + v, SS + "::" + w))
        if arm is None:
            return ("uncovered",), None
        outs = set()
        for t in tails(arm["body"]):
            if t.get("e") == "path" and t["res"].get("def", "").startswith(ORD + "::"):
                outs.add(("const", t["res"]["def"].split("::")[-1]))
            elif t.get("e") == "mcall" and is_call_to(t, "core::cmp::Ord::cmp") and len(t["args"]) == 1:
                a, b = P.labels(t["recv"], args=False), P.labels(t["args"][0], args=False)
                outs.add(("cmp", "".join(sorted(a)), "".join(sorted(b))))
            else:
                outs.add(("?", ex_s(t)[:60]))
        return (next(iter(outs)) if len(outs) == 1 else ("?", str(sorted(outs)))), arm
    wins = {v: 0 for v, _ in variants}
    n_rows = 0
    for i, (v, _) in enumerate(variants):
        for (w, _) in variants[i + 1:]:
            (o1, a1), (o2, a2) = outcome(v, w), outcome(w, v)
            n_rows += 2
            ok = o1[0] == "const" and o2[0] == "const" and {o1[1], o2[1]} == {"Greater", "Less"}
            ctx.check(ok, R, fn["fn"], f"antisym:{v},{w}", f"({v},{w})={o1[-1]}, ({w},{v})={o2[-1]}",
                      f"cmp({v},{w}) = {o1} but cmp({w},{v}) = {o2}: not antisymmetric constants — the merge `if other > self` is then order dependent and replicas keep different session states",
                      file=fn["file"], line=(a1 or {}).get("body", {}).get("line"))
            if ok:
                wins[v if o1[1] == "Greater" else w] += 1
    chain = sorted(wins.values()) == list(range(len(variants)))
    order = [v for v, _ in sorted(wins.items(), key=lambda kv: -kv[1])]
    ctx.check(chain, R, fn["fn"], "variants-form-chain", " > ".join(order), f"the variant-level comparison is not transitive (wins per variant: {wins}): no total order, merge results depend on grouping", **loc)
    ctx.check(chain and order and order[0] == "RevokedAt", R, fn["fn"], "top:RevokedAt", "RevokedAt is the greatest state",
              f"RevokedAt is not above every other state (order: {' > '.join(order)}): a revocation merged with an unexpired or extended session would be lost", **loc)
    for (v, nf) in variants:
        o, arm = outcome(v, v)
        n_rows += 1
        line = (arm or {}).get("body", {}).get("line")
        if nf == 0:
            ctx.check(o == ("const", "Equal"), R, fn["fn"], f"diag:{v}", "Equal", f"cmp({v},{v}) = {o}, expected Equal (reflexivity)", file=fn["file"], line=line)
            continue
        ok = o[0] == "cmp" and {o[1], o[2]} == {"p0", "p1"}
        ctx.check(ok, R, fn["fn"], f"diag:{v}", f"payloads compared ({'self.cmp(other)' if o[1:] == ('p0', 'p1') else 'other.cmp(self)'})",
                  f"cmp({v}(a),{v}(b)) = {o}: expected a comparison between the two payloads — otherwise two different {v} states compare inconsistently and the per-key max is not well defined",
                  file=fn["file"], line=line)
        if v == "RevokedAt":
            ctx.check(ok and o[1:] == ("p1", "p0"), R, fn["fn"], "diag:RevokedAt:reversed", "other.cmp(self): the earliest revocation is the greatest",
                      f"RevokedAt's payload comparison is {o} — not reversed: the *latest* revocation would win, replicas that trimmed at different times disagree and an early revocation is overwritten",
                      file=fn["file"], line=line)
    ctx.floor(R, "comparison rows evaluated", n_rows, 9)
    ctx.sample("SessionState order: " + " > ".join(order))
    # partial_cmp delegates; PartialEq / Eq derived
    pf = ctx.fn(LIB, "kanidmd_lib::<value::SessionState as core::cmp::PartialOrd>::partial_cmp")
    Pp = Prov(pf)
    cs = [c for c in calls_in(pf["body"], "core::cmp::Ord::cmp") if Pp.labels(c["recv"], args=False) == {"p0"} and Pp.labels(c["args"][0], args=False) == {"p1"}]
    ok = bool(cs) and bool(constructs(pf["body"], "core::option::Option::Some")) and not constructs(pf["body"], "core::option::Option::None")
    ctx.check(ok, R, pf["fn"], "partial_cmp-delegates", "partial_cmp = Some(self.cmp(other))",
              "partial_cmp is not Some(self.cmp(other)): the `>` used by the merge bodies would not be the total order checked above", file=pf["file"], line=pf["line"])
    impls = {it.get("trait"): it for it in F.items(LIB) if it["item"] == "impl" and it.get("self_ty") == "value::SessionState"}
    for tr in ("core::cmp::PartialEq", "core::cmp::Eq"):
        ctx.check(tr in impls and impls[tr].get("derived"), R, SS, f"derived:{tr.split('::')[-1]}", "derived", f"{tr} for SessionState is not derived: equality may disagree with the order", **loc)


def keystatus(ctx):
    R = "K8-keystatus-order"
    F = ctx.facts
    KS = "kanidmd_lib::value::KeyStatus"
    enum = F.item(LIB, "enum", KS)
    if not ctx.check(enum is not None, R, KS, "enum-found", "KeyStatus found", "enum value::KeyStatus not found (anchor missing)"):
        return
    vs = [v["v"] for v in enum["variants"]]
    loc = dict(file=enum.get("file"), line=enum.get("line"))
    ctx.floor(R, "KeyStatus variants", len(vs), 3)
    impls = {it.get("trait"): it for it in F.items(LIB) if it["item"] == "impl" and it.get("self_ty") == "value::KeyStatus"}
    for tr in ("core::cmp::PartialOrd", "core::cmp::Ord", "core::cmp::PartialEq", "core::cmp::Eq"):
        ctx.check(tr in impls and impls[tr].get("derived"), R, KS, f"derived:{tr.split('::')[-1]}", "derived (declaration order)",
                  f"{tr} for KeyStatus is not derived: the order is no longer the declaration order checked here", **loc)
    ctx.check(bool(vs) and vs[-1] == "Revoked" and all(not v.get("fields") for v in enum["variants"]), R, KS, "revoked-last", " < ".join(vs),
              f"KeyStatus declares {vs}: Revoked must be declared last (greatest under the derived order), otherwise merging a revoked key with a valid/retained copy un-revokes it", **loc)
    ctx.sample("KeyStatus order: " + " < ".join(vs))


# ---------------------------------------------------------------------------

def field_type(F, xty, f):
    name = "kanidmd_lib::" + xty.replace("&", "").strip()
    it = F.item(LIB, "struct", name)
    if not it:
        return None
    for v in it.get("variants", []):
        for fl in v.get("fields", []):
            if fl["f"] == f:
                return fl["ty"]
    return None


def strict_older_gt_newer(F, P, lits):
    """Is `older.<ordered field> > newer.<ordered field>` (strict) among the implied literals? returns field name or None."""
    for (pol, leaf) in lits.values():
        if leaf[1] != "expr":
            continue
        e = unwrap(leaf[2])
        if e.get("e") != "bin" or e["op"] not in ("<", "<=", ">", ">="):
            continue
        l, r = unwrap(e["l"]), unwrap(e["r"])
        if not (l.get("e") == "field" and r.get("e") == "field" and l["f"] == r["f"]):
            continue
        ty = field_type(F, l.get("xty", ""), l["f"])
        if not ty or not ty.endswith(ORDERED_TYPES):
            continue
        ll, rl = P.labels(l, args=False), P.labels(r, args=False)
        op = e["op"]
        if not pol:
            op = {"<": ">=", "<=": ">", ">": "<=", ">=": "<"}[op]
        if (op == ">" and ll == {"p1"} and rl == {"p0"}) or (op == "<" and ll == {"p0"} and rl == {"p1"}):
            return l["f"] + ":" + ty.split("::")[-1]
    return None


def merge_body(ctx, name, path):
    R = "K4-merge-max"
    F = ctx.facts
    fn = ctx.fn(LIB, path)
    P = Prov(fn)
    binds = pc.collect_binds(fn["body"])
    loc = dict(file=fn["file"], line=fn["line"])

    def map_local_of_getmut(lid):
        for s in P.sources(lid):
            s = unwrap(s)
            if s.get("e") == "mcall" and s.get("name") in ("get_mut", "entry") and any("BTreeMap" in c for c in callee_any(s)):
                return P.local_of(s["recv"])
        return None

    def is_overwrite(n):
        if n.get("e") != "assign" or n.get("exp"):
            return False
        l = n["l"]
        return isinstance(l, dict) and l.get("e") == "un" and l.get("op") == "Deref" and P.local_of(l["x"]) is not None and map_local_of_getmut(P.local_of(l["x"])) is not None
    sites = pc.site_conditions(fn["body"], is_overwrite)
    ctx.floor(R, f"{name}: overwrite sites", len(sites), 1)
    maps = set()
    fields = set()
    for i, (site, conds) in enumerate(sites):
        ml = map_local_of_getmut(P.local_of(site["l"]["x"]))
        maps.add(ml)
        sfx = f"#{i}" if len(sites) > 1 else ""
        vl = P.labels(site["r"], args=False)
        lits = pc.implied(conds, binds)
        fld = strict_older_gt_newer(F, P, lits)
        if fld:
            fields.add(fld)
        ctx.check(fld is not None and vl == {"p1"}, R, fn["fn"], f"overwrite-only-if-older-strictly-greater{sfx}",
                  f"*existing = older.clone() only under older.{fld} > existing",
                  f"{name}: an existing key is overwritten (value from {sorted(vl)}) without the strict guard `older.state > newer.state` on the ordered state field "
                  f"(guards: {[x for x in pc.render(lits) if 'tracing' not in x][:5]}) — a revoked session/key could be replaced by a non-revoked copy, or ties make the merge order dependent",
                  file=fn["file"], line=site.get("line"))
    if not ctx.check(len(maps) == 1 and None not in maps, R, fn["fn"], "single-result-map", "one working map", f"{name}: overwrite sites act on {len(maps)} maps (shape not understood)", **loc):
        return None
    mlid = next(iter(maps))
    base = set()
    for s in P.sources(mlid):
        base |= P.labels(s, args=False)
    ctx.check(base == {"p0"}, R, fn["fn"], "starts-from-newer", "working map = self.map.clone()",
              f"{name}: the working map is initialised from {sorted(base)}, expected from self (the newer side) only", **loc)
    # the loop walks the older side
    loops = find_loop(fn)
    ok = False
    if len(loops) == 1:
        it, pat, body = loop_parts(loops[0])
        ok = body is not None and P.labels(it, args=False) == {"p1"} and all(any(x is s for x in walk(body)) for s, _ in sites)
    ctx.check(ok, R, fn["fn"], "walks-older", "for (k, v) in older.iter()", f"{name}: the merge loop does not iterate over the older side's map with the overwrite inside it (shape not understood)", **loc)

    def on_map(n, names):
        return n.get("e") == "mcall" and not n.get("exp") and n.get("name") in names and P.local_of(n["recv"]) == mlid
    ins = pc.site_conditions(fn["body"], lambda n: on_map(n, ("insert",)))
    ctx.floor(R, f"{name}: insert sites", len(ins), 1)
    for i, (site, conds) in enumerate(ins):
        sfx = f"#{i}" if len(ins) > 1 else ""
        lits = pc.implied(conds, binds)
        absent = False
        for (pol, leaf) in lits.values():
            if pol:
                continue
            if leaf[1] == "let":
                init = unwrap(leaf[2][1])
                if init.get("e") == "mcall" and init.get("name") in ("get", "get_mut") and P.local_of(init["recv"]) == mlid and has_token(tokens(leaf[2][0]), "def", "core::option::Option::Some"):
                    absent = True
            if leaf[1] == "expr":
                e = unwrap(leaf[2])
                if e.get("e") == "mcall" and e.get("name") == "contains_key" and P.local_of(e["recv"]) == mlid:
                    absent = True
        vl = P.labels(site["args"][1], args=False) if len(site["args"]) == 2 else set()
        ctx.check(absent and vl == {"p1"}, R, fn["fn"], f"insert-only-if-missing{sfx}", "map.insert(k, older.clone()) only when the key is absent",
                  f"{name}: map.insert is reachable for a key that is already present (or inserts a value from {sorted(vl)}): it would overwrite regardless of the state order "
                  f"(guards: {[x for x in pc.render(lits) if 'tracing' not in x][:5]})", file=fn["file"], line=site.get("line"))
    rem = [n for n in walk(fn["body"]) if on_map(n, ("remove", "retain", "clear", "pop_first", "pop_last", "split_off", "extend", "append"))]
    ctx.check(not rem, R, fn["fn"], "no-removal", "no key is removed or bulk-overwritten during the merge",
              f"{name}: the working map is modified by {[n['name'] for n in rem]} during the merge: a revoked entry could be dropped or overwritten", **loc)
    outs = [n for n in walk(fn["body"]) if n.get("e") == "call" and not n.get("exp") and ends(n.get("ctor", ""), "core::option::Option::Some")]
    ok = bool(outs) and all(mlid in P.local_roots(o["args"][0]) for o in outs)
    ctx.check(ok, R, fn["fn"], "returns-merged-map", "Some(valueset built from the working map)", f"{name}: the returned value set is not built from the merged map", **loc)
    trims = [c for c in calls_in(fn["body"], "ValueSetT::trim") if not c.get("exp")]
    shape = (tuple(sorted(fields)), len(sites), len(ins), bool(trims))
    ctx.sample(f"{name}: overwrite iff older.{sorted(fields)} strictly greater; insert iff missing; trim after = {bool(trims)}")
    return shape


def audit(ctx):
    R = "K4-auditlog-overlay"
    fn = ctx.fn(LIB, AUDIT)
    P = Prov(fn)
    loc = dict(file=fn["file"], line=fn["line"])
    ins = [n for n in walk(fn["body"]) if n.get("e") == "mcall" and n.get("name") == "insert" and any("BTreeMap" in c for c in callee_any(n)) and len(n["args"]) == 2]
    ctx.floor(R, "overlay insert sites", len(ins), 1)
    ok = bool(ins)
    mlids = set()
    for n in ins:
        mlid = P.local_of(n["recv"])
        mlids.add(mlid)
        base = set()
        for s in P.sources(mlid) if mlid is not None else []:
            base |= P.labels(s, args=False)
        vl = P.labels(n["args"][1], args=True)
        if base != {"p1"} or vl != {"p0"}:
            ok = False
    ctx.check(ok, R, fn["fn"], "older-overlaid-with-newer", "map = older.clone(); map.insert(k, v) for (k, v) in self.map",
              "the audit-log merge is not `older's map overlaid with the newer side's entries` (newer wins on equal keys): merges in different orders keep different entries", **loc)
    rm = [c for c in all_calls(fn["body"]) if ends(callee_of(c), "ValueSetAuditLogString::remove_oldest") and not c.get("exp")]
    outs = [n for n in walk(fn["body"]) if n.get("e") == "call" and not n.get("exp") and ends(n.get("ctor", ""), "core::option::Option::Some")]
    ok2 = bool(rm) and bool(outs) and all(P.local_of(r["recv"]) is not None and P.local_of(r["recv"]) in P.local_roots(o["args"][0]) for r in rm for o in outs) \
        and all(mlids & P.local_roots(o["args"][0]) for o in outs)
    ctx.check(ok2, R, fn["fn"], "size-trim-after-union", "remove_oldest() on the merged set, which is returned",
              "the merged audit log is not size-trimmed with remove_oldest before it is returned (or the returned set is not the merged one)", **loc)


def direction(ctx):
    R = "K4-merge-direction"
    from . import C08

    class Quiet:
        """Runs C08's table extraction without recording its obligations here."""
        def __init__(self, real):
            self.real, self.facts, self.bad = real, real.facts, []
        def fn(self, c, n):
            return self.real.fn(c, n)
        def check(self, cond, rule, fn, inst, ok="", bad="", **kw):
            if not cond:
                self.bad.append((inst, bad))
            return bool(cond)
        def violation(self, rule, fn, inst, detail, **kw):
            self.bad.append((inst, detail))
        def floor(self, *a, **k):
            pass
        def sample(self, *a):
            pass
    q = Quiet(ctx)
    res = C08.merge_tables(q)
    if not ctx.check(res is not None, R, M.MERGE, "table-extracted", "merge_state value table extracted",
                     f"merge_state's value table could not be extracted: {q.bad[:2]} (shape not understood)"):
        return
    fn = res["fn"]
    n = 0
    for (pa, pb, t), (sig, arm) in sorted(res["rows"].items(), key=str):
        if not (pa == C08.SOME and pb == C08.SOME):
            continue
        W = M.greater_side(res["cmp"], t)
        O = {res["A"]: res["B"], res["B"]: res["A"]}[W]
        ok = bool(sig) and all([ev for ev in p if ev[0] == "merge"] == [("merge", frozenset({W}), frozenset({O}))] for p in sig)
        n += 1
        nm = {res["A"]: "incoming", res["B"]: "db"}
        ctx.check(ok, R, fn["fn"], f"both-present:{'incoming' if W == res['A'] else 'db'}-newer", f"{nm[W]}.repl_merge_valueset({nm[O]})",
                  f"when the {nm[W]} side holds the newer change, merge_state does not call exactly {nm[W]}.repl_merge_valueset({nm[O]}): the merge bodies treat `self` as newer, "
                  "so a swapped or missing call loses the older side's revocations", file=fn["file"], line=arm["body"].get("line"))
    ctx.floor(R, "both-present rows", n, 2)


# ---------------------------------------------------------------------------
# trim: a RevokedAt record is the tombstone that lets a revocation win every merge. It may be dropped only once it is older
# than the changelog window (cid < trim_cid), and any forced size trim must choose its victims by data that is identical on
# every replica (issuance time), never by the session state, which differs between replicas until they converge.
# (added after seeded change C11: the force-trim index key became (live, issued_at), discarding revocations first)

def trim_rules(ctx):
    R = "K4-trim-keeps-revocations"
    F = ctx.facts
    names = F.find_fns(LIB, r"^kanidmd_lib::<valueset::session::ValueSet(Session|Oauth2Session|ApiToken) as valueset::ValueSetT>::trim$")
    ctx.floor(R, "session value-set trim functions", len(names), 2)
    for name in sorted(names):
        f = ctx.fn(LIB, name)
        ty = re.search(r"(ValueSet\w+) as", name).group(1)
        retains = [c for c in all_calls(f["body"]) if c.get("e") == "mcall" and c.get("name") == "retain"]
        if not ctx.check(len(retains) >= 1, R, name, f"{ty}:window-trim-found", "retain(..) over the session map",
                         f"{ty}::trim has no retain pass (shape not understood)", file=f["file"], line=f["line"]):
            continue
        first = retains[0]
        clos = [unwrap(a) for a in first["args"] if unwrap(a).get("e") == "closure"]
        inside = set()
        if clos:
            inside = {id(n) for n in walk(clos[0])}
            # every `false` (drop) outcome of the window trim is under RevokedAt(cid) with cid < trim_cid
            binds = pc.collect_binds(clos[0]["body"])
            drops = pc.site_conditions(clos[0]["body"], lambda n: n.get("e") == "lit" and n.get("lk") == "bool" and n.get("v") == "false")
            okd = bool(drops)
            for (site, conds) in drops:
                lits = pc.implied(conds, binds)
                rev = pc.arm_lit(lits, "SessionState::RevokedAt") is not None or pc.lit_has(lits, True, "def", "SessionState::RevokedAt")
                lt = any(p and leaf[1] == "expr" and unwrap(leaf[2]).get("e") == "bin" and unwrap(leaf[2]).get("op") == "<" for (p, leaf) in lits.values())
                okd = okd and rev and lt
            ctx.check(okd, R, name, f"{ty}:drops-only-expired-revocations", "window trim drops only RevokedAt(cid) with cid < trim_cid",
                      f"{ty}::trim's retain pass can drop a session that is not a revocation older than the trim point: a revocation inside the changelog "
                      "window (or a live session) disappears on this replica and a stale live copy elsewhere wins the next merge",
                      file=f["file"], line=first.get("line"))
        # outside the window trim nothing may look at the session state
        bad = [n for n in walk(f["body"]) if id(n) not in inside and not n.get("exp")
               and ((n.get("e") == "field" and n.get("f") == "state") or ("SessionState::" in (def_of(n) or "")))]
        ctx.check(not bad, R, name, f"{ty}:forced-trim-ignores-state", "the size trim orders by issuance only",
                  f"{ty}::trim consults the session state outside the changelog-window pass (line {bad[0].get('line') if bad else '?'}): a forced size trim that "
                  "prefers revoked sessions discards revocation records inside the replication window, and — since state differs between replicas "
                  "until they converge — replicas trim different sessions; the revocation is lost and the session becomes usable again",
                  file=f["file"], line=bad[0].get("line") if bad else None)
