"""C26 Recycle bin lifecycle — clause: the state transitions and the two retention cut-offs are wired as stated (K3/K8).

Decided (DESIGN.md C26):
 (a) K3-delete    `delete` writes its candidates back as `to_recycled()` entries (never `to_tombstone()`), and to_recycled adds
                  class=recycled and nothing of tombstone;
 (b) K3-revive    every ReviveRecycledEvent (struct literal anywhere) takes its filter from into_recycled()/filter_rec!; revive_recycled
                  searches and checks access with exactly that filter and writes `to_revived()` entries;
 (c) K8-purge-recycled  purge_recycled selects class=recycled ∧ LessThan(LastModifiedCid, self.cid − RECYCLEBIN_MAX_AGE) (the constant by
                  def-path, > 0), and rewrites exactly the selected entries as `to_tombstone()`;
 (d) K8-purge-tombstones  purge_tombstones passes trim_cid() to reap_tombstones; the write transaction's trim_cid is (new txn cid) −
                  CHANGELOG_MAX_AGE; reap_tombstones deletes only the `can_delete(trim_cid)` partition; can_delete: Live ⇒ false,
                  Tombstone{at} ⇒ at < trim_cid.
Not decided: behaviour over delete/revive/purge histories, memberships and cascade-deleted dependents after revive, clock handling.
"""
from .lib.hir import *
from .lib.x_g5 import (crates_with, struct_needle, Flow, Binds, peel, local_id, user_nodes, core_of, result_exprs, arm_variants)

META = dict(
    technique="static transition / cut-off wiring check on type-checked HIR (value provenance of the written entries and of the two cut-off change ids, constant item facts)",
    level_text="Exhaustive structural check of the four recycle-bin transitions: delete can only produce recycled entries, revive only acts on "
               "recycled-only filters, recycled entries become tombstones only below `cid − RECYCLEBIN_MAX_AGE` and tombstones are reaped only "
               "below `cid − CHANGELOG_MAX_AGE`, guarded by can_delete. A necessary clause of the lifecycle property; the tests script single "
               "delete/revive/purge cycles at fixed times.",
    level_note="Decides the wiring clause only. Not decided: histories, memberships and dependents after revive, time arithmetic inside Cid. "
               "Trusted: rustc name resolution/types and constant evaluation, the rule tables.",
)

LIB = "kanidmd_lib"
QSW = "<impl server::QueryServerWriteTransaction<'_>>::"
BEW = "kanidmd_lib::be::BackendWriteTransaction::<'a>::"
ENT_IC = "kanidmd_lib::entry::Entry::<entry::EntryInvalid, entry::EntryCommitted>::"
ENT_SC = "kanidmd_lib::entry::Entry::<entry::EntrySealed, entry::EntryCommitted>::"
TO_RECYCLED = ENT_IC + "to_recycled"
TO_REVIVED = ENT_IC + "to_revived"
TO_TOMBSTONE = ENT_SC + "to_tombstone"
WRAP_REC = ("kanidmd_lib::filter::Filter::<filter::FilterValid>::into_recycled",
            "kanidmd_lib::filter::Filter::<filter::FilterInvalid>::new_recycled")
EC = "kanidmd_lib::constants::entries::EntryClass::"
SUB_SECS = "kanidmd_lib::repl::cid::Cid::sub_secs"
RB = "kanidmd_lib::constants::RECYCLEBIN_MAX_AGE"
CL = "kanidmd_lib::constants::CHANGELOG_MAX_AGE"


def be_writes(body, name):
    return [c for c in walk(body) if c.get("e") == "mcall" and callee_of(c) == BEW + name]


def self_field(e, fname, fn):
    """`self.<fname>` (self = first parameter)."""
    e = peel(e)
    if e.get("e") == "mcall" and e["name"] == "clone":
        e = peel(e["recv"])
    selfloc = fn["params"][0]["pat"].get("local") if fn["params"] else None
    return e.get("e") == "field" and e.get("f") == fname and local_id(e["x"]) == selfloc


def run(ctx):
    _run_main(ctx)
    revive_restores_every_membership(ctx)


def _run_main(ctx):
    F = ctx.facts
    ctx.explanation = ("Recycle-bin wiring: delete → to_recycled only; revive only through recycled-only filters; purge_recycled cut-off is "
                       "LessThan(LastModifiedCid, cid − RECYCLEBIN_MAX_AGE); tombstones reaped only under can_delete(cid − CHANGELOG_MAX_AGE).")

    # ---- (a) delete ---------------------------------------------------------------------------------
    dele = ctx.fn(LIB, "kanidmd_lib::server::delete::" + QSW + "delete")
    ws = be_writes(dele["body"], "modify")
    ctx.floor("K3-delete", "be_txn.modify in delete", len(ws), 1)
    for i, w in enumerate(ws):
        fl = Flow(dele["body"], (TO_RECYCLED,))
        ctx.check(len(w["args"]) == 3 and fl.derived(w["args"][2]), "K3-delete", dele["fn"], f"writes:to_recycled#{i + 1}",
                  "post-state of the delete write = candidates.map(to_recycled)",
                  f"delete writes `{ex_s(w['args'][2])[:60] if len(w['args']) == 3 else '?'}` which is not derived from Entry::to_recycled(): a deleted entry would not be a recycled entry",
                  file=dele["file"], line=w.get("line"))
    tomb = [c for c in walk(dele["body"]) if c.get("e") in ("call", "mcall") and is_call_to(c, "to_tombstone")]
    ctx.check(not tomb, "K3-delete", dele["fn"], "never:to_tombstone", "delete never tombstones",
              "delete calls to_tombstone(): an entry can skip the recycle bin and become unrevivable at once", file=dele["file"], line=tomb[0].get("line") if tomb else None)
    rec = ctx.fn(LIB, TO_RECYCLED)
    tk = tokens(rec["body"])
    adds = [c for c in walk(rec["body"]) if c.get("e") == "mcall" and c["name"] == "add_ava" and mentions(c, "def", "attribute::Attribute::Class") and mentions(c, "def", EC + "Recycled")]
    ctx.check(bool(adds) and ("def:" + EC + "Tombstone") not in tk, "K3-delete", rec["fn"], "adds:class=recycled", "to_recycled adds class=recycled",
              "Entry::to_recycled no longer adds class=recycled (or mentions tombstone)", file=rec["file"], line=rec["line"])

    # ---- (b) revive -----------------------------------------------------------------------------------
    RRE = "kanidmd_lib::event::ReviveRecycledEvent"
    n = 0
    for crate in crates_with(F, struct_needle(RRE), "hir"):
        for name in F.fns_mentioning(crate, struct_needle(RRE)):
            d = F.fn(crate, name)
            if d.get("kind") not in ("fn", "assocfn"):
                continue
            for s in walk(d["body"]):
                if s.get("e") == "struct" and s["path"].get("def") == RRE:
                    n += 1
                    fx = [f["x"] for f in s["fields"] if f["f"] == "filter"]
                    fl = Flow(d["body"], WRAP_REC)
                    ctx.analysed_fns.add(d["fn"])
                    ctx.check(bool(fx) and "base" not in s and fl.derived(fx[0]), "K3-revive", d["fn"], "ReviveRecycledEvent.filter<-into_recycled",
                              "revive filter wrapped recycled-only",
                              f"{short(d['fn'])} builds a ReviveRecycledEvent whose filter `{ex_s(fx[0])[:60] if fx else '?'}` is not derived from into_recycled(): "
                              "a revive could select live or tombstoned entries", file=d["file"], line=s.get("line"))
    ctx.floor("K3-revive", "ReviveRecycledEvent constructions", n, 1)
    for w in WRAP_REC:
        wd = ctx.fn(LIB, w)
        ctx.check(any(callee_of(c) == "kanidmd_lib::filter::FilterComp::new_recycled" for c in walk(wd["body"]) if c.get("e") == "call"),
                  "K3-revive", w, "wraps:FilterComp::new_recycled", "wrapper = FilterComp::new_recycled", f"{short(w)} no longer wraps with FilterComp::new_recycled",
                  file=wd["file"], line=wd["line"])
    nr = ctx.fn(LIB, "kanidmd_lib::filter::FilterComp::new_recycled")
    tk = tokens(nr["body"])
    ctx.check(("def:" + EC + "Recycled") in tk and ("call:kanidmd_lib::filter::FilterComp::And") in tk and ("call:kanidmd_lib::filter::FilterComp::Or") not in tk,
              "K3-revive", nr["fn"], "shape:And(class=recycled,fc)", "recycled wrapper = And([class=recycled, fc])",
              "FilterComp::new_recycled is no longer And([class=recycled, fc])", file=nr["file"], line=nr["line"])
    rev = ctx.fn(LIB, "kanidmd_lib::server::recycle::" + QSW + "revive_recycled")
    re_param = None
    for p in rev["params"]:
        if "ReviveRecycledEvent" in p["ty"] and p["pat"].get("p") == "bind":
            re_param = p["pat"]["local"]

    def is_re_filter(e):
        e = peel(e)
        if e.get("e") == "mcall" and e["name"] == "clone":
            e = peel(e["recv"])
        return e.get("e") == "field" and e.get("f") == "filter" and local_id(e["x"]) == re_param
    srch = [c for c in walk(rev["body"]) if c.get("e") == "mcall" and callee_of(c) == "kanidmd_lib::server::QueryServerTransaction::impersonate_search_valid"]
    ctx.check(len(srch) == 1 and re_param is not None and is_re_filter(srch[0]["args"][0]) and is_re_filter(srch[0]["args"][1]), "K3-revive", rev["fn"],
              "selects-with:event.filter", "candidates selected with re.filter (recycled-only)",
              "revive_recycled no longer selects its candidates with the event's recycled-only filter", file=rev["file"], line=rev["line"])
    imp = [c for c in walk(rev["body"]) if c.get("e") == "call" and callee_of(c) == "kanidmd_lib::event::ModifyEvent::new_impersonate"]
    ctx.check(len(imp) == 1 and is_re_filter(imp[0]["args"][1]) and is_re_filter(imp[0]["args"][2]), "K3-revive", rev["fn"], "access-check-with:event.filter",
              "access checked with re.filter", "revive_recycled's access-check ModifyEvent no longer uses the event's filter", file=rev["file"], line=rev["line"])
    mps = [s for s in walk(rev["body"]) if s.get("e") == "struct" and s["path"].get("def") == "kanidmd_lib::server::modify::ModifyPartial"]
    ctx.floor("K3-revive", "ModifyPartial in revive_recycled", len(mps), 1)
    for s in mps:
        nc = [f["x"] for f in s["fields"] if f["f"] == "norm_cand"]
        fl = Flow(rev["body"], (TO_REVIVED,), through_mut=True)
        # norm_cand <- res? <- candidates.into_iter().map(validate..).collect(); candidates <- ...map(to_revived).collect()
        ctx.check(bool(nc) and fl.derived(nc[0]), "K3-revive", rev["fn"], "writes:to_revived", "revive writes to_revived() entries",
                  "the entries revive_recycled hands to modify_apply are not derived from Entry::to_revived()", file=rev["file"], line=s.get("line"))
    rvd = ctx.fn(LIB, TO_REVIVED)
    rm = [c for c in walk(rvd["body"]) if c.get("e") == "mcall" and c["name"] == "remove_ava" and mentions(c, "def", EC + "Recycled")]
    ctx.check(bool(rm), "K3-revive", rvd["fn"], "removes:class=recycled", "to_revived removes class=recycled", "Entry::to_revived no longer removes class=recycled",
              file=rvd["file"], line=rvd["line"])

    # ---- (c) purge_recycled ------------------------------------------------------------------------------
    pr = ctx.fn(LIB, "kanidmd_lib::server::recycle::" + QSW + "purge_recycled")
    subs = [c for c in walk(pr["body"]) if c.get("e") == "mcall" and callee_of(c) == SUB_SECS]
    ok = len(subs) == 1
    if ctx.check(ok, "K8-purge-recycled", pr["fn"], "one-cutoff", "one Cid::sub_secs", f"expected one Cid::sub_secs in purge_recycled, found {len(subs)}", file=pr["file"], line=pr["line"]):
        sub = subs[0]
        arg = core_of(sub["args"][0], Binds(pr["body"]))
        ctx.check(def_of(arg) == RB, "K8-purge-recycled", pr["fn"], "cutoff-age:RECYCLEBIN_MAX_AGE", "cut-off age = RECYCLEBIN_MAX_AGE",
                  f"purge_recycled subtracts `{ex_s(arg)[:50]}` instead of RECYCLEBIN_MAX_AGE: recycled entries become tombstones after the wrong retention period",
                  file=pr["file"], line=sub.get("line"))
        ctx.check(self_field(sub["recv"], "cid", pr), "K8-purge-recycled", pr["fn"], "cutoff-base:self.cid", "cut-off base = transaction cid",
                  f"purge_recycled's cut-off is computed from `{ex_s(sub['recv'])[:50]}`, not from the transaction's cid", file=pr["file"], line=sub.get("line"))
        lts = [c for c in walk(pr["body"]) if c.get("e") == "call" and callee_of(c) == "kanidmd_lib::filter::f_lt"]
        good = False
        for lt in lts:
            a0, a1 = peel(lt["args"][0]), peel(lt["args"][1])
            fl = Flow(pr["body"], (), extra_ok=lambda e: e is sub)
            if def_of(a0) == "kanidm_proto::attribute::Attribute::LastModifiedCid" and a1.get("e") == "call" and \
                    callee_of(a1) == "kanidmd_lib::value::PartialValue::new_cid" and fl.derived(a1["args"][0]):
                good = lt
        ctx.check(bool(good), "K8-purge-recycled", pr["fn"], "filter:LessThan(LastModifiedCid,cutoff)", "f_lt(LastModifiedCid, new_cid(cid − RECYCLEBIN_MAX_AGE))",
                  "purge_recycled no longer filters with f_lt(LastModifiedCid, <cid − RECYCLEBIN_MAX_AGE>)", file=pr["file"], line=pr["line"])
        searches = [c for c in walk(pr["body"]) if c.get("e") == "mcall" and callee_of(c) == "kanidmd_lib::server::QueryServerTransaction::internal_search"]
        sel = None
        for sc in searches:
            if good and any(x is good for x in walk(sc["args"][0])):
                arr = [a for a in walk(sc["args"][0]) if a.get("e") == "array" and any(x is good for x in a["xs"])]
                eqs = [x for a in arr for x in a["xs"] if x.get("e") == "call" and callee_of(x) == "kanidmd_lib::filter::f_eq"
                       and def_of(peel(x["args"][0])) == "kanidm_proto::attribute::Attribute::Class" and mentions(x["args"][1], "def", EC + "Recycled")]
                tks = tokens(sc["args"][0])
                ands = [c for c in walk(sc["args"][0]) if c.get("e") == "call" and callee_of(c) == "kanidmd_lib::filter::f_and"
                        and Flow(sc["args"][0], (), extra_ok=lambda e: any(e is a for a in arr)).derived(c["args"][0])]
                conj = len(ands) == 1 and not any(has_token(tks, "call", "filter::" + o) for o in ("f_or", "f_andnot", "f_inc", "f_invalid"))
                if eqs and conj:
                    sel = sc
        ctx.check(sel is not None, "K8-purge-recycled", pr["fn"], "filter:And(class=recycled,LessThan)", "selection = class=recycled ∧ LessThan(..)",
                  "purge_recycled's selection is no longer the conjunction class=recycled ∧ LessThan(LastModifiedCid, cutoff)", file=pr["file"], line=pr["line"])
        ws = be_writes(pr["body"], "modify")
        ctx.floor("K8-purge-recycled", "be_txn.modify in purge_recycled", len(ws), 1)
        for w in ws:
            f_pre = Flow(pr["body"], (), extra_ok=lambda e: e is sel)
            f_post = Flow(pr["body"], (TO_TOMBSTONE,))
            ctx.check(sel is not None and f_pre.derived(w["args"][1]), "K8-purge-recycled", pr["fn"], "rewrites:selected-only", "pre-state = the selected entries",
                      "purge_recycled rewrites entries other than the ones selected by the cut-off filter", file=pr["file"], line=w.get("line"))
            ctx.check(f_post.derived(w["args"][2]), "K8-purge-recycled", pr["fn"], "writes:to_tombstone", "post-state = selected.map(to_tombstone)",
                      "purge_recycled no longer writes to_tombstone() entries", file=pr["file"], line=w.get("line"))
    for hname, ctor in (("f_lt", "LessThan"), ("f_and", "And")):
        flt = ctx.fn(LIB, "kanidmd_lib::filter::" + hname)
        r = [peel(x) for (x, _) in result_exprs(flt["body"])]
        ctx.check(len(r) == 1 and r[0].get("ctor", "").endswith("filter::FC::" + ctor), "K8-purge-recycled", flt["fn"], f"{hname}={ctor}", f"{hname} builds FC::{ctor}",
                  f"{hname} no longer builds FC::{ctor}", file=flt["file"], line=flt["line"])
    for cname in (RB, CL):
        v = F.const_val(LIB, cname)
        ctx.check(v is not None and v > 0, "K8-const", cname, "positive", f"{short(cname, 1)} = {v} s", f"{cname} has no positive compile-time value ({v})")
        ctx.sample(f"{short(cname, 1)} = {v} s (non-test build)")

    # ---- (d) purge_tombstones ---------------------------------------------------------------------------------
    pt = ctx.fn(LIB, "kanidmd_lib::server::recycle::" + QSW + "purge_tombstones")
    acc = ctx.fn1(LIB, r"^kanidmd_lib::server::QueryServerWriteTransaction::<'.*>::trim_cid$")
    r = [peel(x) for (x, _) in result_exprs(acc["body"])]
    ctx.check(len(r) == 1 and self_field(r[0], "trim_cid", acc), "K8-purge-tombstones", acc["fn"], "returns:self.trim_cid", "trim_cid() = &self.trim_cid",
              "QueryServerWriteTransaction::trim_cid() no longer returns the trim_cid field", file=acc["file"], line=acc["line"])
    reaps = be_writes(pt["body"], "reap_tombstones")
    ctx.floor("K8-purge-tombstones", "reap_tombstones calls in purge_tombstones", len(reaps), 1)
    for w in reaps:
        fl = Flow(pt["body"], (acc["fn"],))
        ctx.check(len(w["args"]) == 2 and fl.derived(w["args"][1]), "K8-purge-tombstones", pt["fn"], "passes:trim_cid()", "reap_tombstones(_, trim_cid())",
                  f"purge_tombstones passes `{ex_s(w['args'][1])[:50] if len(w['args']) == 2 else '?'}` as the trim point instead of self.trim_cid()", file=pt["file"], line=w.get("line"))
    QSWT = "kanidmd_lib::server::QueryServerWriteTransaction"
    n = 0
    for name in F.fns_mentioning(LIB, struct_needle(QSWT)):
        d = F.fn(LIB, name)
        if d.get("kind") not in ("fn", "assocfn"):
            continue
        for s in walk(d["body"]):
            if s.get("e") == "struct" and s["path"].get("def") == QSWT:
                n += 1
                ctx.analysed_fns.add(d["fn"])
                tv = [f["x"] for f in s["fields"] if f["f"] == "trim_cid"]
                cv = [f["x"] for f in s["fields"] if f["f"] == "cid"]
                subs = [c for c in walk(d["body"]) if c.get("e") == "mcall" and callee_of(c) == SUB_SECS]
                fl = Flow(d["body"], (SUB_SECS,))
                ok = bool(tv) and fl.derived(tv[0]) and fl.hit is not None
                ctx.check(ok, "K8-purge-tombstones", d["fn"], "trim_cid<-sub_secs", "trim_cid = cid.sub_secs(..)",
                          "the write transaction's trim_cid is not computed with Cid::sub_secs", file=d["file"], line=s.get("line"))
                if ok:
                    sub = fl.hit
                    arg = core_of(sub["args"][0], Binds(d["body"]))
                    ctx.check(def_of(arg) == CL, "K8-purge-tombstones", d["fn"], "trim-age:CHANGELOG_MAX_AGE", "trim age = CHANGELOG_MAX_AGE",
                              f"the write transaction's trim_cid subtracts `{ex_s(arg)[:50]}` instead of CHANGELOG_MAX_AGE: tombstones are reaped on the wrong schedule",
                              file=d["file"], line=sub.get("line"))
                    same = bool(cv) and local_id(sub["recv"]) is not None and local_id(sub["recv"]) == local_id(cv[0])
                    newl = [c for c in walk(d["body"]) if c.get("e") == "assign" and local_id(peel(c["l"])) == local_id(sub["recv"]) and
                            callee_of(peel(c["r"])) == "kanidmd_lib::repl::cid::Cid::new_lamport"]
                    ctx.check(same and bool(newl), "K8-purge-tombstones", d["fn"], "trim-base:txn-cid", "trim base = the transaction's new cid",
                              "trim_cid is not computed from the transaction's own (new_lamport) cid", file=d["file"], line=sub.get("line"))
    ctx.floor("K8-purge-tombstones", "QueryServerWriteTransaction constructions", n, 1)
    reap = ctx.fn(LIB, BEW + "reap_tombstones")
    trim_param = reap["params"][2]["pat"].get("local") if len(reap["params"]) >= 3 else None
    parts = []
    for c in walk(reap["body"]):
        if c.get("e") == "mcall" and is_call_to(c, "Iterator::partition") and c["args"]:
            cl = unwrap(c["args"][0])
            if cl.get("e") == "closure":
                t = [peel(x) for (x, _) in result_exprs(cl["body"])]
                if len(t) == 1 and t[0].get("e") == "mcall" and callee_of(t[0]) == "kanidmd_lib::repl::entry::EntryChangeState::can_delete" \
                        and local_id(t[0]["args"][0]) == trim_param and trim_param is not None:
                    parts.append(c)
    ctx.check(len(parts) == 1, "K8-purge-tombstones", reap["fn"], "partition:can_delete(trim_cid)", "entries partitioned by can_delete(trim_cid)",
              "reap_tombstones no longer partitions the candidates with can_delete(trim_cid)", file=reap["file"], line=reap["line"])
    dels = [c for c in walk(reap["body"]) if c.get("e") == "mcall" and c["name"] == "delete_identry"]
    ctx.floor("K8-purge-tombstones", "delete_identry calls in reap_tombstones", len(dels), 1)
    for dl in dels:
        fl = Flow(reap["body"], (), extra_ok=lambda e: any(e is p for p in parts))
        ok = fl.derived(dl["args"][0]) and fl.hit_path == (("tuple", 0),)
        ctx.check(ok, "K8-purge-tombstones", reap["fn"], "deletes:can_delete-partition", "delete_identry(ids of the can_delete partition)",
                  f"reap_tombstones deletes `{ex_s(dl['args'][0])[:50]}`, which is not the id list of the can_delete(trim_cid) partition: "
                  "tombstones newer than the changelog window (or live entries) could be removed for good", file=reap["file"], line=dl.get("line"))
    cd = ctx.fn(LIB, "kanidmd_lib::repl::entry::EntryChangeState::can_delete")
    cid_param = cd["params"][1]["pat"].get("local") if len(cd["params"]) >= 2 else None
    ms = [m for m in user_nodes(cd["body"]) if m.get("e") == "match" and m.get("src") == "Normal"]
    seen = set()
    for m in ms[:1]:
        for a in m["arms"]:
            for v in arm_variants(a):
                t = peel(a["body"])
                if v.endswith("State::Live"):
                    seen.add("Live")
                    ctx.check(t.get("e") == "lit" and t.get("v") == "false", "K8-purge-tombstones", cd["fn"], "Live=>false", "Live => false",
                              "can_delete returns non-false for a live entry", file=cd["file"], line=a["body"].get("line"))
                elif v.endswith("State::Tombstone"):
                    seen.add("Tombstone")
                    from .lib.x_g5 import pattern_locals
                    at = set(pattern_locals(a["pat"]).keys())
                    ok = t.get("e") == "bin" and t["op"] == "<" and local_id(t["l"]) in at and local_id(t["r"]) == cid_param
                    ctx.check(ok, "K8-purge-tombstones", cd["fn"], "Tombstone=>at<trim", "Tombstone{at} => at < trim_cid",
                              f"can_delete's tombstone arm is `{ex_s(t)[:50]}`, not `at < cid`", file=cd["file"], line=a["body"].get("line"))
                else:
                    ctx.check(t.get("e") == "lit" and t.get("v") == "false", "K8-purge-tombstones", cd["fn"], f"{short(v, 1)}=>false", "other states => false",
                              f"can_delete returns non-false for state {short(v, 1)}", file=cd["file"], line=a["body"].get("line"))
    ctx.check({"Live", "Tombstone"} <= seen, "K8-purge-tombstones", cd["fn"], "arms:Live,Tombstone", "can_delete table found",
              "can_delete is no longer a match over State::{Live, Tombstone}", file=cd["file"], line=cd["line"])
    ctx.exhaustive = True


# ---------------------------------------------------------------------------------------------------------------------
# revive_recycled restores direct memberships by building one modify list per group and applying each with
# internal_modify. Several revived entries can share a group, so the per-group list has to ACCUMULATE one
# Present(member, entry) per revived entry; a map that keeps one value per key (collect of (group, list) pairs, plain insert)
# silently drops all but the last entry. (added after seeded change C26: the accumulation loop rewritten as iterator + collect)

def revive_restores_every_membership(ctx):
    from .lib.x_chain import chain
    R = "K4-revive-restores-every-membership"
    f = ctx.fn(LIB, "kanidmd_lib::server::recycle::" + QSW + "revive_recycled")
    # the loop that applies the per-group modify lists
    loops = []
    for n in walk(f["body"]):
        if n.get("e") == "match" and "ForLoopDesugar" in n.get("src", ""):
            if any(c.get("e") == "mcall" and c.get("name") == "internal_modify" for c in walk(n)):
                it = unwrap(n["scrut"])
                src = it["args"][0] if it.get("e") == "call" and it.get("args") else it
                root, _ = chain(src)
                loops.append((n, root))
    if not ctx.check(len(loops) >= 1 and loops[0][1] is not None, R, f["fn"], "apply-loop-found", "for (group, mods) in <map> { internal_modify(..) }",
                     "the loop applying the per-group membership modify lists was not found (shape not understood)", file=f["file"], line=f["line"]):
        return
    L = loops[0][1]
    init = None
    for n in walk(f["body"]):
        if n.get("s") == "let" and n["pat"].get("p") == "bind" and n["pat"]["local"] == L and "init" in n:
            init = n["init"]
    names = chain(init)[1] if init is not None else []
    collected = "collect" in names or any(c.get("e") == "mcall" and c.get("name") == "collect" for c in walk(init or {}))
    accum = False
    for c in walk(f["body"]):
        if c.get("e") == "mcall" and c.get("name") in ("and_modify", "or_default", "or_insert_with", "or_insert"):
            r, nm = chain(c["recv"])
            if r == L and "entry" in nm:
                if c.get("name") == "and_modify":
                    accum = accum or any(x.get("e") == "mcall" and x.get("name") in ("push_mod", "push", "extend", "append") for x in walk(c["args"]))
        if c.get("e") == "mcall" and c.get("name") in ("push_mod", "push", "extend", "append"):
            r, nm = chain(c["recv"])
            if r == L and ("entry" in nm or "get_mut" in nm):
                accum = True
    ctx.check(accum and not collected, R, f["fn"], "per-group-modlist-accumulates", "map.entry(group).and_modify(push_mod).or_insert(..)",
              "revive_recycled builds the per-group membership modify lists " + ("by collecting (group, list) pairs into a map, which keeps only the LAST list per group"
              if collected else "without accumulating into an existing list for the same group") + ": when one revive covers two or more entries that were direct "
              "members of the same group, only one of them gets its membership back and the revive still reports success", file=f["file"],
              line=(init or f).get("line"))
