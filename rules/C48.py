"""C48 Upgrading the domain level preserves data and consistency — clause: the upgrade to the target level is dispatched,
applies every phase of the target level's data module, and every built-in entry/schema static of that module is in a phase
list (K8/K9).

Decided (DESIGN.md C48):
 (a) K9-dispatch   reload_domain_info_version has `if previous_version <= PREV && domain_info_version >= TGT { migrate_X()? }` with
                   TGT = DOMAIN_TGT_LEVEL and PREV = DOMAIN_PREVIOUS_TGT_LEVEL = TGT − 1 (compiler-evaluated constants); the bootstrap
                   match of initialise_helper maps TGT to the same migrate_X; migrate_X is not disabled by a constant guard;
 (b) K9-phases     migrate_X (and the schema helper it calls) use the phase functions of exactly one data module M, call every
                   phase_N function M defines, and hand phases 3..7 to internal_migrate_or_create_batch;
 (c) K8-statics    every static of M whose type is an entry/schema definition (anything but the ProtoFilter helpers and tracing
                   callsites) is referenced from a phase function of M, directly or through an entry-builder function of M it calls;
 (d) K3-batch      internal_migrate_or_create_batch propagates a failure of internal_migrate_or_create to its caller (otherwise a
                   failing built-in entry — and every later entry of the batch — is silently skipped while the upgrade reports success).
Not decided: preservation of user-created entries and their values, the consistency check after the upgrade, values of the
built-in entries after merge (gen_modlist_assert), ordering/reload requirements between phases.
"""
import re
from .lib.hir import *
from .lib.x_g5 import Flow, Binds, peel, local_id, user_nodes, result_exprs, core_of, is_try, try_inner, under_false_guard, diverges

META = dict(
    technique="static dispatch / registry-completeness check on type-checked HIR, item facts (static types, compiler-evaluated constants) and def-use of the built-in statics",
    level_text="Exhaustive structural check over the migration dispatcher and every built-in definition of the target level: the previous→target "
               "migration is dispatched and applies all phases of one data module, and each of the module's entry/schema statics is listed in a "
               "phase. A necessary clause of the upgrade property (an unlisted definition provably does not exist after the upgrade); the tests "
               "check a few attributes of a fixed data set.",
    level_note="Decides the dispatch / completeness clause only. Not decided: preservation of user data, post-upgrade consistency check, merged values "
               "of built-in entries. Trusted: rustc name resolution/types and constant evaluation, the rule tables.",
)

LIB = "kanidmd_lib"
CONST = "kanidmd_lib::constants::"
MIG = "kanidmd_lib::server::migrations::<impl server::QueryServerWriteTransaction<'_>>::"
# statics of a data module that are building blocks of other statics, not entries: by *type*
HELPER_TYPES = ("std::sync::lazy_lock::LazyLock<kanidm_proto::internal::raw::Filter>",)
NOISE_TYPES = ("tracing_core::callsite::DefaultCallsite", "tracing_core::metadata::Metadata<'static>")


def const_of(F, e):
    e = peel(e)
    d = def_of(e)
    if d and e.get("e") == "path" and str(e["res"].get("kind", "")).startswith("Const"):
        return d, F.const_val(LIB, d)
    return None, None


def cmp_const(F, e):
    """`<local> <op> CONST` -> (op, const def, value)"""
    e = peel(e)
    if e.get("e") == "bin" and e["op"] in ("<=", ">=", "<", ">", "=="):
        d, v = const_of(F, e["r"])
        if d and local_id(e["l"]) is not None:
            return e["op"], d, v, local_id(e["l"])
    return None


def const_truth(F, e):
    """Truth value of a condition built from literals, constants, comparisons, !, &&, || (None = unknown)."""
    e = peel(e)
    k = e.get("e")
    if k == "lit" and e.get("lk") == "bool":
        return e["v"] == "true"
    if k == "un" and e.get("op") == "Not":
        t = const_truth(F, e["x"])
        return None if t is None else not t
    if k == "bin" and e["op"] in ("&&", "||"):
        l, r = const_truth(F, e["l"]), const_truth(F, e["r"])
        if e["op"] == "&&":
            if l is False or r is False:
                return False
            return True if (l and r) else None
        if l is True or r is True:
            return True
        return False if (l is False and r is False) else None
    if k == "bin" and e["op"] in ("<", "<=", ">", ">=", "==", "!="):
        (_, a), (_, b) = const_of(F, e["l"]), const_of(F, e["r"])
        if a is None or b is None:
            return None
        return {"<": a < b, "<=": a <= b, ">": a > b, ">=": a >= b, "==": a == b, "!=": a != b}[e["op"]]
    return None


def run(ctx):
    _run_main(ctx)
    existing_builtin_always_asserted(ctx)


def _run_main(ctx):
    F = ctx.facts
    ctx.explanation = ("Upgrade wiring: the previous→target migration is dispatched by reload_domain_info_version and by the bootstrap match, it applies "
                       "every phase function of one data module, and every entry/schema static of that module is referenced from its phase functions.")
    tgt = F.const_val(LIB, CONST + "DOMAIN_TGT_LEVEL")
    prev = F.const_val(LIB, CONST + "DOMAIN_PREVIOUS_TGT_LEVEL")
    if not ctx.check(tgt is not None and prev is not None and prev == tgt - 1 and prev > 0, "K9-dispatch", CONST + "DOMAIN_TGT_LEVEL", "levels",
                     f"DOMAIN_TGT_LEVEL = {tgt}, DOMAIN_PREVIOUS_TGT_LEVEL = {prev}", f"DOMAIN_TGT_LEVEL = {tgt} / DOMAIN_PREVIOUS_TGT_LEVEL = {prev}: not consecutive compile-time levels"):
        return

    # ---- (a) dispatcher ------------------------------------------------------------------------------
    rl = ctx.fn1(LIB, r"^kanidmd_lib::server::QueryServerWriteTransaction::<'.*>::reload_domain_info_version$")
    rows = []
    for x in user_nodes(rl["body"]):
        if x.get("e") != "if":
            continue
        c = peel(x["cond"])
        if c.get("e") == "bin" and c["op"] == "&&":
            a, b = cmp_const(F, c["l"]), cmp_const(F, c["r"])
            if a and b:
                calls = [k for k in user_nodes(x["then"]) if k.get("e") == "mcall" and callee_of(k).startswith(MIG + "migrate_domain")]
                rows.append((a, b, calls, x))
    ctx.floor("K9-dispatch", "level-pair dispatch rows in reload_domain_info_version", len(rows), 1)
    hit = [r for r in rows if r[1][2] == tgt and r[1][0] == ">="]
    M = None
    if ctx.check(len(hit) == 1, "K9-dispatch", rl["fn"], "row:target-level", f"one dispatch row for target level {tgt}",
                 f"expected exactly one `.. && domain_info_version >= <level {tgt}>` dispatch row, found {len(hit)}: the upgrade to the target level is not dispatched",
                 file=rl["file"], line=rl["line"]):
        (a, b, calls, node) = hit[0]
        ctx.check(a[0] == "<=" and a[2] == prev and a[3] != b[3], "K9-dispatch", rl["fn"], "row:from-previous-level", f"previous_version <= {short(a[1], 1)} (= {a[2]})",
                  f"the target-level row is guarded by `{a[0]} {short(a[1], 1)}` (= {a[2]}), not `<= DOMAIN_PREVIOUS_TGT_LEVEL` (= {prev}): a database at the previous level is not upgraded",
                  file=rl["file"], line=node.get("line"))
        if ctx.check(len(calls) == 1, "K9-dispatch", rl["fn"], "row:calls-one-migration", "row calls one migrate_domain_* function",
                     f"the target-level row calls {len(calls)} migrate_domain_* functions", file=rl["file"], line=node.get("line")):
            M = callee_of(calls[0])
            # the call's failure propagates
            ok = any(is_try(t) and peel(try_inner(t)) is calls[0] for t in walk(node["then"]))
            ctx.check(ok, "K9-dispatch", rl["fn"], "row:propagates-error", "migrate_X()? propagates failure", "the migration's error is not propagated with `?`",
                      file=rl["file"], line=calls[0].get("line"))
        ctx.sample(f"{rl['file']}:{node.get('line')} previous_version <= {short(a[1], 1)}({a[2]}) && domain_info_version >= {short(b[1], 1)}({b[2]}) => {short(M or '?', 1)}")
    if M is None:
        return
    ih = ctx.fn1(LIB, r"^kanidmd_lib::server::migrations::<impl server::QueryServer>::initialise_helper$")
    boot = None
    for m in user_nodes(ih["body"]):
        if m.get("e") == "match" and m.get("src") == "Normal":
            for arm in m["arms"]:
                p = arm["pat"]
                if p.get("p") == "expr" and "path" in p and F.const_val(LIB, p["path"].get("def", "")) == tgt and p["path"].get("def", "").startswith(CONST):
                    cs = [callee_of(k) for k in user_nodes(arm["body"]) if k.get("e") == "mcall" and callee_of(k).startswith(MIG + "migrate_domain")]
                    boot = (cs, arm)
    ctx.check(boot is not None and boot[0] == [M], "K9-dispatch", ih["fn"], "bootstrap:target-level", f"bootstrap at level {tgt} runs {short(M, 1)}",
              f"initialise_helper's bootstrap arm for level {tgt} runs {[short(c, 1) for c in boot[0]] if boot else 'nothing'}, not {short(M, 1)}",
              file=ih["file"], line=boot[1]["body"].get("line") if boot else ih["line"])
    mf = ctx.fn(LIB, M)
    dead = under_false_guard(mf["body"])
    n_guard = 0
    for x in user_nodes(mf["body"]):
        if x.get("e") == "if" and id(x) not in dead and diverges(x["then"]):
            t = const_truth(F, x["cond"])
            n_guard += 1
            ctx.check(t is not True, "K9-dispatch", M, f"not-disabled-by-constant-guard#{n_guard}", "constant level guard is false",
                      f"{short(M, 1)} starts with a guard that is constantly true in this build (`{ex_s(x['cond'])[:80]}`): the target-level migration always returns early",
                      file=mf["file"], line=x.get("line"))

    # ---- (b) phases of one data module -----------------------------------------------------------------
    bodies = [mf]
    for k in user_nodes(mf["body"]):
        if k.get("e") == "mcall" and callee_of(k).startswith(MIG + "migrate_schema"):
            bodies.append(ctx.fn(LIB, callee_of(k)))
    phase_calls = {}
    for d in bodies:
        for k in user_nodes(d["body"]):
            if k.get("e") == "call":
                mm = re.match(r"^(kanidmd_lib::migration_data::\w+)::(phase_\d+_\w+)$", callee_of(k))
                if mm:
                    phase_calls.setdefault(mm.group(1), {})[mm.group(2)] = (k, d)
    if not ctx.check(len(phase_calls) == 1, "K9-phases", M, "single-data-module", f"phases come from {sorted(phase_calls)}",
                     f"{short(M, 1)} takes phase data from {sorted(phase_calls) or 'no module'}: expected exactly one migration_data module", file=mf["file"], line=mf["line"]):
        return
    MOD = next(iter(phase_calls))
    called = phase_calls[MOD]
    defined = sorted(n for n in F.find_fns(LIB, "^" + re.escape(MOD) + r"::phase_\d+_\w+$") if F.fn(LIB, n)["kind"] == "fn")
    ctx.floor("K9-phases", f"phase functions defined by {short(MOD, 1)}", len(defined), 7)
    for p in defined:
        nm = p.rsplit("::", 1)[1]
        ctx.check(nm in called, "K9-phases", M, f"applies:{nm}", f"{nm} applied", f"{short(M, 1)} never calls {short(MOD, 1)}::{nm}: that phase's built-in definitions are not applied by the upgrade",
                  file=mf["file"], line=mf["line"])
    batch = MIG + "internal_migrate_or_create_batch"
    for nm, (k, d) in sorted(called.items()):
        num = int(re.match(r"phase_(\d+)_", nm).group(1))
        if 3 <= num <= 7:
            holder = [c for c in user_nodes(d["body"]) if c.get("e") == "mcall" and callee_of(c) == batch and any(peel(a) is k for a in c["args"])]
            ok = len(holder) == 1 and any(is_try(t) and peel(try_inner(t)) is holder[0] for t in walk(d["body"]))
            ctx.check(ok, "K9-phases", M, f"batch-applies:{nm}", f"{nm} handed to internal_migrate_or_create_batch(..)?",
                      f"the entries of {nm} are not handed to internal_migrate_or_create_batch(..)?", file=d["file"], line=k.get("line"))

    # ---- (c) statics ------------------------------------------------------------------------------------
    statics = [i for i in F.items(LIB) if i["item"] == "static" and i["name"].startswith(MOD + "::") and i.get("ty") not in NOISE_TYPES]
    entry_statics = [i for i in statics if i.get("ty") not in HELPER_TYPES]
    helpers = [i for i in statics if i.get("ty") in HELPER_TYPES]
    ctx.floor("K8-statics", f"entry/schema statics of {short(MOD, 1)}", len(entry_statics), 200)
    seen, todo, reached = set(), list(defined), set()
    while todo:
        n = todo.pop()
        if n in seen:
            continue
        seen.add(n)
        d = F.fn(LIB, n)
        if d is None:
            continue
        ctx.analysed_fns.add(n)
        for t in tokens(d["body"]):
            kind, _, path = t.partition(":")
            if not path.startswith(MOD + "::"):
                continue
            tgt_d = F.fn(LIB, path)
            if tgt_d is None:
                continue
            if tgt_d["kind"] == "static":
                reached.add(path)
            elif tgt_d["kind"] == "fn" and kind == "call":
                todo.append(path)
    for i in sorted(entry_statics, key=lambda i: i["name"]):
        nm = i["name"][len(MOD) + 2:]
        ctx.check(i["name"] in reached, "K8-statics", MOD, f"in-phase-list:{nm}", f"{nm} listed",
                  f"built-in definition {nm} ({i.get('ty', '').replace('std::sync::lazy_lock::', '')}) is not referenced from any phase function of {short(MOD, 1)}: "
                  "it is never created or updated by the upgrade", file=i.get("file"), line=i.get("line"))
    ctx.sample(f"{short(MOD, 1)}: {len(reached & {i['name'] for i in entry_statics})} of {len(entry_statics)} entry/schema statics in phase lists; {len(helpers)} filter helpers excluded by type")
    ctx.notes.append(f"target level {tgt}, data module {MOD}, migration {M}; helper statics excluded by type: {sorted(h['name'][len(MOD) + 2:] for h in helpers)}")

    # ---- (d) batch failure propagation ----------------------------------------------------------------------
    bf = ctx.fn(LIB, batch)
    tf = [c for c in user_nodes(bf["body"]) if c.get("e") == "mcall" and is_call_to(c, "Iterator::try_for_each")
          and any(callee_of(k) == MIG + "internal_migrate_or_create" for k in walk(c["args"]) if k.get("e") == "mcall")]
    if ctx.check(len(tf) == 1, "K3-batch", bf["fn"], "applies-each-entry", "entries.try_for_each(internal_migrate_or_create)",
                 "internal_migrate_or_create_batch no longer applies internal_migrate_or_create to each entry with try_for_each", file=bf["file"], line=bf["line"]):
        fl = Flow(bf["body"], (), extra_ok=lambda e: e is tf[0])
        propagated = False
        for t in walk(bf["body"]):
            if is_try(t) and fl.derived(try_inner(t)):
                propagated = True
        for (x, kind) in result_exprs(bf["body"]):
            if fl.derived(x):
                propagated = True
            c = peel(x)
            if c.get("e") == "call" and callee_of(c) == "core::result::Result::Err" and kind == "return":
                propagated = True
        ctx.check(propagated, "K3-batch", bf["fn"], "swallows-error",
                  "a failing entry fails the batch",
                  "internal_migrate_or_create_batch logs and discards the error of internal_migrate_or_create (only debug builds assert): in a release build a built-in entry "
                  "that cannot be created or updated — and every later entry of the same phase, since try_for_each stops — is skipped while the migration continues and "
                  "the domain level is raised, so a built-in entry of the target level can be missing after a 'successful' upgrade",
                  file=bf["file"], line=tf[0].get("line"))
    ctx.exhaustive = True


# ---------------------------------------------------------------------------------------------------------------------
# On an upgrade the built-in entries already exist, so "every built-in entry carries every value its definition specifies"
# rests on one branch: internal_migrate_or_create_ignore_attrs asserts the definition onto the existing entry
# (gen_modlist_assert -> internal_modify). Every success exit of that function must be the create or that modify; a shortcut
# that returns Ok without the modify can leave a definition value missing. (added after seeded change C48: "skip the no-op
# modify" test that walked the database entry's attributes and so never noticed a definition attribute absent from it)

def existing_builtin_always_asserted(ctx):
    R = "K3-existing-builtin-asserted"
    f = ctx.fn1(LIB, r"^kanidmd_lib::server::migrations::<impl server::QueryServerWriteTransaction<'_>>::internal_migrate_or_create_ignore_attrs$")
    oks = [n for n in walk(f["body"], into_closures=False)
           if n.get("e") == "call" and (n.get("ctor") or "").endswith("core::result::Result::Ok") and not n.get("exp")]
    ctx.check(not oks, R, f["fn"], "no-success-without-create-or-modify", "success only as the result of internal_create / internal_modify",
              f"internal_migrate_or_create_ignore_attrs has an explicit `Ok(..)` exit (line {oks[0].get('line') if oks else '?'}): an existing built-in entry can be "
              "declared up to date without its definition being asserted onto it, so a value the current definition specifies (e.g. a default member an "
              "administrator removed) may be missing after a 'successful' upgrade", file=f["file"], line=oks[0].get("line") if oks else None)
    mods = [c for c in all_calls(f["body"]) if is_call_to(c, "internal_modify")]
    asserts = [c for c in all_calls(f["body"]) if is_call_to(c, "gen_modlist_assert")]
    creates = [c for c in all_calls(f["body"]) if is_call_to(c, "internal_create")]
    ctx.check(bool(mods) and bool(asserts) and bool(creates), R, f["fn"], "create-or-assert-paths-present",
              "internal_create for a missing entry; gen_modlist_assert + internal_modify for an existing one",
              "the create / assert-modify paths of internal_migrate_or_create_ignore_attrs were not found (shape not understood)", file=f["file"], line=f["line"])
