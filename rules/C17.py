"""C17 Group membership closure is always exact — clause: hook completeness of MemberOf (K2).

Decided: `MemberOf`'s own hook runs, unconditionally and propagated, in post-create, post-modify, post-batch-modify,
pre-delete, post-delete, post-repl-refresh and post-repl-incremental (last); the write operations call those
registries around the backend write on every success path; every post hook ends in the memberOf fix-point
(`apply_memberof`) on all of its success paths.
Not decided: that the fix-point computes the exact closure (do_group_memberof / do_leaf_memberof logic).
"""
from .lib.x_plugins import Pipelines, hook_nontrivial, hook_fn, delegates_to

META = dict(
    technique="static pipeline extraction (K2): ordered plugin-hook lists of Plugins::run_* resolved to the impl's own methods, "
              "must/may flow analysis of the write operations and of the MemberOf hooks",
    level_text="Every write path is enumerated from the type-checked code and shown to invoke MemberOf's own hook (after the backend write for the post "
               "hooks, before it for pre-delete), with failures propagated, and every post hook provably reaches the memberOf fix-point. A missing hook "
               "provably leaves memberOf stale; tests use fixed graphs of at most four groups.",
    level_note="Decides the hook-completeness clause only. NOT decided: the plugin's own logic, i.e. that apply_memberof computes exactly the "
               "transitive closure (memberOf) and the direct groups (directMemberOf) for arbitrary graphs and histories. Trusted: rustc's method resolution, rules/lib/x_plugins.py tables.",
)

PLUGIN = "MemberOf"
WHY = "memberOf / directMemberOf would not be recomputed after this kind of write and would go stale"
POST = ["run_post_create", "run_post_modify", "run_post_batch_modify", "run_post_delete", "run_post_repl_refresh",
        "run_post_repl_incremental"]
PRE = ["run_pre_delete"]


def run(ctx):
    ctx.explanation = ("K2 hook completeness: MemberOf's own hook is present, unconditional and propagated in post-create, post-modify, "
                       "post-batch-modify, pre-delete, post-delete, post-repl-refresh, post-repl-incremental (last there); the operations bracket the "
                       "backend write with the matching registries; each post hook reaches apply_memberof on every success path. "
                       "Exactness of the closure computed by the fix-point is not decided.")
    P = Pipelines(ctx)
    for run_ in POST + PRE:
        P.contains("K2-contains", run_, PLUGIN, WHY)
    P.check_registries("K2-propagated", POST + PRE, {PLUGIN})
    P.last("K2-order", "run_post_repl_incremental", PLUGIN,
           "memberOf must be computed after Spn and ReferentialIntegrity changed the replicated entries")
    P.check_ops("K2-op", POST + PRE)
    for hook in ["post_create", "post_modify", "post_batch_modify", "post_delete", "post_repl_refresh", "post_repl_incremental"]:
        rec = hook_nontrivial(ctx, "K2-hook-body", "memberof", PLUGIN, hook)
        delegates_to(ctx, "K2-hook-body", rec, ["plugins::memberof::apply_memberof"], "apply_memberof",
                     "the hook can succeed without running the memberOf fix-point")
    hook_nontrivial(ctx, "K2-hook-body", "memberof", PLUGIN, "pre_delete")
    writeback_detects_every_recomputed_attribute(ctx)


# ---------------------------------------------------------------------------------------------------------------------
# The plugin recomputes memberof AND directmemberof on a working copy and writes the copy back only "if a change
# occurred". The change test must look at every attribute it recomputed: an attribute that is cleared and rebuilt but
# not compared keeps its stale stored value whenever the others happen to be unchanged.
# (added after seeded change C17: the leaf write-back compared memberof only; a member reachable both directly and through
# a nested group kept a stale directmemberof when its direct link was removed)

def writeback_detects_every_recomputed_attribute(ctx):
    from .lib.hir import walk, unwrap, tokens
    R = "K4-writeback-compares-recomputed"
    LIBC = "kanidmd_lib"
    f = ctx.fn(LIBC, "kanidmd_lib::plugins::memberof::do_leaf_memberof")
    A = "kanidm_proto::attribute::Attribute::"
    recomputed = set()
    for n in walk(f["body"]):
        if n.get("e") == "mcall" and n.get("name") in ("purge_ava", "set_ava_set", "get_ava_refer_mut", "pop_ava") and not n.get("exp"):
            for t in tokens({"a": n.get("args", [])}):
                if t.startswith("def:" + A):
                    recomputed.add(t[len("def:" + A):])
    recomputed.discard("Class")
    ctx.floor(R, "attributes recomputed by do_leaf_memberof", len(recomputed), 2)
    # the `if` that guards pushing the (pre, post) pair to the change list
    guards = []
    for n in walk(f["body"]):
        if n.get("e") == "if" and any(c.get("e") == "mcall" and c.get("name") == "push" and not c.get("exp") for c in walk(n["then"])):
            guards.append(n)
    if not ctx.check(len(guards) >= 1, R, f["fn"], "writeback-guard-found", "if <changed> { changes.push(..) }",
                     "no change test guarding the write-back was found (shape not understood)", file=f["file"], line=f["line"]):
        return
    for g in guards:
        compared = {t[len("def:" + A):] for t in tokens(g["cond"]) if t.startswith("def:" + A)}
        missing = sorted(recomputed - compared)
        ctx.check(not missing, R, f["fn"], "compares:" + ",".join(sorted(recomputed)),
                  f"the change test looks at {sorted(compared)}",
                  f"do_leaf_memberof rebuilds {sorted(recomputed)} on every affected entry but decides whether to write the entry back by comparing only "
                  f"{sorted(compared)}: when {missing} changes alone (e.g. a direct membership is removed while the group is still reached through a nested "
                  "group) the stale stored value is kept, and no later operation repairs it", file=f["file"], line=g.get("line"))
