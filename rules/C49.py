"""C49 Accounts outside their validity window cannot authenticate anywhere.

Decided (DESIGN.md C49, inventory E.4):
 K3  each of the 13 authentication / credential-release entry points is dominated by a validity-window check whose failure
     denies: every *release sink* of the entry point (the value that lets the caller proceed: a non-denied session state, a bound
     LDAP token, an Identity, `true`, Ok(Some(..)), a RADIUS/unix token) carries, on every path, the positive literal of
     Account::is_within_valid_time / Account::check_within_valid_time / RadiusAccount::is_within_valid_time (or of a summarised
     wrapper that is itself one of the 13). For to_unixusertoken the decision is carried in the token (`valid:` field) and must be
     that check.
 K4  the checks themselves are window tests: valid_from <= now  ∧  now <= expire (either bound optional, strict or not), with
     Account::is_within_valid_time feeding the struct's own valid_from / expire, which every constructor fills from
     Attribute::AccountValidFrom / Attribute::AccountExpire.
 K1  (receiver types) the window attributes are never read from an Entry<EntryReduced, _> — an access-reduced view where
     "absent" means "not permitted", not "unset". Allow-listed: Account::try_from_entry_reduced (credential status display;
     gates nothing — its only caller is get_credentialstatus).  [F10 was RadiusAccount::try_from_entry_reduced]
 K1  who-may-construct: the release values are only built inside the inventoried entry points.
 K5-window-fields  valid_from / expire / radius_secret of Account (4 parsers), RadiusAccount, ServiceAccount are read from their own attributes.
Not decided: that no *other* front end exists outside kanidmd_lib; clock source; OAuth2 paths are covered through
check_oauth2_account_uuid_valid (C39 decides that they call it).
"""
import re
from collections import defaultdict
from .lib.hir import *
from .lib.pathcond import site_conditions, implied, collect_binds, render, leaf_tokens

META = dict(
    technique="sink path-conditions on type-checked HIR (K3) + receiver-type who-may-read inventory (K1) + template check of the window predicate (K4)",
    level_text="Every release site of every authentication / credential-release entry point found by the call facts is shown to be dominated "
               "by the validity-window predicate, the predicate is shown to be the two-sided window test over the account's valid-from / expire "
               "attributes, and those attributes are shown never to be read from an access-reduced entry (resolved receiver types). Quantifies "
               "over all accounts, times and callers by quantifying over code paths; tests probe one path each.",
    level_note="Decides: dominance of the 13 inventoried entry points by the window check, the shape of the check, source entry type of the "
               "window attributes, who may construct the release values. Not decided: front ends outside kanidmd_lib (the unix resolver honours "
               "UnixUserToken.valid: C43/C44), time source.",
)

LIB = "kanidmd_lib"
A_IS = "kanidmd_lib::idm::account::Account::is_within_valid_time"
A_CHECK = "kanidmd_lib::idm::account::Account::check_within_valid_time"
R_IS = "kanidmd_lib::idm::radius::RadiusAccount::is_within_valid_time"
CHECKS = (A_IS, A_CHECK, R_IS)
AWUP = "kanidmd_lib::idm::server::IdmServerAuthTransaction::<'_>::auth_with_unix_pass"

# entry point -> (sink kinds, extra accepted guard calls (summarised wrappers that are themselves entry points), min sinks)
ENTRIES = [
    ("kanidmd_lib::idm::authsession::AuthSession::new", [("ctor", "authsession::AuthSessionState::Init"), ("ctor", "authsession::AuthSessionState::InProgress")], (), 2),
    ("kanidmd_lib::idm::authsession::AuthSession::new_reauth", [("ctor", "new_reauth::State::Proceed")], (), 1),
    (AWUP, [("oksome",), ("call", "Password::verify")], (), 2),
    ("kanidmd_lib::idm::server::IdmServerAuthTransaction::<'_>::auth_ldap", [("struct", "idm::ldap::LdapBoundToken")], (AWUP,), 2),
    (r"re:^kanidmd_lib::idm::application::<impl .*IdmServerAuthTransaction<'_>>::application_auth_ldap$", [("struct", "idm::ldap::LdapBoundToken")], (), 1),
    ("kanidmd_lib::idm::account::Account::check_user_auth_token_valid", [("true",)], (), 4),
    ("kanidmd_lib::idm::serviceaccount::ServiceAccount::check_api_token_valid", [("true",)], (), 2),
    ("kanidmd_lib::idm::server::IdmServerTransaction::process_ldap_uuid_to_identity", [("call", "server::identity::Identity::new")], (), 1),
    ("kanidmd_lib::idm::server::IdmServerTransaction::client_certificate_to_identity", [("call", "server::identity::Identity::new")], (), 1),
    ("kanidmd_lib::idm::server::IdmServerTransaction::client_certificate_to_user_auth_token", [("call", "client_cert_info_to_userauthtoken")], (), 1),
    ("kanidmd_lib::idm::server::IdmServerTransaction::check_oauth2_account_uuid_valid", [("oksome",)], (), 1),
    ("kanidmd_lib::idm::radius::RadiusAccount::to_radiusauthtoken", [("struct", "RadiusAuthToken")], (), 1),
]
CARRIED = ("kanidmd_lib::idm::account::Account::to_unixusertoken", "UnixUserToken", "valid")

REDUCED_ALLOW = {
    "kanidmd_lib::idm::account::Account::try_from_entry_reduced":
        "credential status display only (IdmServerProxyReadTransaction::get_credentialstatus -> to_credentialstatus); gates nothing",
}
REDUCED_ACCOUNT_CALLERS = {"kanidmd_lib::idm::server::IdmServerProxyReadTransaction::<'_>::get_credentialstatus"}
WINDOW_ATTRS = ("Attribute::AccountExpire", "Attribute::AccountValidFrom")

# who may construct the release values
CONSTRUCTORS = {
    "RadiusAuthToken": {"kanidmd_lib::idm::radius::RadiusAccount::to_radiusauthtoken": "entry point 13"},
    "UnixUserToken": {"kanidmd_lib::idm::account::Account::to_unixusertoken": "entry point 12 (carries `valid`)"},
    "kanidmd_lib::idm::ldap::LdapBoundToken": {
        "kanidmd_lib::idm::server::IdmServerAuthTransaction::<'_>::auth_ldap": "entry point 4",
        "application_auth_ldap": "entry point 5",
        "kanidmd_lib::idm::account::Account::verify_application_password":
            "helper of entry point 5: only called from application_auth_ldap after its validity check (checked below)",
        "kanidmd_lib::idm::server::IdmServerAuthTransaction::<'_>::token_auth_ldap":
            "token bind: validate_and_parse_token_to_identity_token -> check_user_auth_token_valid / check_api_token_valid (entry points 6, 7; C32)",
    },
}


def is_sink(kinds):
    def f(n):
        if "e" not in n:
            return False
        for k in kinds:
            if k[0] == "ctor" and n.get("e") in ("call", "path") and def_of(n) and ends(def_of(n), k[1]) and not n.get("exp"):
                return True
            if k[0] == "struct" and n.get("e") == "struct" and ends(def_of(n), k[1]):
                return True
            if k[0] == "call" and n.get("e") in ("call", "mcall") and is_call_to(n, k[1]) and not n.get("exp"):
                return True
            if k[0] == "true" and n.get("e") == "lit" and n.get("lk") == "bool" and n.get("v") == "true" and not n.get("exp"):
                return True
            if k[0] == "oksome" and n.get("e") == "call" and ends(n.get("ctor") or "", "core::result::Result::Ok") and not n.get("exp"):
                a = unwrap(n["args"][0]) if n.get("args") else {}
                if a.get("e") == "call" and ends(a.get("ctor") or "", "core::option::Option::Some"):
                    return True
        return False
    return f


def guard_literal(lits, extra):
    """an implied positive literal that is (a local bound to) a validity check, or Some/Ok of a summarised wrapper."""
    for (pol, lf) in lits.values():
        if not pol:
            continue
        toks = leaf_tokens(lf)
        if lf[1] == "expr" and has_token(toks, "call", *CHECKS):
            e = unwrap(lf[2])
            # the literal must *be* the check (or `let ok = check(..)`), not merely mention it in an argument
            if e.get("e") in ("call", "mcall") and is_call_to(e, *CHECKS):
                return lf
        if extra and lf[1] in ("arm", "let", "ok"):
            if has_token(toks, "call", *extra):
                if lf[1] == "ok" or has_token(toks, "def", "core::option::Option::Some", "core::result::Result::Ok"):
                    return lf
    return None


def window_shape(fn, src_kind, from_name, exp_name):
    """Check that fn's body is  vmin = if let Some(v) = FROM { v <= now } else { true };  vmax = if let Some(e) = EXPIRE { now <= e } else { true };  vmin && vmax.
    FROM / EXPIRE are params (src_kind='param') or self fields (src_kind='field'). Returns (ok, why)."""
    body = fn["body"]
    binds = collect_binds(body)
    params = {}
    for p in fn["params"]:
        for n in walk(p["pat"]):
            if n.get("p") == "bind":
                params[n["name"]] = n["local"]

    def is_src(e, name):
        e = unwrap(e)
        if src_kind == "param":
            return e.get("e") == "path" and e["res"].get("local") == params.get(name)
        return e.get("e") == "field" and e.get("f") == name

    found = {}
    for n in walk(body):
        if n.get("e") == "if" and "else" in n:
            c = unwrap(n["cond"])
            if c.get("e") != "let":
                continue
            which = "from" if is_src(c["init"], from_name) else "expire" if is_src(c["init"], exp_name) else None
            if which is None:
                continue
            if not has_token(tokens(c["pat"]), "def", "core::option::Option::Some"):
                return False, f"{which}: pattern is not Some(..)"
            bound = [x["local"] for x in walk(c["pat"]) if x.get("p") == "bind"]
            cmp_ = unwrap(n["then"])
            els = unwrap(n["else"])
            if not (els.get("e") == "lit" and els.get("v") == "true"):
                return False, f"{which}: absent bound does not mean `true`"
            if cmp_.get("e") != "bin" or cmp_["op"] not in ("<", "<=", ">", ">="):
                return False, f"{which}: then-branch is not a comparison ({ex_s(cmp_)})"
            l, r = unwrap(cmp_["l"]), unwrap(cmp_["r"])
            lb = l.get("e") == "path" and l["res"].get("local") in bound
            rb = r.get("e") == "path" and r["res"].get("local") in bound
            if lb == rb:
                return False, f"{which}: comparison does not relate the bound to the current time ({ex_s(cmp_)})"
            less = cmp_["op"] in ("<", "<=")
            bound_is_lower = (lb and less) or (rb and not less)     # bound <= now
            if which == "from" and not bound_is_lower:
                return False, f"valid_from test is `{ex_s(cmp_)}`; expected valid_from <= now"
            if which == "expire" and bound_is_lower:
                return False, f"expire test is `{ex_s(cmp_)}`; expected now <= expire"
            found[which] = n
    if set(found) != {"from", "expire"}:
        return False, f"window tests found for {sorted(found)} only"
    # result is the conjunction of both
    tail = unwrap(body)
    while tail.get("e") == "blockexpr":
        tail = unwrap(tail["b"].get("tail", {}))
    if tail.get("e") != "bin" or tail["op"] != "&&":
        return False, f"result is `{ex_s(tail)}`, expected vmin && vmax"
    for side in (tail["l"], tail["r"]):
        s = unwrap(side)
        if s.get("e") == "path" and s["res"].get("local") in binds:
            s = unwrap(binds[s["res"]["local"]])
        if s not in [unwrap(x) for x in found.values()] and not any(s is unwrap(x) for x in found.values()):
            return False, "result does not combine exactly the two window tests"
    return True, ""


def derives_attr(expr, binds, attr_suffix, depth=3):
    if has_token(tokens(expr), "def", attr_suffix):
        return True
    if depth <= 0:
        return False
    for n in walk(expr):
        if n.get("e") == "path" and "local" in n["res"] and n["res"]["local"] in binds:
            if derives_attr(binds[n["res"]["local"]], binds, attr_suffix, depth - 1):
                return True
    return False


def run(ctx):
    _run_main(ctx)
    window_fields_parsed_from_their_attributes(ctx)


def _run_main(ctx):
    F = ctx.facts
    ctx.explanation = ("K3: every release sink of the 13 inventoried authentication / credential-release entry points is under the positive literal of the "
                       "validity-window check; K4: the checks are two-sided window tests fed from AccountValidFrom/AccountExpire; K1: those attributes are "
                       "never read from Entry<EntryReduced,_> (resolved receiver types), release values are only constructed in the entry points.")
    for c in CHECKS:
        ctx.fn(LIB, c)

    # ---- K1 inventory: who calls a validity check ------------------------------------
    callers = defaultdict(set)
    for (caller, callee, resolved, ln, exp, sty) in F.calls(LIB):
        t = resolved or callee
        if t in CHECKS:
            callers[re.sub(r"(::\{closure#\d+\})+$", "", caller)].add(t)
    entry_names = []
    for (name, kinds, extra, minimum) in ENTRIES:
        if name.startswith("re:"):
            f = ctx.fn1(LIB, name[3:])
        else:
            f = ctx.fn(LIB, name)
        entry_names.append(f["fn"])
    entry_names.append(CARRIED[0])
    ctx.floor("K1-validity-inventory", "functions calling a validity-window check", len(callers), 13)
    for c in sorted(callers):
        known = c in entry_names or c in CHECKS
        ctx.check(known, "K1-validity-inventory", c, "inventoried",
                  f"calls {sorted(short(x) for x in callers[c])}",
                  f"{c} calls a validity-window check ({sorted(short(x) for x in callers[c])}) but is not in the rule's inventory of entry points: "
                  f"a new authentication / credential-release path must be added to the inventory so that its sinks are checked")

    # ---- K3 gates ----------------------------------------------------------------------
    for (name, kinds, extra, minimum), fname in zip(ENTRIES, entry_names):
        f = ctx.fn(LIB, fname)
        binds = collect_binds(f["body"])
        sites = site_conditions(f["body"], is_sink(kinds))
        ctx.floor("K3-validity-gate", f"{short(fname, 2)}: release sinks", len(sites), minimum)
        seen_inst = defaultdict(int)
        for (s, conds) in sites:
            lits = implied(conds, binds)
            g = guard_literal(lits, extra)
            kind = ("Ok(Some)" if s.get("e") == "call" and ends(s.get("ctor") or "", "Result::Ok") else
                    short(def_of(s), 1) if def_of(s) else short(callee_of(s), 1) if callee_of(s) else "true")
            seen_inst[kind] += 1
            inst = f"sink:{kind}" + (f"#{seen_inst[kind]}" if seen_inst[kind] > 1 else "")
            ctx.check(g is not None, "K3-validity-gate", fname, inst,
                      f"released only where the validity window holds",
                      f"{short(fname, 2)} reaches its release value `{ex_s(s)[:70]}` on a path where no validity-window check "
                      f"({[short(c, 2) for c in CHECKS]}) is known to have succeeded: an expired / not-yet-valid account can proceed here. Conditions: {render(lits)[:12]}",
                      file=f["file"], line=s.get("line"))
        ctx.sample(f"K3: {short(fname, 2)}: {len(sites)} release sink(s) under the validity window")
    # carried decision
    cf = ctx.fn(LIB, CARRIED[0])
    toks = [n for n in walk(cf["body"]) if n.get("e") == "struct" and def_of(n).endswith(CARRIED[1])]
    ctx.floor("K3-validity-gate", "to_unixusertoken: UnixUserToken sites", len(toks), 1)
    cb = collect_binds(cf["body"])
    for n in toks:
        fl = {x["f"]: x["x"] for x in n["fields"]}
        e = fl.get(CARRIED[2])
        ok = False
        if e is not None:
            e2 = unwrap(e)
            if e2.get("e") == "path" and e2["res"].get("local") in cb:
                e2 = unwrap(cb[e2["res"]["local"]])
            ok = e2.get("e") in ("call", "mcall") and is_call_to(e2, *CHECKS)
        ctx.check(ok, "K3-validity-gate", CARRIED[0], "UnixUserToken.valid",
                  "the token's `valid` flag is exactly is_within_valid_time(ct)",
                  f"UnixUserToken.valid is `{ex_s(e) if e is not None else 'missing'}` instead of the validity-window check: POSIX clients would treat an expired account as valid",
                  file=cf["file"], line=n.get("line"))

    # ---- K4 the predicate itself ------------------------------------------------------------
    chk = ctx.fn(LIB, A_CHECK)
    ok, why = window_shape(chk, "param", "valid_from", "expire")
    ctx.check(ok, "K4-window-predicate", A_CHECK, "two-sided-window", "valid_from <= now ∧ now <= expire (absent bound = unrestricted)",
              f"Account::check_within_valid_time is not the two-sided window test: {why}", file=chk["file"], line=chk["line"])
    rad = ctx.fn(LIB, R_IS)
    ok, why = window_shape(rad, "field", "valid_from", "expire")
    ctx.check(ok, "K4-window-predicate", R_IS, "two-sided-window", "valid_from < now ∧ now < expire (absent bound = unrestricted)",
              f"RadiusAccount::is_within_valid_time is not the two-sided window test: {why}", file=rad["file"], line=rad["line"])
    ais = ctx.fn(LIB, A_IS)
    cs = calls_in(ais["body"], "Account::check_within_valid_time")
    ok = len(cs) == 1 and len(cs[0]["args"]) == 3 and has_token(tokens(cs[0]["args"][1]), "field", "valid_from") and has_token(tokens(cs[0]["args"][2]), "field", "expire") \
        and unwrap(ais["body"]) is not None and is_call_to(unwrap(unwrap(ais["body"])["b"]["tail"]) if unwrap(ais["body"]).get("e") == "blockexpr" else unwrap(ais["body"]), "Account::check_within_valid_time")
    ctx.check(ok, "K4-window-predicate", A_IS, "delegates", "is_within_valid_time = check_within_valid_time(ct, self.valid_from, self.expire)",
              "Account::is_within_valid_time does not return check_within_valid_time(ct, self.valid_from, self.expire)", file=ais["file"], line=ais["line"])
    # direct callers of check_within_valid_time pass the two attributes in the right order
    for c in sorted(callers):
        if A_CHECK in callers[c] and c != A_IS:
            f = ctx.fn(LIB, c)
            b = collect_binds(f["body"])
            for call in calls_in(f["body"], "Account::check_within_valid_time"):
                ok = len(call["args"]) == 3 and derives_attr(call["args"][1], b, "Attribute::AccountValidFrom") and derives_attr(call["args"][2], b, "Attribute::AccountExpire") \
                    and not derives_attr(call["args"][1], b, "Attribute::AccountExpire") and not derives_attr(call["args"][2], b, "Attribute::AccountValidFrom")
                ctx.check(ok, "K4-window-predicate", c, "arguments", "check_within_valid_time(ct, <AccountValidFrom>, <AccountExpire>)",
                          f"{short(c, 2)} calls check_within_valid_time with ({ex_s(call['args'][1])[:60]}, {ex_s(call['args'][2])[:60]}); expected the entry's AccountValidFrom then AccountExpire",
                          file=f["file"], line=call.get("line"))
    # constructors fill valid_from / expire from the attributes
    n_ctor = 0
    for n in sorted(set(F.fns_mentioning(LIB, "Attribute::AccountExpire") + F.fns_mentioning(LIB, "Attribute::AccountValidFrom"))):
        f = F.fn(LIB, n)
        b = collect_binds(f["body"])
        for s in walk(f["body"]):
            if s.get("e") == "struct" and re.search(r"::(Account|RadiusAccount|ServiceAccount)$", def_of(s)):
                fl = {x["f"]: x["x"] for x in s["fields"]}
                if "valid_from" in fl or "expire" in fl:
                    n_ctor += 1
                    ctx.analysed_fns.add(n)
                    ok = ("valid_from" in fl and "expire" in fl and derives_attr(fl["valid_from"], b, "Attribute::AccountValidFrom")
                          and derives_attr(fl["expire"], b, "Attribute::AccountExpire")
                          and not derives_attr(fl["valid_from"], b, "Attribute::AccountExpire") and not derives_attr(fl["expire"], b, "Attribute::AccountValidFrom"))
                    ctx.check(ok, "K4-window-predicate", n, f"fields:{short(def_of(s), 1)}", "valid_from <- AccountValidFrom, expire <- AccountExpire",
                              f"{short(n, 2)} builds {short(def_of(s), 1)} with valid_from = `{ex_s(fl.get('valid_from', {}))[:50]}`, expire = `{ex_s(fl.get('expire', {}))[:50]}` "
                              f"— not the entry's AccountValidFrom / AccountExpire", file=f["file"], line=s.get("line"))
    ctx.floor("K4-window-predicate", "account constructors filling valid_from/expire", n_ctor, 6)

    # ---- K1 receiver types of the window attribute reads -----------------------------------
    reads = []
    for n in sorted(set(F.fns_mentioning(LIB, "Attribute::AccountExpire") + F.fns_mentioning(LIB, "Attribute::AccountValidFrom"))):
        f = F.fn(LIB, n)
        if f.get("kind") not in ("fn", "assocfn", "closure", None) and "static" in str(f.get("kind")):
            continue
        for x in walk(f["body"]):
            if x.get("e") == "mcall":
                attrs = [short(def_of(unwrap(a)), 1) for a in x["args"] if def_of(unwrap(a)).endswith(WINDOW_ATTRS)]
                if attrs and "entry::Entry<" in x.get("recv_ty", ""):
                    reads.append((n, f, x, attrs[0]))
    ctx.floor("K1-window-read-from-reduced-entry", "reads of AccountExpire/AccountValidFrom on an Entry", len(reads), 16)
    by_fn = defaultdict(list)
    for (n, f, x, a) in reads:
        by_fn[n].append((f, x, a))
    for n in sorted(by_fn):
        f = by_fn[n][0][0]
        ctx.analysed_fns.add(n)
        reduced = [(x, a) for (_, x, a) in by_fn[n] if "EntryReduced" in x.get("recv_ty", "")]
        tys = sorted({re.sub(r"^&(mut )?", "", x.get("recv_ty", "")) for (_, x, a) in by_fn[n]})
        if reduced and n in REDUCED_ALLOW:
            ctx.ok("K1-window-read-from-reduced-entry", n, "AccountExpire/AccountValidFrom", f"allow-listed: {REDUCED_ALLOW[n]}")
            continue
        ctx.check(not reduced, "K1-window-read-from-reduced-entry", n, "AccountExpire/AccountValidFrom",
                  f"{len(by_fn[n])} read(s) on {tys}",
                  f"{short(n, 2)} reads {sorted({a for (_, a) in reduced})} from an access-reduced entry ({tys}): in a reduced view an absent attribute means 'the requester may "
                  f"not read it', not 'unset', so a requester without read access to the window attributes sees every account as unrestricted and the validity check passes "
                  f"for expired accounts. Read the window from the full (sealed) entry.",
                  file=f["file"], line=(reduced[0][0].get("line") if reduced else f["line"]))
    # the allow-listed reduced constructor gates nothing: only get_credentialstatus calls it
    for allowed in REDUCED_ALLOW:
        cs = {re.sub(r"(::\{closure#\d+\})+$", "", caller) for (caller, callee, resolved, ln, exp, sty) in F.calls(LIB) if (resolved or callee) == allowed}
        for c in sorted(cs):
            ctx.check(c in REDUCED_ACCOUNT_CALLERS, "K1-window-read-from-reduced-entry", c, "calls:" + short(allowed, 2),
                      "only the credential-status display builds an Account from a reduced entry",
                      f"{c} builds an Account from a reduced entry ({short(allowed, 2)}); its validity window is unreliable there and must not gate anything — "
                      f"only {sorted(short(x, 1) for x in REDUCED_ACCOUNT_CALLERS)} may use it")
        for c in sorted(cs & REDUCED_ACCOUNT_CALLERS):
            f = ctx.fn(LIB, c)
            bad = [callee_of(x) for x in all_calls(f["body"]) if ends(callee_of(x), "is_within_valid_time", "to_unixusertoken", "to_userauthtoken", "to_radiusauthtoken", "to_reissue_userauthtoken")]
            ctx.check(not bad, "K1-window-read-from-reduced-entry", c, "reduced-account-gates-nothing", "reduced Account only rendered as credential status",
                      f"{short(c, 2)} uses an Account built from a reduced entry for {bad}", file=f["file"], line=f["line"])

    # ---- K1 who may construct the release values ---------------------------------------------
    for ty, allow in CONSTRUCTORS.items():
        n_sites = 0
        for n in F.fns_mentioning(LIB, ty.rsplit("::", 1)[-1]):
            if re.search(r" as core::clone::Clone>::clone$", n):
                continue          # derived Clone copies an existing value
            f = F.fn(LIB, n)
            sites = [x for x in walk(f["body"]) if x.get("e") == "struct" and (def_of(x) == ty or def_of(x).endswith("::" + ty))]
            if not sites:
                continue
            n_sites += len(sites)
            ok = any(n == a or n.endswith("::" + a) for a in allow)
            ctx.check(ok, "K1-release-constructors", n, "constructs:" + ty.rsplit("::", 1)[-1],
                      "constructed inside an inventoried entry point",
                      f"{n} constructs {ty}, a credential-release value, outside the inventoried entry points {sorted(short(a, 1) for a in allow)}: this path is not checked for the validity window",
                      file=f["file"], line=sites[0].get("line"))
        ctx.floor("K1-release-constructors", f"{ty.rsplit('::', 1)[-1]} construction sites", n_sites, 1)
    VAP = "kanidmd_lib::idm::account::Account::verify_application_password"
    vcallers = {re.sub(r"(::\{closure#\d+\})+$", "", caller) for (caller, callee, resolved, ln, exp, sty) in F.calls(LIB) if (resolved or callee) == VAP}
    ctx.floor("K1-release-constructors", "callers of verify_application_password", len(vcallers), 1)
    for c in sorted(vcallers):
        ctx.check(c.endswith("::application_auth_ldap"), "K1-release-constructors", c, "calls:verify_application_password",
                  "only application_auth_ldap (entry point 5) verifies application passwords",
                  f"{c} calls Account::verify_application_password (which builds an LDAP bound token) outside application_auth_ldap: not covered by that entry point's validity check")
    ctx.exhaustive = True


# ---------------------------------------------------------------------------------------------------------------------
# The window that every front end tests is the pair (valid_from, expire) of the parsed account structs. Each struct parser
# must read valid_from from account_valid_from and expire from account_expire (both Option<OffsetDateTime>: a swap or a copy
# compiles), and the RADIUS secret from radius_secret (shared engine rules/lib/x_fields.py).

def window_fields_parsed_from_their_attributes(ctx):
    from .lib.x_fields import check_field_sources
    A = "kanidmd_lib::idm::account::Account"
    W = {"valid_from": {"AccountValidFrom"}, "expire": {"AccountExpire"}}
    table = [(A + "::" + f, A, dict(W, radius_secret={"RadiusSecret"}))
             for f in ("try_from_entry_ro", "try_from_entry_with_policy", "try_from_entry_rw", "try_from_entry_reduced")]
    table.append(("kanidmd_lib::idm::radius::RadiusAccount::try_from_entry_reduced", "kanidmd_lib::idm::radius::RadiusAccount",
                  dict(W, radius_secret={"RadiusSecret"})))
    table.append(("kanidmd_lib::idm::serviceaccount::ServiceAccount::try_from_entry_rw", "kanidmd_lib::idm::serviceaccount::ServiceAccount", dict(W)))
    n = check_field_sources(ctx, LIB, "K5-window-fields", table,
                            "the validity window every front end tests is then not the one the administrator set (an expired account keeps authenticating)")
    ctx.floor("K5-window-fields", "window / secret fields traced to their attributes", n, 17)
