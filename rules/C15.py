"""C15 Every stored entry satisfies the schema — typestate argument, decided statically.

The backend only accepts `Entry<EntrySealed, _>`.  Decided:
 K1a who-may-construct: the only bodies (whole workspace, non-test build) that build `EntryValid{..}` / `EntrySealed{..}`
     are on the allow-list below (one reason each);
 K1b who-may-relabel: an `Entry{ valid: <moved marker>, .. }` literal producing a Valid/Sealed entry moves `attrs`
     unchanged and is on the allow-list;
 K1c who-may-mutate: attribute writes on an entry whose marker is EntryValid/EntrySealed (calls of the generic
     `&mut Entry<VALID,STATE>` primitives with such a receiver, and writes to `.attrs` of such an entry) are on the
     allow-list;
 K6  in `Entry<EntryInvalid,_>::validate` and `Entry<EntryRefresh,_>::validate` every success return is the
     (Err-preserving image of the) schema check `Entry<EntryValid,_>::validate`; `validate_repl` runs the check and
     moves a failing entry to the recycled conflict state;
 K2  the write operations (create, modify, batch_modify, delete, revive_recycled, and both replication consumers) call
     validate -> seal after the pre-write plugins and before the backend write; every function that calls a
     backend write has sealed before it (or receives the ModifyPartial token).
Not decided: the schema check's own logic (Entry<EntryValid>::validate / SchemaTransaction), schema edits that
narrow a definition already in use (excluded by the property).  K10 compile-fail witnesses are not built; the
facts they would show are read from the compiler's signatures instead (K1-typestate: backend writers take only
Entry<EntrySealed,_>, `seal` exists only on Entry<EntryValid,_>); field privacy of the markers is not in the facts.
"""
import re

from .lib.hir import walk, unwrap, callee_of, ends, short, def_of, tokens, has_token, ex_s
from .lib.x_plugins import (Pipelines, Flow, TokenFlow, success_exits, OPS, LIB, QSW, registry_call_name, be_write_kind, BE_WRITE_PREFIX)

META = dict(
    technique="typestate audit on compiler facts: who-may-construct / relabel / mutate a validated entry (K1), dominance of the schema check "
              "inside validate (K6), validate->seal placement in every write pipeline (K2)",
    level_text="All construction sites of the EntryValid/EntrySealed markers in the whole workspace build (test helpers excluded by cfg), every "
               "`Entry{..}` literal and every in-place attribute write on a validated entry are enumerated and matched against an explicit allow-list; with "
               "rustc's type check of `Backend*::{create,modify,refresh,incremental_apply}` (which only accept sealed entries) this shows that every stored "
               "entry went through the schema check, for all operation histories. Schema tests validate individual hand-built entries.",
    level_note="Decides the typestate clauses K1a-c, K6, K2 listed in rules/C15.py. NOT decided: the correctness of the schema check itself "
               "(Entry<EntryValid>::validate), narrowing schema edits (excluded by the property), and the optional K10 compile-fail witnesses were not built. "
               "Trusted: rustc's type check and resolution, the allow-lists in rules/C15.py.",
)

E = "kanidmd_lib::entry::"
VALID, SEALED = E + "EntryValid", E + "EntrySealed"
SCHEMA_CHECK = "kanidmd_lib::entry::Entry::<entry::EntryValid, STATE>::validate"
V_FNS = ("kanidmd_lib::entry::Entry::<entry::EntryInvalid, STATE>::validate",
         "kanidmd_lib::entry::Entry::<entry::EntryRefresh, STATE>::validate",
         "kanidmd_lib::entry::Entry::<entry::EntryIncremental, entry::EntryCommitted>::validate_repl")
SEAL = "kanidmd_lib::entry::Entry::<entry::EntryValid, STATE>::seal"

# K1a: function -> (markers it may build, reason)
CONSTRUCT_OK = {
    "kanidmd_lib::entry::Entry::<entry::EntryInvalid, STATE>::validate": ({"EntryValid"}, "the schema validation itself; Ok only if the schema check passes (K6)"),
    "kanidmd_lib::entry::Entry::<entry::EntryRefresh, STATE>::validate": ({"EntryValid"}, "schema validation of a replication refresh entry (K6)"),
    "kanidmd_lib::entry::Entry::<entry::EntryIncremental, entry::EntryCommitted>::validate_repl":
        ({"EntryValid"}, "replication: runs the schema check and moves a failing entry to the recycled conflict state (not live) (K6)"),
    "kanidmd_lib::entry::Entry::<entry::EntryValid, STATE>::seal": ({"EntrySealed"}, "only callable on an EntryValid entry; stamps last-modified/created cids"),
    "kanidmd_lib::entry::Entry::<entry::EntrySealed, entry::EntryCommitted>::from_dbentry":
        ({"EntrySealed"}, "re-loads what was stored (was sealed when written)"),
    "kanidmd_lib::entry::Entry::<entry::EntryIncremental, entry::EntryNew>::resolve_add_conflict":
        ({"EntrySealed"}, "conflict entry of a replication add-conflict: recycled + conflict class, not live"),
    "kanidmd_lib::entry::Entry::<entry::EntrySealed, entry::EntryCommitted>::stub_sealed_committed_id":
        ({"EntrySealed"}, "attribute-less replication stub, replaced in the same transaction by the merged, validated entry"),
    "kanidmd_lib::entry::Entry::<entry::EntrySealed, entry::EntryCommitted>::into_valid":
        ({"EntryValid"}, "re-labels an already sealed (hence validated) entry without attribute change"),
    "kanidmd_lib::<entry::EntryValid as core::clone::Clone>::clone": ({"EntryValid"}, "derived Clone of the marker (copies an existing validated marker)"),
    "kanidmd_lib::<entry::EntrySealed as core::clone::Clone>::clone": ({"EntrySealed"}, "derived Clone of the marker (copies an existing sealed marker)"),
}
CONSTRUCT_FLOOR = 10

# K1b: Entry{valid: <moved>, ..} producing a validated entry
RELABEL_OK = {
    "kanidmd_lib::entry::Entry::<entry::EntrySealed, entry::EntryNew>::into_sealed_committed_id": "assigns the backend id; marker and attrs moved unchanged",
    "kanidmd_lib::<entry::Entry<VALID, STATE> as core::clone::Clone>::clone": "field-wise clone of an existing entry",
}

# K1c: in-place mutation of a validated entry
MUTATE_CALLERS_OK = {
    "kanidmd_lib::entry::Entry::<entry::EntryIncremental, entry::EntryCommitted>::validate_repl":
        "adds recycled/conflict/source_uuid when the schema check failed: the entry becomes a (non-live) conflict",
    "kanidmd_lib::entry::Entry::<entry::EntrySealed, entry::EntryCommitted>::insert_claim":
        "in-memory claim on the identity's entry copy for one event; never handed to the backend",
}
ATTRS_WRITERS_OK = {
    "kanidmd_lib::entry::Entry::<entry::EntryValid, STATE>::seal": "stamps last_modified_cid / created_at_cid from the change state",
    "kanidmd_lib::entry::Entry::<entry::EntrySealed, STATE>::invalidate": "consumes the sealed entry and returns an EntryInvalid one (must be validated again)",
    "kanidmd_lib::entry::Entry::<VALID, STATE>::add_ava_int": "private generic primitive; its use on validated entries is restricted by K1c callers",
    "kanidmd_lib::entry::Entry::<VALID, STATE>::set_ava_iter_int": "private generic primitive; its use on validated entries is restricted by K1c callers",
}
MAP_MUT = ("insert", "remove", "retain", "get_mut", "entry", "clear", "append", "extend", "iter_mut", "values_mut", "pop_first", "pop_last",
           "split_off", "remove_entry", "first_entry", "last_entry")


def scan_crates(ctx):
    """quick tier: the server crates (the markers' fields are private to kanidmd_lib::entry, so a construction elsewhere
    cannot type-check); thorough tier: every workspace crate."""
    cs = ctx.facts.crates()
    if ctx.tier == "thorough":
        return cs
    return [c for c in cs if c.startswith("kanidmd")]


def check_construct(ctx):
    F = ctx.facts
    rule = "K1-construct"
    n_sites = 0
    seen_fns = set()
    for cr in scan_crates(ctx):
        names = set(F.fns_mentioning(cr, "entry::EntryValid")) | set(F.fns_mentioning(cr, "entry::EntrySealed"))
        for nm in sorted(names):
            d = F.fn(cr, nm)
            for n in walk(d["body"]):
                if n.get("e") in ("struct", "call", "path") and def_of(n) in (VALID, SEALED) and n.get("e") == "struct":
                    marker = short(def_of(n), 1)
                    n_sites += 1
                    seen_fns.add(nm)
                    ctx.analysed_fns.add(nm)
                    ok = nm in CONSTRUCT_OK and marker in CONSTRUCT_OK[nm][0]
                    ctx.check(ok, rule, nm, f"constructs:{marker}",
                              f"{marker}{{..}}: {CONSTRUCT_OK.get(nm, (None, ''))[1]}",
                              f"{short(nm, 2)} (crate {cr}) constructs {marker}{{..}} but is not on the allow-list of functions that may mark an entry "
                              f"as validated/sealed — it can produce an entry the backend accepts without the schema check",
                              file=d["file"], line=n.get("line"))
    ctx.floor(rule, "EntryValid/EntrySealed construction sites", n_sites, CONSTRUCT_FLOOR)
    for nm in CONSTRUCT_OK:
        if nm not in seen_fns:
            ctx.notes.append(f"allow-list entry no longer constructs a marker: {nm}")


def check_relabel(ctx):
    F = ctx.facts
    rule = "K1-relabel"
    n = 0
    for cr in scan_crates(ctx):
        for nm in sorted(F.fns_mentioning(cr, 'kanidmd_lib::entry::Entry"')):
            d = F.fn(cr, nm)
            ret = d.get("ret", "")
            for s in walk(d["body"]):
                if s.get("e") == "struct" and s["path"].get("def") == E + "Entry":
                    fs = {f["f"]: unwrap(f["x"]) for f in s["fields"]}
                    v = fs.get("valid")
                    if v is None:
                        continue
                    if v.get("e") in ("struct", "path", "call") and def_of(v).startswith(E + "Entry") and not (v.get("e") == "path" and "local" in v["res"]):
                        continue          # a freshly written marker: EntryValid/EntrySealed literals are K1a, the other markers are not validated states
                    # moved / cloned marker: which entry type results?
                    produces_validated = ("entry::EntrySealed" in ret or "entry::EntryValid" in ret or "Entry<VALID" in ret)
                    if not produces_validated:
                        continue
                    n += 1
                    ctx.analysed_fns.add(nm)
                    a = fs.get("attrs", {})
                    attrs_same = (a.get("e") == "field" and a.get("f") == "attrs") or \
                                 (a.get("e") == "mcall" and ends(callee_of(a), "clone") and unwrap(a["recv"]).get("e") == "field" and unwrap(a["recv"]).get("f") == "attrs")
                    ctx.check(nm in RELABEL_OK and attrs_same, rule, nm, "relabel",
                              f"marker moved, attrs unchanged: {RELABEL_OK.get(nm, '')}",
                              f"{short(nm, 2)} builds an Entry whose validated marker is taken from another entry (valid: {ex_s(v)}) "
                              + ("with different attributes" if not attrs_same else "and is not on the allow-list")
                              + " — a validated/sealed marker could be attached to attributes that were never checked",
                              file=d["file"], line=s.get("line"))
    ctx.floor(rule, "Entry{valid: <moved marker>} sites producing validated entries", n, 2)


def check_mutate(ctx):
    F = ctx.facts
    rule = "K1-mutate"
    # generic &mut primitives
    prims = set()
    for nm in F.find_fns(LIB, r"^kanidmd_lib::entry::Entry::<VALID, STATE>::"):
        d = F.fn(LIB, nm)
        if d["params"] and d["params"][0]["ty"].startswith("&mut entry::Entry<"):
            prims.add(nm)
    ctx.floor(rule, "generic in-place primitives on Entry<VALID,STATE>", len(prims), 2)
    n = 0
    for cr in scan_crates(ctx):
        for (caller, callee, resolved, ln, exp, sty) in F.calls(cr):
            c = resolved or callee
            if c in prims and sty in ("entry::EntrySealed", "entry::EntryValid"):
                n += 1
                base = caller.split("::{closure")[0]
                ctx.check(base in MUTATE_CALLERS_OK, rule, base, f"mutates:{short(c, 1)}:{short(sty, 1)}",
                          f"{short(c, 1)} on {short(sty, 1)} entry: {MUTATE_CALLERS_OK.get(base, '')}",
                          f"{short(base, 2)} calls {short(c, 1)} on an {short(sty, 1)} entry (line {ln}): attributes of an already validated entry are "
                          f"changed in place without re-validation, and the caller is not on the allow-list")
    ctx.floor(rule, "in-place mutations of validated entries", n, 2)
    # direct writes to `.attrs` of a validated / generic entry
    m = 0
    for nm in F.fns_mentioning(LIB, '"f":"attrs"'):
        d = F.fn(LIB, nm)
        for x in walk(d["body"]):
            tgt = None
            if x.get("e") == "mcall" and short(callee_of(x), 1) in MAP_MUT:
                r = unwrap(x["recv"])
                if r.get("e") == "field" and r.get("f") == "attrs":
                    tgt = r
            elif x.get("e") in ("assign", "assignop"):
                l = unwrap(x["l"])
                if l.get("e") == "field" and l.get("f") == "attrs":
                    tgt = l
            if tgt is None:
                continue
            xty = tgt.get("xty", "")
            if not re.search(r"entry::Entry<(entry::EntrySealed|entry::EntryValid|VALID)\b", xty):
                continue
            m += 1
            ctx.analysed_fns.add(nm)
            ctx.check(nm in ATTRS_WRITERS_OK, rule, nm, "writes-attrs",
                      f"writes .attrs of {xty}: {ATTRS_WRITERS_OK.get(nm, '')}",
                      f"{short(nm, 2)} writes the attribute map of a {xty} directly and is not on the allow-list — a validated entry changes without re-validation",
                      file=d["file"], line=x.get("line"))
    ctx.floor(rule, "direct attribute-map writes on validated/generic entries", m, 6)


def check_validate(ctx):
    F = ctx.facts
    rule = "K6-validate"
    is_check = lambda n: n.get("e") in ("call", "mcall") and callee_of(n) == SCHEMA_CHECK
    ctx.fn(LIB, SCHEMA_CHECK)
    for nm in V_FNS[:2]:
        rec = ctx.fn(LIB, nm)
        fl = Flow(F, LIB, {"C": is_check}, no_inline={SCHEMA_CHECK})
        exits = fl.run(rec)
        succ = success_exits(exits)
        bad = [x for x in succ if "C" not in x.st.must]
        ctx.check(bool(succ) and not bad, rule, nm, "ok-implies-schema-check", f"all {len(succ)} success return(s) are the schema check's Ok",
                  f"{short(nm, 2)} can return Ok(entry marked EntryValid) on a path where Entry<EntryValid>::validate(schema) did not succeed "
                  f"(exit at line {[x.node.get('line') for x in bad][:3]}): an entry violating the schema would be marked valid and could be sealed and stored",
                  file=rec["file"], line=(bad[0].node.get("line") if bad else rec["line"]))
    # validate_repl: infallible; a failing entry becomes a recycled conflict
    rec = ctx.fn(LIB, V_FNS[2])
    guard = None
    for n in walk(rec["body"], into_closures=False):
        if n.get("e") == "if" and not n.get("exp"):
            c = unwrap(n["cond"])
            if c.get("e") == "let" and is_check(unwrap(c["init"])) and has_token(tokens(c["pat"]), "def", "core::result::Result::Err"):
                guard = n
    ok = guard is not None and has_token(tokens(guard["then"]), "def", "EntryClass::Recycled") and has_token(tokens(guard["then"]), "def", "EntryClass::Conflict")
    ctx.check(ok, rule, rec["fn"], "failed-check=>recycled-conflict", "if let Err(_) = ne.validate(schema) { + Recycled + Conflict }",
              "validate_repl no longer turns an entry that fails the schema check into a recycled conflict entry: a replicated entry violating the schema "
              "would stay live", file=rec["file"], line=rec["line"])
    fl = Flow(F, LIB, {"C": is_check}, no_inline={SCHEMA_CHECK})
    exits = fl.run(rec)
    cs = fl.ordered_sites("C")
    ctx.check(bool(cs) and all(not s.in_closure and not s.in_loop for s in cs) and all("C" in x.st.may for x in success_exits(exits)),
              rule, rec["fn"], "always-checks", "schema check on every path", "validate_repl has a path that returns without running the schema check",
              file=rec["file"], line=rec["line"])


def check_pipelines(ctx):
    F = ctx.facts
    rule = "K2-validate-seal"
    P = Pipelines(ctx)
    ops = ["create", "modify", "batch_modify", "delete", "revive_recycled", "consumer_refresh_create_entries", "consumer_incremental_apply_entries"]
    extra = {"V": lambda n: n.get("e") in ("call", "mcall") and callee_of(n) in V_FNS,
             "S": lambda n: n.get("e") in ("call", "mcall") and callee_of(n) == SEAL}
    for op in ops:
        o = OPS[op]
        if "token" in o:
            # validate -> seal happen where the ModifyPartial token is built
            tok = o["token"]
            is_tok = lambda x, _t=tok: x.get("e") == "struct" and x["path"].get("def") == _t
            n_sites = 0
            for nme in sorted(F.fns_mentioning(LIB, tok)):
                d = F.fn(LIB, nme)
                if not any(is_tok(x) for x in walk(d["body"])):
                    continue
                ev = {"P": lambda x, _o=o: registry_call_name(x) == _o["pre"], "T": is_tok}
                ev.update(extra)
                fl = TokenFlow(F, LIB, ev, no_inline=P.roots() - {nme})
                fl.run(d)
                ctx.analysed_fns.add(nme)
                for s in fl.ordered_sites("T"):
                    n_sites += 1
                    vs = [v for v in fl.ordered_sites("V") if "P" in v.st.must]
                    ss = [x for x in fl.ordered_sites("S") if "V" in x.st.may]
                    ctx.check(bool(vs) and bool(ss) and "V" in s.st.may and "S" in s.st.may, rule, nme, "pre<validate<seal<ModifyPartial",
                              "pre-plugins, then validate, then seal, then the ModifyPartial handed to modify_apply",
                              f"{short(nme, 1)} builds the ModifyPartial given to the backend write without validate -> seal having run after "
                              f"Plugins::{o['pre']} (validate after pre: {bool(vs)}, seal after validate: {bool(ss)})", file=d["file"], line=s.node.get("line"))
            ctx.floor(rule, "ModifyPartial construction sites", n_sites, 2)
            continue
        root, fl, exits, _ = P.analyse_op(op, extra)
        fn = root["fn"]
        ws = [w for w in fl.ordered_sites("W") if "P" in w.st.must]
        vs = [v for v in fl.ordered_sites("V") if "P" in v.st.must]
        ss = [x for x in fl.ordered_sites("S") if "V" in x.st.may]
        ok = bool(ws) and bool(vs) and bool(ss) and all("V" in w.st.may and "S" in w.st.may for w in ws) \
            and all(v.idx < w.idx for v in vs[:1] for w in ws)
        ctx.check(ok, rule, fn, "pre<validate<seal<write",
                  f"Plugins::{o['pre']} < validate@{[v.node.get('line') for v in vs]} < seal@{[x.node.get('line') for x in ss]} < be_txn.{o['write']}",
                  f"{op}: validate -> seal is not placed between Plugins::{o['pre']} and be_txn.{o['write']} "
                  f"(validate after pre-plugins: {bool(vs)}, seal after validate: {bool(ss)}, both before the write: "
                  f"{bool(ws) and all('V' in w.st.may and 'S' in w.st.may for w in ws)}) — plugins could alter an entry after it was validated",
                  file=root["file"], line=root["line"])
    # every backend writer seals first
    writers = {}
    for (caller, callee, resolved, ln, exp, sty) in F.calls(LIB):
        c = resolved or callee
        if c.startswith(BE_WRITE_PREFIX) and c[len(BE_WRITE_PREFIX):] in ("create", "modify", "refresh", "incremental_apply"):
            writers.setdefault(caller.split("::{closure")[0], []).append((c[len(BE_WRITE_PREFIX):], ln))
    ctx.floor(rule, "functions calling a backend entry write", len(writers), 9)
    for w in sorted(writers):
        d = ctx.fn(LIB, w)
        ev = {"W": lambda n: be_write_kind(n) is not None}
        ev.update(extra)
        fl = Flow(F, LIB, ev, no_inline=set(writers) - {w})
        fl.run(d)
        token = any("ModifyPartial" in p["ty"] for p in d["params"])
        for s in fl.ordered_sites("W"):
            ok = token or ("S" in s.st.may and "V" in s.st.may)
            ctx.check(ok, rule, w, f"sealed-before:be_txn.{be_write_kind(s.node)}",
                      "validate -> seal before the write" if not token else "entries arrive in a ModifyPartial (sealed where it was built)",
                      f"{short(w, 1)} calls be_txn.{be_write_kind(s.node)} at a point where no validate -> seal has run in this function "
                      f"(and it does not receive a ModifyPartial): the sealed entries it writes come from somewhere the rule does not see",
                      file=d["file"], line=s.node.get("line"))


def check_typestate_facts(ctx):
    """What the K10 compile-fail witnesses would show, read from the compiler's own signatures instead:
    the backend entry writers accept only Entry<EntrySealed,_>, and `seal` exists only on Entry<EntryValid,_>."""
    F = ctx.facts
    rule = "K1-typestate"
    for m in ("create", "modify", "refresh", "incremental_apply"):
        d = ctx.fn(LIB, BE_WRITE_PREFIX + m)
        markers = set()
        for p in d["params"]:
            markers |= set(re.findall(r"entry::Entry<([\w:]+),", p["ty"]))
        ctx.check(bool(markers) and markers == {"entry::EntrySealed"}, rule, d["fn"], "accepts-only-sealed",
                  f"be_txn.{m} takes only Entry<EntrySealed,_> ({len(d['params'])} params)",
                  f"BackendWriteTransaction::{m} accepts entries with marker(s) {sorted(markers)}: the backend would store entries that were not validated and sealed",
                  file=d["file"], line=d["line"])
    seals = F.find_fns(LIB, r"^kanidmd_lib::entry::.*::seal$")
    ctx.check(seals == [SEAL], rule, SEAL, "seal-only-on-valid", "seal is defined only for Entry<EntryValid, STATE>",
              f"functions named seal in the entry module: {seals} — an entry that is not EntryValid could be sealed")
    d = ctx.fn(LIB, SEAL)
    ctx.check(d["params"] and d["params"][0]["ty"].startswith("entry::Entry<entry::EntryValid,") and "entry::Entry<entry::EntrySealed," in d["ret"],
              rule, SEAL, "seal-signature", "seal: Entry<EntryValid,S> -> Entry<EntrySealed,S>", "seal's signature changed", file=d["file"], line=d["line"])
    for nm in V_FNS[:2]:
        d = ctx.fn(LIB, nm)
        ctx.check("Result<entry::Entry<entry::EntryValid," in d["ret"].replace("core::result::", ""), rule, nm, "validate-is-fallible",
                  "validate returns Result<Entry<EntryValid,_>, SchemaError>", f"{short(nm, 2)} no longer returns a Result: a failed schema check cannot be reported",
                  file=d["file"], line=d["line"])


def run(ctx):
    ctx.explanation = ("Typestate audit: (K1a) only allow-listed bodies construct EntryValid/EntrySealed; (K1b) relabelling keeps attrs; (K1c) in-place "
                       "writes on validated entries are allow-listed; (K6) validate's Ok is the schema check's Ok, validate_repl turns failures into recycled "
                       "conflicts; (K2) validate -> seal sits between pre-plugins and the backend write in all write pipelines and before every backend "
                       "write call. With rustc's own check that Backend writes take Entry<EntrySealed,_>, every stored entry passed the schema check.")
    check_typestate_facts(ctx)
    check_construct(ctx)
    check_relabel(ctx)
    check_mutate(ctx)
    check_validate(ctx)
    check_pipelines(ctx)
    check_conflict_exemption(ctx)
    from .lib.x_reload import check_setting
    check_setting(ctx, "K2-schema-cache-refreshed", "SCHEMA", "reload_schema",
                  "entries on this server are validated against a stale in-memory schema",
                  ("EntryClass::ClassType", "EntryClass::AttributeType"))


# ---------------------------------------------------------------------------------------------------------------------
# The schema check exempts entries that carry class `conflict`. That is only sound while such entries are never live:
# the class is added together with `recycled`, and whoever removes `recycled` removes `conflict` too.
# (added after seeded change C15: to_revived kept the conflict marker, so a revived conflict entry was live and never
# schema-checked again)

def _class_calls(body, names, cls):
    """[(call node, receiver-root local, enclosing block id)] of calls `x.<name>(Attribute::Class, EntryClass::<cls>..)`"""
    from .lib.hir import walk as _w
    out = []

    def visit(node, blk):
        if isinstance(node, list):
            for n in node:
                visit(n, blk)
            return
        if not isinstance(node, dict):
            return
        if node.get("e") == "block":
            blk = id(node)
        if node.get("e") == "mcall" and node.get("name") in names and len(node.get("args", [])) >= 2:
            t0 = tokens(node["args"][0])
            t1 = tokens(node["args"][1])
            if has_token(t0, "def", "Attribute::Class") and has_token(t1, "def", "EntryClass::" + cls):
                r = unwrap(node["recv"])
                while isinstance(r, dict) and r.get("e") in ("field", "mcall"):
                    r = unwrap(r["x"] if r.get("e") == "field" else r["recv"])
                loc = r["res"].get("local") if isinstance(r, dict) and r.get("e") == "path" else None
                out.append((node, loc, blk))
        for k, v in node.items():
            if k in ("line", "exp"):
                continue
            if isinstance(v, (dict, list)):
                visit(v, blk)
    visit(body, None)
    return out


def check_conflict_exemption(ctx):
    R = "K4-conflict-exempt-only-while-recycled"
    F = ctx.facts
    val = ctx.fn1(LIB, r"^kanidmd_lib::entry::Entry::<entry::EntryValid, STATE>::validate$")
    exempt = any(n.get("e") == "mcall" and n.get("name") == "attribute_equality" and has_token(tokens(n), "def", "EntryClass::Conflict")
                 for n in walk(val["body"]))
    if not exempt:
        ctx.ok(R, val["fn"], "no-conflict-exemption", "the schema check no longer exempts conflict entries: nothing to require")
        return
    ADD = ("add_ava", "add_ava_int", "add_ava_if_not_exist", "set_ava")
    REM = ("remove_ava", "remove_ava_int", "purge_ava_value")
    n_add = n_rem = 0
    for name in F.fns_mentioning(LIB, "EntryClass::Conflict"):
        f = F.fn(LIB, name)
        if f is None or f.get("kind") not in ("fn", "assocfn"):
            continue
        adds_c = _class_calls(f["body"], ADD, "Conflict")
        adds_r = _class_calls(f["body"], ADD, "Recycled")
        for (c, loc, blk) in adds_c:
            n_add += 1
            ok = any(l2 == loc and b2 == blk for (_, l2, b2) in adds_r)
            ctx.check(ok, R, name, "conflict-added-with-recycled", "class conflict is added together with class recycled",
                      f"{short(name, 2)} marks an entry `conflict` without marking it `recycled` in the same step: the entry is live and, because the schema "
                      "check exempts conflict entries, is stored and later modified without ever being schema-checked", file=f["file"], line=c.get("line"))
    for name in F.fns_mentioning(LIB, "EntryClass::Recycled"):
        f = F.fn(LIB, name)
        if f is None or f.get("kind") not in ("fn", "assocfn"):
            continue
        rem_r = _class_calls(f["body"], REM, "Recycled")
        rem_c = _class_calls(f["body"], REM, "Conflict")
        for (c, loc, blk) in rem_r:
            n_rem += 1
            ok = any(l2 == loc and b2 == blk for (_, l2, b2) in rem_c)
            ctx.check(ok, R, name, "recycled-removed-with-conflict", "whoever removes class recycled removes class conflict too",
                      f"{short(name, 2)} takes an entry out of the recycle bin (removes class `recycled`) but leaves class `conflict` on it: the revived "
                      "entry is live, and the schema check skips conflict entries, so an entry that failed validation during replication becomes a live, "
                      "never-validated entry", file=f["file"], line=c.get("line"))
    ctx.floor(R, "sites adding class conflict", n_add, 3)
    ctx.floor(R, "sites removing class recycled", n_rem, 1)
