"""C31 Weak or badlisted passwords can never be set — clause: every password-setting sink is dominated by a successful
check_password_quality, and each quality function bounds the password's grapheme length by the *account's resolved policy*
and consults the badlist with the lower-cased password.

Decided (DESIGN.md C31):
 K1-password-setters     the primitives that store a user-chosen cleartext (Credential::set_password, Credential::new_password_only,
                         idm::server::gen_password_mod) are called only from the three anchored setters.
 K3-quality-gate         credential_primary_set_password / credential_unix_set_password: every storing call lies under ok(check_password_quality(..));
                         set_unix_account_password: every write (modify_apply ..) lies under ok(check_password_quality(..)); the checked
                         cleartext is the stored cleartext; the policy handed to the check is the target's resolved policy.
 K4-quality-policy-min   on the success exit of each quality function the length is lower-bounded by a value derived from
                         ResolvedAccountPolicy::pw_min_length() that cannot be below it (`.max(CONST)` accepted, `.min(..)`/subtraction not).
 K4-quality-policy-max   ... and upper-bounded by a value derived from pw_max_length() that cannot exceed it.
 K4-quality-length-unit  the bounded length is the grapheme / char count (utils::utf8_len, graphemes().count(), chars().count()), not bytes.
 K4-quality-badlist      the success exit lies under `!pw_badlist().contains(&cleartext.to_lowercase())`.
Not decided: zxcvbn scoring, the content of the badlist, policy resolution itself (C35).
"""
from .lib.hir import *
from .lib.x_g6auth import *
from .lib import pathcond as pc

META = dict(
    technique="static dominance (K3) and bound-provenance (K4) rules over type-checked HIR; who-may-call (K1) over MIR call facts",
    level_text="All password-setting paths are enumerated from the call facts and each is shown to be dominated by a successful quality check; "
               "the comparison operands of each quality function are traced to the account's resolved policy and to the grapheme count. "
               "Covers every account policy and every input symbolically; tests try a few passwords with the default policy.",
    level_note="Clause: dominance of the three setting sinks by check_password_quality, provenance of both length bounds (resolved account policy), "
               "length unit (graphemes) and lower-cased badlist lookup. Not decided: zxcvbn scoring, badlist contents, policy resolution (C35). "
               "Trusted: rustc resolution, rule tables.",
)

LIB = "kanidmd_lib"
CORE = "kanidmd_core"
CU = "kanidmd_lib::idm::credupdatesession::<impl idm::server::IdmServerCredUpdateTransaction<'_>>::"
PW = "kanidmd_lib::idm::server::IdmServerProxyWriteTransaction::<'_>::"
Q_CU = CU + "check_password_quality"
Q_PW = PW + "check_password_quality"
GENMOD = "kanidmd_lib::idm::server::gen_password_mod"
SET_PW = "kanidmd_lib::credential::Credential::set_password"
NEW_PW = "kanidmd_lib::credential::Credential::new_password_only"
POLICY = "kanidmd_lib::idm::accountpolicy::ResolvedAccountPolicy::"
WRITE_NAMES = ("modify_apply", "internal_modify", "modify", "batch_modify", "internal_batch_modify", "internal_modify_uuid", "impersonate_modify")

MIN_FNS = ("core::cmp::Ord::min", "core::cmp::min", "core::cmp::min_by", "core::cmp::min_by_key")
MAX_FNS = ("core::cmp::Ord::max", "core::cmp::max", "core::cmp::max_by", "core::cmp::max_by_key")
BYTE_LEN = ("core::str::<impl str>::len", "alloc::string::String::len", "alloc::str::<impl str>::len")
GRAPHEME = ("utils::utf8_len", "UnicodeSegmentation::graphemes", "core::str::<impl str>::chars")


def quality_ok_lit(site, qfn):
    return site.has(True, lambda l: leaf_has(l, "call", qfn), ("ok",)) or \
        site.arm(lambda sc, p: has_token(tokens(sc), "call", qfn) and all(pat_def(x) == "core::result::Result::Ok" for x in top_alternatives(p))) is not None


def length_bounds(site, inits, cleartext_ids):
    """[(kind, len_side, bound_side, leaf)] from comparison literals known at the site. kind: 'lower' (len >= bound) / 'upper'."""
    out = []
    for pol, leaf in site.known():
        if leaf[1] != "expr":
            continue
        e = unwrap(leaf[2])
        if e.get("e") != "bin" or e.get("op") not in ("<", "<=", ">", ">="):
            continue
        op = e["op"]
        l, r = e["l"], e["r"]
        # normalise to  a OP b  with OP in {>=, >, <=, <} holding true
        if not pol:
            op = {"<": ">=", "<=": ">", ">": "<=", ">=": "<"}[op]
        for a, b, o in ((l, r, op), (r, l, {"<": ">", "<=": ">=", ">": "<", ">=": "<="}[op])):
            # a is the candidate length side
            if not (deep_locals(a, inits) & cleartext_ids):
                continue
            if deep_locals(b, inits) & cleartext_ids:
                continue
            out.append(("lower" if o in (">=", ">") else "upper", a, b, leaf))
    return out


def check_quality_fn(ctx, F, fn):
    body = fn["body"]
    inits = binding_inits(body)
    cleartext_ids = {p["pat"]["local"] for p in fn["params"] if p["ty"] in ("&str", "&alloc::string::String") and p["pat"].get("p") == "bind"}
    cleartext_ids = set(sorted(cleartext_ids)[:1])          # the first string parameter is the candidate password
    if not ctx.check(bool(cleartext_ids), "K4-quality-policy-min", fn["fn"], "shape", "cleartext parameter found",
                     "quality function has no &str cleartext parameter (shape not understood)", file=fn["file"], line=fn["line"]):
        return
    oks = [s for s in sites(body, lambda n: n.get("e") == "call" and def_of(n) == "core::result::Result::Ok" and not n.get("exp"))]
    # only the function's own exits: not inside closures
    closure_nodes = set()
    for n in walk(body):
        if n.get("e") == "closure":
            for x in walk(n["body"]):
                closure_nodes.add(id(x))
    oks = [s for s in oks if id(s.node) not in closure_nodes]
    ctx.floor("K4-quality-policy-min", f"success exits of {short(fn['fn'], 1)} ({'cu' if 'CredUpdate' in fn['fn'] else 'posix'})", len(oks), 1)
    for i, s in enumerate(oks):
        sfx = f"#{i}" if i else ""
        bounds = length_bounds(s, inits, cleartext_ids)
        lowers = [(a, b) for k, a, b, _ in bounds if k == "lower"]
        uppers = [(a, b) for k, a, b, _ in bounds if k == "upper"]
        # ---- minimum
        from_policy = [(a, b) for a, b in lowers if has_token(deep_tokens(b, inits), "call", POLICY + "pw_min_length")]
        ctx.check(bool(from_policy), "K4-quality-policy-min", fn["fn"], "min-length-not-from-account-policy" + sfx,
                  "lower length bound derives from ResolvedAccountPolicy::pw_min_length()",
                  f"the success exit is not guarded by `length >= <value derived from the resolved account policy's pw_min_length()>`; lower bounds "
                  f"found: {[ex_s(b)[:50] for _, b in lowers] or 'none'} — an account whose policy demands a longer password accepts a shorter one",
                  file=fn["file"], line=s.line)
        if from_policy:
            weak = [b for a, b in from_policy if has_token(deep_tokens(b, inits), "call", *MIN_FNS) or has_token(deep_tokens(b, inits), "op", "-", "/", "%", ">>")]
            ctx.check(len(weak) < len(from_policy), "K4-quality-policy-min", fn["fn"], "min-length-can-be-below-policy" + sfx,
                      "bound is at least the policy minimum",
                      "the lower bound mentions pw_min_length() but passes it through min()/subtraction/division, so it can be smaller than the "
                      "policy minimum", file=fn["file"], line=s.line)
        # ---- maximum
        from_policy_u = [(a, b) for a, b in uppers if has_token(deep_tokens(b, inits), "call", POLICY + "pw_max_length")]
        ctx.check(bool(from_policy_u), "K4-quality-policy-max", fn["fn"], "max-length-not-from-account-policy" + sfx,
                  "upper length bound derives from ResolvedAccountPolicy::pw_max_length()",
                  f"the success exit is not guarded by `length <= <value derived from the resolved account policy's pw_max_length()>`; upper bounds "
                  f"found: {[ex_s(b)[:50] for _, b in uppers] or 'none'}", file=fn["file"], line=s.line)
        if from_policy_u:
            weak = [b for a, b in from_policy_u if has_token(deep_tokens(b, inits), "call", *MAX_FNS) or has_token(deep_tokens(b, inits), "op", "+", "*", "<<")]
            ctx.check(len(weak) < len(from_policy_u), "K4-quality-policy-max", fn["fn"], "max-length-can-exceed-policy" + sfx,
                      "bound is at most the policy maximum",
                      "the upper bound mentions pw_max_length() but passes it through max()/addition/multiplication, so it can exceed the policy maximum",
                      file=fn["file"], line=s.line)
        # ---- unit
        used = from_policy + from_policy_u or lowers + uppers
        unit_bad = []
        unit_ok = 0
        for a, b in used:
            t = deep_tokens(a, inits)
            if has_token(t, "call", *BYTE_LEN) and not has_token(t, "call", *GRAPHEME):
                unit_bad.append(ex_s(a)[:50])
            elif has_token(t, "call", *GRAPHEME):
                unit_ok += 1
            else:
                unit_bad.append("?" + ex_s(a)[:50])
        ctx.check(not unit_bad and unit_ok > 0, "K4-quality-length-unit", fn["fn"], "length-is-grapheme-count" + sfx,
                  "length compared is the grapheme/char count",
                  f"the length compared with the policy bounds is not the grapheme/char count the policy is expressed in: {unit_bad or 'no bounded length found'} "
                  "— a multi-byte password shorter than the minimum (in characters) passes", file=fn["file"], line=s.line)
        # ---- badlist
        def badlist_leaf(l):
            t = pc.leaf_tokens(l)
            if not (has_token(t, "call", "pw_badlist") and has_token(t, "call", "contains")):
                return False
            for n in walk(l[2]):
                if n.get("e") == "mcall" and n.get("name") == "contains" and has_token(tokens(n["recv"]), "call", "pw_badlist"):
                    return all(has_token(deep_tokens(a, inits), "call", "to_lowercase") and (deep_locals(a, inits) & cleartext_ids) for a in n["args"])
            return False
        ctx.check(s.holds(False, badlist_leaf, ("expr",)), "K4-quality-badlist", fn["fn"], "badlist-lowercased" + sfx,
                  "under !pw_badlist().contains(cleartext.to_lowercase())",
                  "the success exit is not guarded by a badlist lookup of the lower-cased password (`pw_badlist().contains(&cleartext.to_lowercase())` false) — "
                  "a badlisted password in different case would be accepted", file=fn["file"], line=s.line)
        ctx.sample(f"{short(fn['fn'], 1)}: lower {[ex_s(b)[:40] for _, b in lowers]} upper {[ex_s(b)[:40] for _, b in uppers]}")


def run(ctx):
    _run_main(ctx)
    badlist_refreshed_everywhere(ctx)


def _run_main(ctx):
    F = ctx.facts
    ctx.explanation = ("Password-setting sinks are dominated by a successful check_password_quality; both quality functions bound the grapheme length by the "
                       "resolved account policy (minimum never below pw_min_length(), maximum never above pw_max_length()) and look the lower-cased password "
                       "up in the badlist. zxcvbn scoring is not decided.")
    q_cu = ctx.fn(LIB, Q_CU)
    q_pw = ctx.fn(LIB, Q_PW)
    prim = ctx.fn(LIB, CU + "credential_primary_set_password")
    unix = ctx.fn(LIB, CU + "credential_unix_set_password")
    posix = ctx.fn(LIB, PW + "set_unix_account_password")

    # ---- K1-password-setters ----------------------------------------------------------------------
    allowed = {SET_PW: {prim["fn"], unix["fn"]}, NEW_PW: {prim["fn"], unix["fn"], GENMOD}, GENMOD: {posix["fn"]}}
    for tgt, ok in allowed.items():
        cs = callers_of(F, [LIB, CORE], tgt)
        ctx.floor("K1-password-setters", f"callers of {short(tgt)}", len(cs), 1)
        for c in sorted(cs):
            ctx.check(c in ok, "K1-password-setters", c, f"calls:{short(tgt)}", "anchored setter",
                      f"{short(tgt)} stores a user-chosen cleartext and is called from {short(c)}, which is not one of the quality-gated setters "
                      "(credential_primary_set_password, credential_unix_set_password, set_unix_account_password)", line=cs[c][0])

    # ---- K3-quality-gate ----------------------------------------------------------------------------
    for fn, qfn, is_sink, what in (
            (prim, Q_CU, call_sink(SET_PW, NEW_PW), "password storing call"),
            (unix, Q_CU, call_sink(SET_PW, NEW_PW), "password storing call"),
            (posix, Q_PW, lambda n: n.get("e") == "mcall" and n.get("name") in WRITE_NAMES and not n.get("exp"), "database write")):
        body = fn["body"]
        inits = binding_inits(body)
        st = sites(body, is_sink)
        ctx.floor("K3-quality-gate", f"{what}s in {short(fn['fn'], 1)}", len(st), 2 if fn is not posix else 1)
        qcalls = calls_in(body, qfn)
        for i, s in enumerate(st):
            name = short(callee_of(s.node) or s.node.get("name", "?"), 1)
            ctx.check(quality_ok_lit(s, qfn), "K3-quality-gate", fn["fn"], f"dominated:{name}",
                      "under ok(check_password_quality(..))",
                      f"{what} `{name}` is reachable without a successful check_password_quality (guards: {s.render()}) — a weak, too short or "
                      "badlisted password would be stored", file=fn["file"], line=s.line)
        if not ctx.check(len(qcalls) >= 1, "K3-quality-gate", fn["fn"], "quality-call", "check_password_quality called",
                         "no call to check_password_quality", file=fn["file"], line=fn["line"]):
            continue
        q = qcalls[0]
        # same cleartext
        checked = ex_s(q["args"][0]) if q.get("args") else "?"
        stores = calls_in(body, SET_PW, NEW_PW, GENMOD)
        same = bool(stores) and all(any(ex_s(a) == checked for a in c.get("args", [])) for c in stores)
        ctx.check(same, "K3-quality-gate", fn["fn"], "same-cleartext", f"checked and stored cleartext: {checked}",
                  f"the cleartext handed to check_password_quality ({checked}) is not the one that is stored "
                  f"({[ex_s(a)[:30] for c in stores for a in c.get('args', [])]})", file=fn["file"], line=q.get("line"))
        # policy origin
        pol_args = [a for a in q.get("args", []) if has_token(deep_tokens(a, inits), "field", "resolved_account_policy")
                    or has_token(deep_tokens(a, inits), "call", "Account::try_from_entry_with_policy")]
        ctx.check(bool(pol_args), "K3-quality-gate", fn["fn"], "policy-is-targets-resolved-policy",
                  "policy argument is the session's / target account's resolved policy",
                  "check_password_quality is not given the resolved policy of the account whose password is set (expected the update session's "
                  "resolved_account_policy or the policy returned by Account::try_from_entry_with_policy)", file=fn["file"], line=q.get("line"))

    # ---- K4 quality functions -------------------------------------------------------------------------
    for fn in (q_cu, q_pw):
        check_quality_fn(ctx, F, fn)


# ---------------------------------------------------------------------------------------------------------------------
# Both quality functions consult the *in-memory* badlist (pw_badlist() reads the cached system config). The badlist a
# password is checked against is therefore only the stored one if every write path — replication included — refreshes the
# system config. (added after seeded change C31: incremental replication stopped reloading the system config, so a password
# badlisted on one server was accepted on its replication partner)

def badlist_refreshed_everywhere(ctx):
    from .lib.x_reload import check_setting
    check_setting(ctx, "K2-badlist-cache-refreshed", "SYSTEM_CONFIG", "reload_system_config",
                  "the in-memory password badlist stays stale on this server and a badlisted password can be set here",
                  ("PVUUID_SYSTEM_CONFIG", "UUID_SYSTEM_CONFIG"))
