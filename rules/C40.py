"""C40 The LDAP gateway is read-only and no more privileged than its bind.

Decided (DESIGN.md C40):
 K9  call-graph effect: over the MIR call facts of kanidmd_lib + kanidmd_core (edges: resolved callee else callee,
     parent -> closure, unresolved trait-method calls over-approximated by every impl that defines the method, fn items
     mentioned by name in a reached body), no path from LdapServer::do_op / the LDAP actor (handle_ldaprequest,
     kanidmd_core::ldaps::*) reaches IdmServer::proxy_write, QueryServer::write or Backend::write.
     Positive controls on the *exact* graph (no over-approximation): the v1_write HTTP actors do reach proxy_write /
     QueryServer::write / Backend::write; do_op does reach auth/proxy_read/search_ext/exists and the three bind paths.
 K3  process_ldap_uuid_to_identity: every Identity::new has scope AccessScope::ReadOnly (constant) and the entry is the
     anonymous entry; auth_ldap: auth_with_unix_pass only under d_ldap_allow_unix_pw_bind, bound tokens only for anonymous
     or under flag + Some(auth_with_unix_pass); application_auth_ldap: bound token only under linked-group membership and
     a verified application password; do_search/do_compare: only search_ext / exists, identity from validate_ldap_session,
     hidden entries ignored.
 K1  of the DelayedAction variants only UnixPwUpgrade is constructed in a body reachable from do_op (and only after the
     password verified).
 K4-application-cache-rebuilt  LdapApplicationsWriteTransaction::reload installs the freshly parsed set wholesale (lib/x_cache.py).
Not decided: equality with native search results (same code path, C23), what process_unixpwupgrade writes.
"""
import re
from collections import defaultdict
from .lib.hir import *
from .lib.pathcond import site_conditions, implied, collect_binds, lit_has, render, lits_with, leaf_tokens

META = dict(
    technique="call-graph reachability over MIR call facts (with dyn over-approximation and positive controls) + sink path-conditions on HIR",
    level_text="Static effect analysis: no call path from the LDAP entry points reaches a write-transaction constructor (every resolved call, "
               "closure and trait-impl over-approximation enumerated), the LDAP identity is built with a constant read-only scope from the "
               "anonymous entry, the POSIX-password bind is dominated by the domain flag, the application bind by linked-group membership, "
               "and the only deferred write action constructible from LDAP is the post-verification password upgrade. Quantifies over all "
               "requests by quantifying over code paths; tests script a handful of binds.",
    level_note="Decides: read-only-ness (no write transaction reachable), the constant ReadOnly/anonymous identity, the two bind guards, "
               "search/compare through search_ext/exists with the bound identity. Not decided: that LDAP results equal native search results "
               "(same code path; C23), callbacks into kanidmd_lib from foreign crates through trait objects.",
)

LIB = "kanidmd_lib"
CORE = "kanidmd_core"
CRATES = (LIB, CORE)

T_PROXY_WRITE = "kanidmd_lib::idm::server::IdmServer::proxy_write"
T_QS_WRITE = "kanidmd_lib::server::QueryServer::write"
T_BE_WRITE = "kanidmd_lib::be::Backend::write"
TARGETS = (T_PROXY_WRITE, T_QS_WRITE, T_BE_WRITE)

DO_OP = "kanidmd_lib::idm::ldap::LdapServer::do_op"
DELAYED = "kanidmd_lib::idm::delayed::DelayedAction"
ALLOWED_DELAYED = {"UnixPwUpgrade": "constructed in auth_with_unix_pass after the supplied password verified; re-encodes that same password"}

CLOSURE_RX = re.compile(r"(::\{closure#\d+\})+$")


def base_fn(n):
    return CLOSURE_RX.sub("", n)


class CallGraph:
    def __init__(self, F):
        self.F = F
        self.exact = defaultdict(set)      # caller -> callees (resolved else callee) + parent->closure
        self.unres = defaultdict(set)      # caller -> unresolved trait-method callees
        self.nodes = set()
        for c in CRATES:
            for (caller, callee, resolved, ln, exp, sty) in F.calls(c):
                self.nodes.add(caller)
                if resolved:
                    self.exact[caller].add(resolved)
                else:
                    self.exact[caller].add(callee)
                    self.unres[caller].add(callee)
        for n in list(self.nodes):
            cur = n
            while True:
                m = re.match(r"(.*)::\{closure#\d+\}$", cur)
                if not m:
                    break
                self.exact[m.group(1)].add(cur)
                self.nodes.add(m.group(1))
                cur = m.group(1)
        # trait -> method -> [impl method def-paths]
        self.impls = defaultdict(lambda: defaultdict(list))
        for c in CRATES:
            for it in F.items(c):
                if it.get("item") == "impl" and it.get("trait"):
                    for a in it.get("assoc", []):
                        self.impls[it["trait"]][a].append(it["name"] + "::" + a)
        self._hir_edges = {}

    def dyn_targets(self, callee):
        if "::" not in callee:
            return []
        trait, m = callee.rsplit("::", 1)
        return self.impls.get(trait, {}).get(m, [])

    def hir_fn_mentions(self, node):
        """fn items named (not necessarily called) in the HIR body of node's base fn: `.map(Self::f)`, `spawn(f(..))`."""
        b = base_fn(node)
        if b in self._hir_edges:
            return self._hir_edges[b]
        out = set()
        crate = b.split("::", 1)[0]
        if crate in CRATES:
            d = self.F.fn(crate, b)
            if d is not None:
                for n in walk(d["body"]):
                    if n.get("e") == "path":
                        r = n["res"]
                        if "def" in r and ("Fn" in str(r.get("kind", ""))) and "Ctor" not in str(r.get("kind", "")):
                            out.add(r["def"])
        self._hir_edges[b] = out
        return out

    def succ(self, n, over):
        s = set(self.exact.get(n, ()))
        if over:
            for u in self.unres.get(n, ()):
                s.update(self.dyn_targets(u))
            s.update(self.hir_fn_mentions(n))
        return s

    def reach(self, srcs, over):
        seen = {s: None for s in srcs}
        q = list(srcs)
        while q:
            x = q.pop()
            for y in self.succ(x, over):
                if y not in seen:
                    seen[y] = x
                    q.append(y)
        return seen

    @staticmethod
    def path(seen, t):
        p = [t]
        while seen[p[-1]] is not None:
            p.append(seen[p[-1]])
        return p[::-1]


def hits(seen, target):
    return [n for n in seen if n == target or n.startswith(target + "::{closure")]


def derives_from(expr, binds, *call_suffixes, depth=3):
    """expr (or a local it mentions, through simple let-bindings) contains a call to one of call_suffixes."""
    if has_token(tokens(expr), "call", *call_suffixes):
        return True
    if depth <= 0:
        return False
    for n in walk(expr):
        if n.get("e") == "path" and "local" in n["res"] and n["res"]["local"] in binds:
            if derives_from(binds[n["res"]["local"]], binds, *call_suffixes, depth=depth - 1):
                return True
    return False


def resolve_local(expr, binds, depth=3):
    e = unwrap(expr)
    while depth > 0 and isinstance(e, dict) and e.get("e") == "path" and "local" in e["res"] and e["res"]["local"] in binds:
        e = unwrap(binds[e["res"]["local"]])
        depth -= 1
    return e


def run(ctx):
    _run_main(ctx)
    application_cache_rebuilt(ctx)
    access_check_covers_the_query(ctx)


def _run_main(ctx):
    F = ctx.facts
    ctx.explanation = ("K9: no call path from LdapServer::do_op / the LDAP actor to a write-transaction constructor (exact graph + dyn "
                       "over-approximation; positive controls: HTTP write actors reach it, do_op reaches auth/proxy_read/search_ext/exists). "
                       "K3: constant ReadOnly + anonymous entry in process_ldap_uuid_to_identity; unix bind under d_ldap_allow_unix_pw_bind; "
                       "application bind under linked-group membership; search/compare via search_ext/exists with the bound identity. "
                       "K1: only DelayedAction::UnixPwUpgrade is constructible from do_op.")
    for t in TARGETS + (DO_OP,):
        ctx.fn(LIB, t)
    actor = ctx.fn1(CORE, r"^kanidmd_core::actors::v1_read::<impl actors::QueryServerReadV1>::handle_ldaprequest$")
    ctx.fn1(CORE, r"^kanidmd_core::ldaps::client_process_msg$")
    cg = CallGraph(F)
    ctx.floor("K9-ldap-no-write", "call rows (kanidmd_lib+kanidmd_core)", sum(len(F.calls(c)) for c in CRATES), 100000)

    # ---- K9 positive controls (exact graph) ----------------------------------
    handlers = sorted({base_fn(n) for n in cg.nodes if n.startswith("kanidmd_core::actors::v1_write::")})
    n_reach = 0
    for h in handlers:
        seen = cg.reach([n for n in cg.nodes if base_fn(n) == h], over=False)
        if hits(seen, T_PROXY_WRITE):
            n_reach += 1
    ctx.floor("K9-control", "v1_write HTTP actor handlers that reach IdmServer::proxy_write", n_reach, 20)
    seen_w = cg.reach([n for n in cg.nodes if n.startswith("kanidmd_core::actors::v1_write::")], over=False)
    for t in TARGETS:
        h = hits(seen_w, t)
        ctx.check(bool(h), "K9-control", "kanidmd_core::actors::v1_write", "reaches:" + short(t),
                  "control path: " + " -> ".join(short(x, 3) for x in cg.path(seen_w, h[0])[:6]) if h else "",
                  f"positive control failed: the HTTP write actors no longer reach {t} in the call facts — the call graph is incomplete, "
                  f"so absence of an LDAP path proves nothing")
    ldap_srcs = sorted(n for n in cg.nodes
                       if base_fn(n) == DO_OP or base_fn(n) == actor["fn"] or n.startswith("kanidmd_core::ldaps::"))
    ctx.floor("K9-ldap-no-write", "LDAP entry bodies (do_op, handle_ldaprequest, kanidmd_core::ldaps::*)", len(ldap_srcs), 20)
    seen_x = cg.reach([n for n in cg.nodes if base_fn(n) == DO_OP], over=False)
    MUST = ["kanidmd_lib::idm::server::IdmServer::auth", "kanidmd_lib::idm::server::IdmServer::proxy_read",
            "kanidmd_lib::server::QueryServerTransaction::search_ext", "kanidmd_lib::server::QueryServerTransaction::exists",
            "kanidmd_lib::idm::server::IdmServerAuthTransaction::<'_>::auth_ldap",
            "kanidmd_lib::idm::server::IdmServerAuthTransaction::<'_>::token_auth_ldap",
            "kanidmd_lib::idm::server::IdmServerAuthTransaction::<'_>::auth_with_unix_pass",
            "kanidmd_lib::idm::server::IdmServerTransaction::process_ldap_uuid_to_identity"]
    app = ctx.fn1(LIB, r"^kanidmd_lib::idm::application::<impl .*IdmServerAuthTransaction<'_>>::application_auth_ldap$")
    MUST.append(app["fn"])
    for t in MUST:
        ctx.check(bool(hits(seen_x, t)), "K9-control", DO_OP, "reaches:" + short(t), "reached from do_op (exact graph)",
                  f"positive control failed: do_op no longer reaches {t} in the exact call graph (renamed, or the graph lost edges) — "
                  f"the no-write verdict would be vacuous")
    seen_a = cg.reach([n for n in cg.nodes if base_fn(n) == actor["fn"]], over=False)
    ctx.check(bool(hits(seen_a, DO_OP)), "K9-control", actor["fn"], "reaches:LdapServer::do_op", "actor -> do_op",
              "the LDAP actor no longer reaches LdapServer::do_op in the call facts (entry point moved; rule would be vacuous)")
    seen_c = cg.reach([n for n in cg.nodes if n.startswith("kanidmd_core::ldaps::")], over=False)
    ctx.check(bool(hits(seen_c, actor["fn"])), "K9-control", "kanidmd_core::ldaps", "reaches:handle_ldaprequest", "ldaps -> actor",
              "kanidmd_core::ldaps no longer reaches handle_ldaprequest (LDAP front end moved; rule would be vacuous)")

    # ---- K9 the claim (over-approximated graph) ------------------------------
    seen = cg.reach(ldap_srcs, over=True)
    ctx.floor("K9-ldap-no-write", "bodies reachable from the LDAP entry points", len(seen), 1000)
    for t in TARGETS:
        h = hits(seen, t)
        p = cg.path(seen, h[0]) if h else []
        ctx.check(not h, "K9-ldap-no-write", base_fn(p[0]) if p else DO_OP, "reaches:" + short(t),
                  f"no path from {len(ldap_srcs)} LDAP bodies ({len(seen)} reachable) to {short(t)}",
                  f"the LDAP gateway can reach {t}: " + " -> ".join(p) + " — LDAP must not be able to open a write transaction",
                  )
    ctx.sample(f"K9: {len(seen)} bodies reachable from LDAP, none is {[short(t) for t in TARGETS]}")
    # unix-password bind only through auth_ldap (the flag lives there)
    AWUP = "kanidmd_lib::idm::server::IdmServerAuthTransaction::<'_>::auth_with_unix_pass"
    AUX = "kanidmd_lib::idm::server::IdmServerAuthTransaction::<'_>::auth_unix"
    AL = "kanidmd_lib::idm::server::IdmServerAuthTransaction::<'_>::auth_ldap"
    ctx.fn(LIB, AWUP)
    for caller in sorted({base_fn(c) for c in seen if AWUP in cg.succ(c, True)}):
        ctx.check(caller == AL, "K1-unix-bind-via-auth_ldap", caller, "calls:auth_with_unix_pass",
                  "the only LDAP-reachable caller of auth_with_unix_pass is auth_ldap (which tests the domain flag)",
                  f"{caller} is reachable from LDAP and calls auth_with_unix_pass directly, bypassing auth_ldap's d_ldap_allow_unix_pw_bind test")
    ctx.check(not hits(seen, AUX), "K1-unix-bind-via-auth_ldap", DO_OP, "reaches:auth_unix", "auth_unix not reachable from LDAP",
              "auth_unix (POSIX password check without the LDAP domain flag) is reachable from the LDAP gateway: "
              + " -> ".join(cg.path(seen, hits(seen, AUX)[0]) if hits(seen, AUX) else []))

    # ---- K1 DelayedAction variants constructible from LDAP ---------------------
    enum = F.item(LIB, "enum", DELAYED)
    if ctx.check(enum is not None, "K1-delayed", DELAYED, "enum-found", "DelayedAction enum found", "DelayedAction enum not found (anchor)"):
        ctx.floor("K1-delayed", "DelayedAction variants", len(enum["variants"]), 5)
    found = defaultdict(set)
    n_bodies = 0
    for b in sorted({base_fn(n) for n in seen}):
        if not b.startswith(LIB + "::"):
            continue
        d = F.fn(LIB, b)
        if d is None:
            continue
        n_bodies += 1
        for n in walk(d["body"]):
            if "e" in n:
                dd = def_of(n)
                if dd.startswith(DELAYED + "::"):
                    found[dd[len(DELAYED) + 2:]].add(b)
    ctx.floor("K1-delayed", "kanidmd_lib HIR bodies scanned for DelayedAction constructions", n_bodies, 300)
    for v in sorted(found):
        for b in sorted(found[v]):
            ctx.check(v in ALLOWED_DELAYED, "K1-delayed", b, "constructs:" + v,
                      f"DelayedAction::{v} — {ALLOWED_DELAYED.get(v)}",
                      f"DelayedAction::{v} is constructed in {b}, which is reachable from LdapServer::do_op: LDAP gains a second deferred "
                      f"write channel (only {sorted(ALLOWED_DELAYED)} is accepted)")
            ctx.sample(f"K1: DelayedAction::{v} constructible from LDAP in {short(b, 2)}")
    # the one accepted variant is only built after the password verified
    aw = ctx.fn(LIB, AWUP)
    binds = collect_binds(aw["body"])
    sites = site_conditions(aw["body"], lambda n: "e" in n and def_of(n) == DELAYED + "::UnixPwUpgrade")
    for (s, conds) in sites:
        lits = implied(conds, binds)
        ok = lit_has(lits, True, "call", "Password::verify", leaf_kind="expr") and lit_has(lits, True, "call", "Password::verify", leaf_kind="ok")
        ctx.check(ok, "K3-delayed-after-verify", AWUP, "UnixPwUpgrade",
                  "UnixPwUpgrade queued only where password.verify(cleartext) returned Ok(true)",
                  f"DelayedAction::UnixPwUpgrade is queued without the supplied password having verified: an unauthenticated LDAP/unix bind "
                  f"could rewrite the stored password. Conditions: {render(lits)}", file=aw["file"], line=s.get("line"))

    # ---- K3 identity construction ---------------------------------------------
    p = ctx.fn(LIB, "kanidmd_lib::idm::server::IdmServerTransaction::process_ldap_uuid_to_identity")
    binds = collect_binds(p["body"])
    ids = calls_in(p["body"], "server::identity::Identity::new")
    others = [n for n in walk(p["body"]) if n.get("e") == "struct" and def_of(n).endswith("server::identity::Identity")]
    ctx.check(len(ids) >= 1 and not others, "K3-ldap-identity", p["fn"], "Identity::new-sites",
              f"{len(ids)} Identity::new site(s)", "process_ldap_uuid_to_identity no longer builds its identity through Identity::new (shape not understood)",
              file=p["file"], line=p["line"])
    scope_toks = {t for t in tokens(p["body"]) if t.startswith("def:kanidmd_lib::server::identity::AccessScope::")}
    ctx.check(scope_toks == {"def:kanidmd_lib::server::identity::AccessScope::ReadOnly"}, "K3-ldap-identity", p["fn"], "scope-constant-ReadOnly",
              "the only AccessScope named is ReadOnly",
              f"process_ldap_uuid_to_identity names {sorted(short(t) for t in scope_toks)}: a password bind must only ever yield a ReadOnly scope",
              file=p["file"], line=p["line"])
    for c in ids:
        scope_args = [a for a in c["args"] if def_of(unwrap(a)).startswith("kanidmd_lib::server::identity::AccessScope::")]
        ok = len(scope_args) == 1 and def_of(unwrap(scope_args[0])).endswith("AccessScope::ReadOnly")
        ctx.check(ok, "K3-ldap-identity", p["fn"], "Identity::new:scope",
                  "scope argument is the constant AccessScope::ReadOnly",
                  "Identity::new in process_ldap_uuid_to_identity is not given the constant AccessScope::ReadOnly "
                  f"(args: {[ex_s(a) for a in c['args']]}) — an LDAP password bind could obtain write scope", file=p["file"], line=c.get("line"))
        # entry = anonymous
        ents = [f["x"] for n in walk(c) if n.get("e") == "struct" and def_of(n).endswith("identity::IdentUser") for f in n["fields"] if f["f"] == "entry"]
        ok = len(ents) == 1 and is_anon_entry(ents[0], binds)
        ctx.check(ok, "K3-ldap-identity", p["fn"], "Identity::new:anonymous-entry",
                  "identity entry is internal_search_uuid(UUID_ANONYMOUS) (or the bound entry when uuid == UUID_ANONYMOUS)",
                  "the identity entry in process_ldap_uuid_to_identity is not provably the anonymous entry "
                  f"({[ex_s(resolve_local(e, binds)) for e in ents]}): an LDAP password bind would read with more than anonymous rights",
                  file=p["file"], line=c.get("line"))
        ctx.sample(f"K3: {short(p['fn'])} Identity::new(User{{entry: {ex_s(resolve_local(ents[0], binds)) if ents else '?'}}}, .., ReadOnly, ..)")

    # ---- K3 unix bind under the domain flag -----------------------------------
    al = ctx.fn(LIB, AL)
    binds = collect_binds(al["body"])
    sites = site_conditions(al["body"], lambda n: n.get("e") in ("call", "mcall") and is_call_to(n, "auth_with_unix_pass"))
    ctx.floor("K3-unix-bind-flag", "auth_with_unix_pass call sites in auth_ldap", len(sites), 1)
    for (s, conds) in sites:
        lits = implied(conds, binds)
        ctx.check(lit_has(lits, True, "field", "d_ldap_allow_unix_pw_bind"), "K3-unix-bind-flag", AL, "auth_with_unix_pass",
                  "POSIX password check only where d_info.d_ldap_allow_unix_pw_bind is true",
                  f"auth_ldap calls auth_with_unix_pass without the domain flag d_ldap_allow_unix_pw_bind being true on the path: "
                  f"POSIX password binds are possible although the domain disabled them. Conditions: {render(lits)}",
                  file=al["file"], line=s.get("line"))
    tok_sites = site_conditions(al["body"], lambda n: n.get("e") == "struct" and def_of(n).endswith("idm::ldap::LdapBoundToken"))
    ctx.floor("K3-unix-bind-flag", "LdapBoundToken sites in auth_ldap", len(tok_sites), 2)
    for (s, conds) in tok_sites:
        lits = implied(conds, binds)
        anon = any(has_token(tokens(l[2]), "def", "UUID_ANONYMOUS") and has_token(tokens(l[2]), "op", "==") for l in lits_with(lits, True, "def", "UUID_ANONYMOUS"))
        eff = [f["x"] for f in s["fields"] if f["f"] == "effective_session"]
        if anon:
            ok = len(eff) == 1 and has_token(tokens(eff[0]), "def", "UUID_ANONYMOUS") and bool(constructs(eff[0], "LdapSession::UnixBind"))
            ctx.check(ok, "K3-unix-bind-flag", AL, "LdapBoundToken:anonymous",
                      "anonymous branch binds LdapSession::UnixBind(UUID_ANONYMOUS)",
                      f"the anonymous branch of auth_ldap binds {[ex_s(e) for e in eff]} instead of the constant anonymous session",
                      file=al["file"], line=s.get("line"))
        else:
            ok = lit_has(lits, True, "field", "d_ldap_allow_unix_pw_bind") and any(
                lf[1] in ("arm", "let") and has_token(tokens(lf[2][0] if lf[1] == "arm" else lf[2][1]), "call", "auth_with_unix_pass")
                and has_token(tokens(lf[2][1] if lf[1] == "arm" else lf[2][0]), "def", "core::option::Option::Some")
                for (pol, lf) in lits.values() if pol)
            ctx.check(ok, "K3-unix-bind-flag", AL, "LdapBoundToken:unix-password",
                      "bound token only under flag ∧ auth_with_unix_pass = Some(account)",
                      f"auth_ldap issues a bound token for a non-anonymous target without (d_ldap_allow_unix_pw_bind ∧ auth_with_unix_pass(..) = Some): "
                      f"{render(lits)}", file=al["file"], line=s.get("line"))

    # ---- K3 application bind under linked-group membership ------------------------
    binds = collect_binds(app["body"])
    tok_sites = site_conditions(app["body"], lambda n: n.get("e") == "struct" and def_of(n).endswith("idm::ldap::LdapBoundToken"))
    ctx.floor("K3-app-bind-group", "LdapBoundToken sites in application_auth_ldap", len(tok_sites), 1)
    for (s, conds) in tok_sites:
        lits = implied(conds, binds)
        member = any(has_token(leaf_toks(lf), "field", "linked_group") and has_token(leaf_toks(lf), "def", "Attribute::MemberOf")
                     for (pol, lf) in lits.values() if pol and lf[1] == "expr")
        ctx.check(member, "K3-app-bind-group", app["fn"], "LdapBoundToken:linked-group",
                  "bound token only where the user's MemberOf contains application.linked_group",
                  f"application_auth_ldap issues a bound token without the user's memberof containing the application's linked_group: "
                  f"any account with an application password could bind. Conditions: {render(lits)}", file=app["file"], line=s.get("line"))
        pw = any(lf[1] in ("arm", "let") and has_token(leaf_toks(lf), "call", "verify_application_password")
                 and has_token(leaf_toks(lf), "def", "core::option::Option::Some") for (pol, lf) in lits.values() if pol)
        ctx.check(pw, "K3-app-bind-group", app["fn"], "LdapBoundToken:application-password",
                  "bound token only where verify_application_password(..)? = Some",
                  f"application_auth_ldap issues a bound token without verify_application_password returning Some: {render(lits)}",
                  file=app["file"], line=s.get("line"))

    # ---- K3/K1 search and compare -------------------------------------------------
    QST = "kanidmd_lib::server::QueryServerTransaction::"
    ALLOWED_Q = {"do_search": {"search_ext"}, "do_compare": {"exists"}}
    QUERYISH = re.compile(r"^(search|search_ext|exists|internal_search\w*|internal_exists\w*|impersonate_search\w*)$")
    for fnname, allowed in ALLOWED_Q.items():
        f = ctx.fn(LIB, "kanidmd_lib::idm::ldap::LdapServer::" + fnname)
        binds = collect_binds(f["body"])
        qcalls = []
        for c in all_calls(f["body"]):
            for cal in callee_any(c):
                if cal.startswith(QST) and QUERYISH.match(cal[len(QST):]):
                    qcalls.append((cal[len(QST):], c))
                    break
        ctx.floor("K1-ldap-query-api", f"{fnname}: query calls", len(qcalls), 1 if fnname == "do_search" else 2)
        for (m, c) in qcalls:
            ctx.check(m in allowed, "K1-ldap-query-api", f["fn"], "calls:" + m,
                      f"{fnname} queries through {m} (access controls applied)",
                      f"{fnname} calls QueryServerTransaction::{m}; LDAP must only use {sorted(allowed)} so that access controls of the bound identity apply",
                      file=f["file"], line=c.get("line"))
        if fnname == "do_search":
            evs = calls_in(f["body"], "SearchEvent::new_ext_impersonate_uuid")
            ctx.floor("K3-ldap-bound-identity", "do_search: SearchEvent::new_ext_impersonate_uuid sites", len(evs), 1)
            for c in evs:
                ok = any(derives_from(a, binds, "validate_ldap_session") for a in c["args"])
                ctx.check(ok, "K3-ldap-bound-identity", f["fn"], "SearchEvent:ident",
                          "search event identity comes from validate_ldap_session(&uat.effective_session, ..)",
                          "do_search builds its SearchEvent with an identity that does not come from validate_ldap_session (the bound session)",
                          file=f["file"], line=c.get("line"))
            for (m, c) in qcalls:
                ok = any(derives_from(a, binds, "SearchEvent::new_ext_impersonate_uuid") for a in c["args"])
                ctx.check(ok, "K3-ldap-bound-identity", f["fn"], "search_ext:event",
                          "search_ext is given the event built by SearchEvent::new_ext_impersonate_uuid",
                          "do_search passes search_ext an event not built by SearchEvent::new_ext_impersonate_uuid (which applies ignore-hidden and the bound identity)",
                          file=f["file"], line=c.get("line"))
        else:
            evs = [n for n in walk(f["body"]) if n.get("e") == "struct" and def_of(n).endswith("event::ExistsEvent")]
            ctx.floor("K3-ldap-bound-identity", "do_compare: ExistsEvent sites", len(evs), 2)
            for i, n in enumerate(evs):
                fl = {x["f"]: x["x"] for x in n["fields"]}
                ok = "ident" in fl and derives_from(fl["ident"], binds, "validate_ldap_session")
                ctx.check(ok, "K3-ldap-bound-identity", f["fn"], "ExistsEvent:ident",
                          "exists event identity comes from validate_ldap_session",
                          "do_compare builds an ExistsEvent whose identity does not come from validate_ldap_session (the bound session)",
                          file=f["file"], line=n.get("line"))
                ok = "filter" in fl and derives_from(fl["filter"], binds, "into_ignore_hidden")
                ctx.check(ok, "K3-ldap-bound-identity", f["fn"], "ExistsEvent:ignore-hidden",
                          "exists event filter went through into_ignore_hidden",
                          "do_compare builds an ExistsEvent whose filter did not go through into_ignore_hidden: recycled/tombstoned entries become comparable",
                          file=f["file"], line=n.get("line"))
        vs = calls_in(f["body"], "validate_ldap_session")
        for c in vs:
            ok = any(has_token(tokens(a), "field", "effective_session") for a in c["args"])
            ctx.check(ok, "K3-ldap-bound-identity", f["fn"], "validate_ldap_session:effective_session",
                      "validate_ldap_session is given the bound token's effective_session",
                      f"{fnname} validates something other than the bound token's effective_session", file=f["file"], line=c.get("line"))
    ne = ctx.fn(LIB, "kanidmd_lib::event::SearchEvent::new_ext_impersonate_uuid")
    ctx.check(bool(calls_in(ne["body"], "into_ignore_hidden")), "K3-ldap-bound-identity", ne["fn"], "ignore-hidden",
              "new_ext_impersonate_uuid wraps the filter with into_ignore_hidden",
              "SearchEvent::new_ext_impersonate_uuid no longer applies into_ignore_hidden: LDAP searches would return recycled/tombstone entries",
              file=ne["file"], line=ne["line"])
    ctx.exhaustive = True


def leaf_toks(lf):
    return leaf_tokens(lf)


def is_anon_search(e):
    """e contains internal_search_uuid(UUID_ANONYMOUS)."""
    for c in calls_in(e, "internal_search_uuid"):
        if any(def_of(unwrap(a)).endswith("UUID_ANONYMOUS") for a in c["args"]):
            return True
    return False


def is_anon_entry(expr, binds):
    e = resolve_local(expr, binds)
    if not isinstance(e, dict):
        return False
    if e.get("e") == "if" and "else" in e:
        c = e["cond"]
        ct = tokens(c)
        if has_token(ct, "def", "UUID_ANONYMOUS") and has_token(ct, "op", "=="):
            # then-branch: the entry searched for `uuid` (which equals UUID_ANONYMOUS here); else-branch: the anonymous entry
            return is_anon_search(e["else"]) and not calls_in(e["then"], "internal_search_uuid")
        return False
    if e.get("e") in ("match", "mcall", "call"):
        # a single expression: must be exactly the anonymous search (no other search inside)
        cs = calls_in(e, "internal_search_uuid")
        return len(cs) == 1 and is_anon_search(e)
    return False


# ---------------------------------------------------------------------------------------------------------------------
# An event carries two filters: `filter` is executed, `filter_orig` is what the access check sees (filter_entries requires
# the caller to hold a read grant for every attribute filter_orig mentions). For the LDAP gateway both must come from the
# SAME client filter, otherwise an assertion on an attribute the bind cannot read is evaluated unchecked — compare becomes a
# true/false oracle. (added after seeded change C40: do_compare executed the filter with the asserted value but handed the
# access check the entry-selecting filter only)

def access_check_covers_the_query(ctx):
    R = "K3-access-check-covers-query"
    n_ev = 0
    for fname in ("do_compare", "do_search"):
        f = ctx.fn(LIB, "kanidmd_lib::idm::ldap::LdapServer::" + fname)
        inits = {}
        for n in walk(f["body"]):
            if n.get("s") == "let" and "init" in n and n["pat"].get("p") == "bind":
                inits[n["pat"]["local"]] = n["init"]

        def ldap_sources(e, depth=0, seen=None):
            """locals handed (as the protocol filter) to from_ldap_ro anywhere in the let-closure of e"""
            seen = set() if seen is None else seen
            out = set()
            for n in walk(e):
                if n.get("e") == "call" and is_call_to(n, "from_ldap_ro") and len(n.get("args", [])) >= 2:
                    a = unwrap(n["args"][1])
                    while a.get("e") == "mcall":
                        a = unwrap(a["recv"])
                    if a.get("e") == "path" and "local" in a["res"]:
                        out.add(a["res"]["local"])
                if n.get("e") == "path" and "local" in n["res"]:
                    l = n["res"]["local"]
                    if l in inits and l not in seen and depth < 6:
                        seen.add(l)
                        out |= ldap_sources(inits[l], depth + 1, seen)
            return out

        for n in walk(f["body"]):
            if n.get("e") != "struct":
                continue
            d = n["path"].get("def", "")
            if not (d.endswith("event::ExistsEvent") or d.endswith("event::SearchEvent")):
                continue
            fl = {x["f"]: x["x"] for x in n["fields"]}
            if "filter" not in fl or "filter_orig" not in fl:
                continue
            n_ev += 1
            a, b = ldap_sources(fl["filter"]), ldap_sources(fl["filter_orig"])
            ctx.check(bool(a) and a == b, R, f["fn"], f"{fname}:{short(d, 1)}#{n_ev}:same-client-filter",
                      "executed filter and access-checked filter come from the same client filter",
                      f"LdapServer::{fname} builds a {short(d, 1)} whose executed `filter` and access-checked `filter_orig` are translated from different "
                      f"protocol filters ({len(a)} vs {len(b)} distinct sources): terms that are executed but not shown to the access check — the asserted "
                      "attribute of a compare — are evaluated without a read grant, so the bind learns values it may not read",
                      file=f["file"], line=n.get("line"))
    ctx.floor(R, "LDAP event constructions with both filters", n_ev, 2)


# ---------------------------------------------------------------------------------------------------------------------
# application_auth_ldap tests the user's memberof against the *cached* application's linked_group. The cache is the stored
# configuration only if LdapApplicationsWriteTransaction::reload rebuilds it wholesale (rules/lib/x_cache.py).

def application_cache_rebuilt(ctx):
    from .lib.x_cache import check_rebuilt_wholesale
    check_rebuilt_wholesale(ctx, LIB, "K4-application-cache-rebuilt", "kanidmd_lib::idm::application::LdapApplicationsWriteTransaction::<'_>::reload",
                            "after an application is re-linked to another group, members of the old group can still bind and members of the new one cannot")
