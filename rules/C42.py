"""C42 SCIM filter text round-trips and honours precedence — clause (K11 DSL token scan + K4 tables).

Decided, for the SCIM filter grammar of kanidm_proto (proto/src/scim_v1/mod.rs) and its legacy copy in scim_proto
(libs/scim_proto/src/filter.rs):
 (a) the operator keyword <-> variant tables of the printer (Display / ToString, read from type-checked HIR: variant arm -> literal
     pieces of the format string) and of the grammar (tokenised `peg::parser!` body: keyword literal -> constructed variant) are
     inverse bijections for ScimFilter and ScimComplexFilter, and cover every variant of the enum (item facts);
 (b) in each `precedence!` block the level holding "or" comes before (binds looser than) the level holding "and", both are
     left-recursive infix alternatives, and they are not in the same level;
 (c) every cycle of the grammar's rule graph passes through a depth-limited entry point: a rule that first invokes the limiter
     (which fails when the budget is 0) and descends with the budget decreased by one; recursive alternatives hand on the *current*
     budget; the public entry points start from the constant, whose compiler-evaluated value is the documented limit (128);
 (d) control: the tokenised rule graph agrees with the call facts of the macro-generated `__parse_<rule>` functions, so the grammar
     that was tokenised is the grammar that was compiled.
The grammar is a macro DSL that is not in HIR; this is the one rule that reads source text, as a token stream (strings, identifiers,
punctuation) — never whitespace, positions or line numbers. Fails closed when the grammar cannot be located or tokenised.
Not decided: value escaping round-trip, attribute-name character classes, that printing stays within the limit.
"""
import os
import re
from collections import defaultdict
from .lib.hir import *
from .lib.facts import REPO

META = dict(
    technique="DSL token scan of the peg grammar (K11) cross-checked against the compiled parser's call facts, plus printer table extraction from HIR (K4)",
    level_text="Structural check of the parser/printer pair: keyword<->variant tables are inverse bijections over every enum variant, `or` binds "
               "looser than `and`, and every recursive grammar path goes through the depth limiter with a decreasing budget starting at the "
               "documented constant. Necessary clauses of round-trip and precedence for all filters; tests parse a few RFC examples.",
    level_note="Decides the operator-table, precedence-order and depth-limiter clauses only. Not decided: JSON value escaping round-trip, "
               "attribute name syntax, whitespace handling. Trusted: the tokeniser of this rule (validated on every run against the call facts "
               "of the generated parser), rustc facts.",
)

DOCUMENTED_LIMIT = 128
TARGETS = [
    # crate, grammar module regex, printer fn regex per type, enum def-path per type
    dict(crate="kanidm_proto", mod="kanidm_proto::scim_v1::scimfilter",
         printers={"ScimFilter": r"^kanidm_proto::<scim_v1::ScimFilter as core::fmt::Display>::fmt$",
                   "ScimComplexFilter": r"^kanidm_proto::<scim_v1::ScimComplexFilter as core::fmt::Display>::fmt$"},
         enums={"ScimFilter": "kanidm_proto::scim_v1::ScimFilter", "ScimComplexFilter": "kanidm_proto::scim_v1::ScimComplexFilter"},
         const="kanidm_proto::scim_v1::SCIM_FILTER_MAX_DEPTH"),
    dict(crate="scim_proto", mod="scim_proto::filter::scimfilter",
         printers={"ScimFilter": r"^scim_proto::<filter::ScimFilter as alloc::string::ToString>::to_string$",
                   "ScimComplexFilter": r"^scim_proto::<filter::ScimComplexFilter as alloc::string::ToString>::to_string$"},
         enums={"ScimFilter": "scim_proto::filter::ScimFilter", "ScimComplexFilter": "scim_proto::filter::ScimComplexFilter"},
         const="scim_proto::filter::SCIM_FILTER_MAX_DEPTH"),
]


class Shape(Exception):
    pass


# ---------------------------------------------------------------------------
# tokeniser (strings, chars, identifiers, numbers, punctuation; comments and whitespace dropped)

PUNCT3 = ("..=", "...", "<<=", ">>=")
PUNCT2 = ("--", "->", "=>", "::", "==", "!=", "<=", ">=", "&&", "||", "..", "+=", "-=", "*=", "/=")


def tokenise(src):
    toks = []
    i, n = 0, len(src)
    while i < n:
        c = src[i]
        if c.isspace():
            i += 1
            continue
        if src.startswith("//", i):
            j = src.find("\n", i)
            i = n if j < 0 else j
            continue
        if src.startswith("/*", i):
            depth, i = 1, i + 2
            while i < n and depth:
                if src.startswith("/*", i):
                    depth += 1
                    i += 2
                elif src.startswith("*/", i):
                    depth -= 1
                    i += 2
                else:
                    i += 1
            continue
        if c == '"' or (c in "rb" and re.match(r'(?:b?r#*"|b")', src[i:i + 8])):
            m = re.match(r'b?r(#*)"', src[i:])
            if m:
                close = '"' + m.group(1)
                j = src.find(close, i + m.end())
                if j < 0:
                    raise Shape("unterminated raw string")
                toks.append(("str", src[i + m.end():j]))
                i = j + len(close)
                continue
            if c == "b":
                i += 1
            j = i + 1
            buf = []
            while j < n and src[j] != '"':
                if src[j] == "\\" and j + 1 < n:
                    buf.append({"n": "\n", "t": "\t", "r": "\r", "0": "\0"}.get(src[j + 1], src[j + 1]))
                    j += 2
                else:
                    buf.append(src[j])
                    j += 1
            if j >= n:
                raise Shape("unterminated string")
            toks.append(("str", "".join(buf)))
            i = j + 1
            continue
        if c == "'":
            m = re.match(r"'(\\.[^']*|[^'\\])'", src[i:])
            if m:
                toks.append(("chr", m.group(1)))
                i += m.end()
                continue
            m = re.match(r"'[A-Za-z_][A-Za-z0-9_]*", src[i:])
            if m:
                toks.append(("life", m.group(0)))
                i += m.end()
                continue
            raise Shape("stray quote")
        if c.isalpha() or c == "_":
            m = re.match(r"[A-Za-z_][A-Za-z0-9_]*", src[i:])
            toks.append(("id", m.group(0)))
            i += m.end()
            continue
        if c.isdigit():
            m = re.match(r"[0-9][0-9A-Za-z_]*", src[i:])
            toks.append(("num", m.group(0)))
            i += m.end()
            continue
        for group in (PUNCT3, PUNCT2):
            hit = next((p for p in group if src.startswith(p, i)), None)
            if hit:
                toks.append(("p", hit))
                i += len(hit)
                break
        else:
            toks.append(("p", c))
            i += 1
    return toks


OPEN = {"(": ")", "[": "]", "{": "}"}
CLOSE = {")", "]", "}"}


def matching(toks, i):
    """index of the bracket closing toks[i]."""
    depth = 0
    for j in range(i, len(toks)):
        k, v = toks[j]
        if k == "p" and v in OPEN:
            depth += 1
        elif k == "p" and v in CLOSE:
            depth -= 1
            if depth == 0:
                return j
    raise Shape("unbalanced brackets")


def split_top(toks, sep):
    """split a token list at depth-0 occurrences of punctuation `sep`."""
    out, cur, depth = [], [], 0
    for t in toks:
        if t[0] == "p" and t[1] in OPEN:
            depth += 1
        elif t[0] == "p" and t[1] in CLOSE:
            depth -= 1
        if depth == 0 and t == ("p", sep):
            out.append(cur)
            cur = []
        else:
            cur.append(t)
    out.append(cur)
    return out


def find_grammars(toks):
    """[(grammar name, body tokens)] of every peg::parser!{ grammar NAME(..) for T { .. } } in the file."""
    out = []
    for i in range(len(toks) - 4):
        if toks[i] == ("id", "peg") and toks[i + 1] == ("p", "::") and toks[i + 2] == ("id", "parser") and toks[i + 3] == ("p", "!") and toks[i + 4] == ("p", "{"):
            end = matching(toks, i + 4)
            inner = toks[i + 5:end]
            j = 0
            while j < len(inner):
                if inner[j] == ("id", "grammar") and j + 1 < len(inner) and inner[j + 1][0] == "id":
                    name = inner[j + 1][1]
                    k = j + 2
                    while k < len(inner) and inner[k] != ("p", "{"):
                        if inner[k] == ("p", "("):
                            k = matching(inner, k)
                        k += 1
                    if k >= len(inner):
                        raise Shape("grammar without body")
                    e = matching(inner, k)
                    out.append((name, inner[k + 1:e]))
                    j = e
                j += 1
    return out


def parse_rules(body):
    """{rule name: dict(params=[ident], ret=[tokens], body=[tokens])}"""
    starts = []
    depth = 0
    for i, t in enumerate(body):
        if t[0] == "p" and t[1] in OPEN:
            depth += 1
        elif t[0] == "p" and t[1] in CLOSE:
            depth -= 1
        elif depth == 0 and t == ("id", "rule"):
            starts.append(i)
    rules = {}
    for si, s in enumerate(starts):
        end = starts[si + 1] if si + 1 < len(starts) else len(body)
        seg = body[s + 1:end]
        # drop the visibility / attributes of the *next* rule from the tail
        while seg and (seg[-1] in (("id", "pub"),) or (len(seg) >= 4 and seg[-4:] == [("id", "pub"), ("p", "("), ("id", "crate"), ("p", ")")])
                       or (seg[-1] == ("p", "]") )):
            if seg[-1] == ("id", "pub"):
                seg = seg[:-1]
            elif seg[-1] == ("p", "]"):
                # attribute #[...]
                d, j = 0, len(seg) - 1
                while j >= 0:
                    if seg[j] == ("p", "]"):
                        d += 1
                    elif seg[j] == ("p", "["):
                        d -= 1
                        if d == 0:
                            break
                    j -= 1
                if j >= 1 and seg[j - 1] == ("p", "#"):
                    seg = seg[:j - 1]
                else:
                    break
            else:
                seg = seg[:-4]
        if not seg or seg[0][0] != "id":
            raise Shape("rule without a name")
        name = seg[0][1]
        if len(seg) < 2 or seg[1] != ("p", "("):
            raise Shape(f"rule {name} without parameter list")
        pe = matching(seg, 1)
        params = [p[0][1] for p in split_top(seg[2:pe], ",") if p and p[0][0] == "id"]
        rest = seg[pe + 1:]
        ret = []
        if rest and rest[0] == ("p", "->"):
            k = 1
            while k < len(rest) and rest[k] != ("p", "="):
                if rest[k][0] == "p" and rest[k][1] in OPEN:
                    k2 = matching(rest, k)
                    ret.extend(rest[k:k2 + 1])
                    k = k2 + 1
                    continue
                ret.append(rest[k])
                k += 1
            rest = rest[k:]
        if not rest or rest[0] != ("p", "="):
            raise Shape(f"rule {name}: '=' expected")
        if name in rules:
            raise Shape(f"duplicate rule {name}")
        rules[name] = dict(params=params, ret=ret, body=rest[1:])
    return rules


def alternatives(toks):
    """[(sequence tokens, action tokens or None)] for a run of `seq {action} seq {action} ..` / a single sequence."""
    out = []
    cur = []
    i = 0
    while i < len(toks):
        t = toks[i]
        if t == ("p", "{"):
            e = matching(toks, i)
            out.append((cur, toks[i + 1:e]))
            cur = []
            i = e + 1
            continue
        if t[0] == "p" and t[1] in ("(", "["):
            e = matching(toks, i)
            cur.extend(toks[i:e + 1])
            i = e + 1
            continue
        cur.append(t)
        i += 1
    if cur:
        out.append((cur, None))
    return out


def invocations(seq, rules):
    """[(rule name, arg tokens)] for rule calls in a sequence (identifiers that are grammar rules followed by `(`)."""
    out = []
    i = 0
    while i < len(seq):
        t = seq[i]
        if t[0] == "id" and t[1] in rules and i + 1 < len(seq) and seq[i + 1] == ("p", "(") and not (i > 0 and seq[i - 1] in (("p", "."), ("p", "::"))):
            e = matching(seq, i + 1)
            out.append((t[1], seq[i + 2:e]))
            i = e + 1
            continue
        i += 1
    return out


def keywords(seq):
    return [v for (k, v) in seq if k == "str" and re.fullmatch(r"[A-Za-z]+", v)]


def puncts(seq):
    return [v for (k, v) in seq if k == "str" and not re.fullmatch(r"[A-Za-z]+", v)]


def constructed(action, types):
    """(Type, Variant) pairs `Type::Variant` named in an action block."""
    out = []
    if not action:
        return out
    for i in range(len(action) - 2):
        if action[i][0] == "id" and action[i][1] in types and action[i + 1] == ("p", "::") and action[i + 2][0] == "id":
            out.append((action[i][1], action[i + 2][1]))
    return out


def analyse_grammar(rules, types):
    """per rule: kind, alternatives with keywords / invocations / constructed variants / level index."""
    info = {}
    for name, r in rules.items():
        body = r["body"]
        rows = []
        kind = "plain"
        if len(body) >= 3 and body[0] == ("id", "precedence") and body[1] == ("p", "!") and body[2] == ("p", "{"):
            kind = "precedence"
            e = matching(body, 2)
            if e != len(body) - 1:
                raise Shape(f"rule {name}: tokens after precedence! block")
            levels = split_top(body[3:e], "--")
            for li, lv in enumerate(levels):
                for (seq, act) in alternatives(lv):
                    rows.append(dict(level=li, seq=seq, act=act))
        else:
            for choice in split_top(body, "/"):
                for (seq, act) in alternatives(choice):
                    rows.append(dict(level=None, seq=seq, act=act))
        for row in rows:
            row["kw"] = keywords(row["seq"])
            row["punct"] = puncts(row["seq"])
            row["inv"] = invocations(row["seq"], rules)
            row["ctor"] = constructed(row["act"], types)
            row["infix"] = ("p", "@") in row["seq"]
        info[name] = dict(kind=kind, rows=rows, params=r["params"], ret=[v for (k, v) in r["ret"] if k == "id"])
    return info


# ---------------------------------------------------------------------------
# printer table from HIR

def decode_fmt_pieces(node):
    """literal pieces of a format_args! expansion under `node`: handles the byte-template encoding
    (len-prefixed literals, bytes >= 0x80 = argument placeholders, 0 terminator) and the older &[&str] pieces form."""
    pieces = []
    found = False
    for n in walk(node):
        if n.get("e") == "lit" and n.get("lk") == "other" and str(n.get("v", "")).startswith("ByteStr(["):
            m = re.match(r"ByteStr\(\[([0-9, ]*)\]", n["v"])
            bs = [int(x) for x in m.group(1).split(",") if x.strip()]
            i = 0
            ok = False
            while i < len(bs):
                b = bs[i]
                if b == 0:
                    ok = (i == len(bs) - 1)
                    break
                if b >= 0x80:
                    i += 1
                    # placeholder; option bytes (if any) are >= 0x80 too in this encoding or follow as a fixed block we do not expect here
                    continue
                lit = bs[i + 1:i + 1 + b]
                if len(lit) != b:
                    break
                pieces.append(bytes(lit).decode("utf-8", "replace"))
                i += 1 + b
            if not ok:
                raise Shape(f"format template encoding not understood: {n['v'][:60]}")
            found = True
        elif n.get("e") == "lit" and n.get("lk") == "str" and n.get("exp"):
            pieces.append(n["v"])
            found = True
    if not found:
        raise Shape("no format string found in printer arm")
    return pieces


def printer_table(fn, enum_path):
    m = None
    for n in walk(fn["body"]):
        if n.get("e") == "match" and n.get("src") == "Normal" and n.get("scrut_ty", "").replace("&", "").strip().endswith(enum_path.split("::", 1)[1].rsplit("::", 1)[-1]):
            m = n
            break
    if m is None:
        raise Shape("printer is not a match over the filter enum")
    table = {}
    for a in m["arms"]:
        vs = sorted({t[4:] for t in tokens(a["pat"]) if t.startswith("def:" + enum_path + "::")})
        if not vs:
            raise Shape("printer arm without a variant pattern (catch-all)")
        pieces = decode_fmt_pieces(a["body"])
        words = [w for p in pieces for w in re.findall(r"[A-Za-z]+", p)]
        pun = "".join(re.sub(r"[A-Za-z\s]", "", p) for p in pieces)
        for v in vs:
            table[v.rsplit("::", 1)[1]] = dict(words=words, punct=pun, line=a["body"].get("line"))
    return table


# ---------------------------------------------------------------------------

def reach_rules(info, start):
    seen, q = {start}, [start]
    while q:
        x = q.pop()
        for row in info.get(x, {}).get("rows", []):
            for (r, _) in row["inv"]:
                if r not in seen:
                    seen.add(r)
                    q.append(r)
    return seen


def run(ctx):
    F = ctx.facts
    ctx.explanation = ("K11/K4 on the SCIM filter grammar(s): printer and grammar keyword<->variant tables are inverse bijections over all enum variants; "
                       "`or` level precedes `and` level; every grammar cycle goes through the depth limiter with a decreasing budget that starts at the "
                       "documented constant; tokenised rule graph == call facts of the generated parser.")
    for T in TARGETS:
        check_target(ctx, T)
    ctx.exhaustive = True


def check_target(ctx, T):
    F = ctx.facts
    crate = T["crate"]
    tag = crate
    printers = {ty: ctx.fn1(crate, rx) for ty, rx in T["printers"].items()}
    relfile = printers["ScimFilter"]["file"]
    gfn = T["mod"]
    path = relfile if os.path.isabs(relfile) else os.path.join(REPO, relfile)
    try:
        src = open(path, encoding="utf-8").read()
        toks = tokenise(src)
        grams = find_grammars(toks)
        gname = gfn.rsplit("::", 1)[1]
        g = [b for (n, b) in grams if n == gname]
        if len(g) != 1:
            raise Shape(f"{len(g)} peg grammars named {gname} in {relfile} (found {[n for n, _ in grams]})")
        rules = parse_rules(g[0])
        types = set(T["enums"])
        info = analyse_grammar(rules, types)
    except (OSError, Shape, UnicodeDecodeError) as e:
        ctx.violation("K11-grammar-located", gfn, "tokenised", f"the SCIM filter grammar could not be located/tokenised in {relfile} (fail closed): {e}")
        return
    ctx.ok("K11-grammar-located", gfn, "tokenised", f"{relfile}: grammar {gname}, {len(rules)} rules, {len(toks)} tokens")
    ctx.floor("K11-grammar-located", f"{tag}: grammar rules", len(rules), 35)

    # ---- (d) control: token rule graph == generated parser call graph ----------------------------------
    gen = defaultdict(set)
    pref = gfn + "::__parse_"
    for (caller, callee, resolved, ln, exp, sty) in F.calls(crate):
        tgt = resolved or callee
        if caller.startswith(pref) and tgt.startswith(pref):
            a = re.match(r"([A-Za-z0-9_]+)", caller[len(pref):]).group(1)
            b = re.match(r"([A-Za-z0-9_]+)", tgt[len(pref):]).group(1)
            if a != b:
                gen[a].add(b)
    tokg = {n: {r for row in i["rows"] for (r, _) in row["inv"]} - {n} for n, i in info.items()}
    gen_rules = {n[len(pref):] for n in F.fn_names(crate) if n.startswith(pref) and re.fullmatch(r"[A-Za-z0-9_]+", n[len(pref):])}
    ctx.check(gen_rules == set(rules), "K11-grammar-located", gfn, "rules==generated-parsers",
              f"{len(rules)} tokenised rules == generated __parse_* functions",
              f"tokenised rules and the compiler's generated parser functions differ: only in source {sorted(set(rules) - gen_rules)[:6]}, only generated {sorted(gen_rules - set(rules))[:6]} "
              f"— the tokeniser does not see the grammar that is compiled")
    diff = {n: (sorted(tokg.get(n, set()) - gen.get(n, set())), sorted(gen.get(n, set()) - tokg.get(n, set()))) for n in set(tokg) | set(gen)
            if tokg.get(n, set()) != gen.get(n, set())}
    ctx.check(not diff, "K11-grammar-located", gfn, "rule-graph==call-facts",
              f"rule invocation graph ({sum(len(v) for v in tokg.values())} edges) equals the MIR call graph of the generated parser",
              f"tokenised rule graph differs from the call facts of the generated parser (rule: (only tokens, only compiled)): {dict(list(diff.items())[:5])}")

    # ---- (a) keyword <-> variant tables --------------------------------------------------------------
    entry = {"ScimFilter": "parse", "ScimComplexFilter": "parse_complex"}
    for ty in sorted(types):
        enum = F.item(crate, "enum", T["enums"][ty])
        if not ctx.check(enum is not None and entry[ty] in info, "K4-keyword-tables", T["enums"][ty], "anchors",
                         "enum and entry rule found", f"enum {T['enums'][ty]} or entry rule {entry[ty]} not found"):
            continue
        variants = [v["v"] for v in enum["variants"]]
        ctx.floor("K4-keyword-tables", f"{tag}: {ty} variants", len(variants), 13)
        try:
            ptab = printer_table(printers[ty], T["enums"][ty])
        except Shape as e:
            ctx.violation("K4-keyword-tables", printers[ty]["fn"], "printer-table", f"printer table not extracted (fail closed): {e}",
                          file=printers[ty]["file"], line=printers[ty]["line"])
            continue
        live = reach_rules(info, entry[ty])
        gtab = defaultdict(list)     # variant -> [(keywords, puncts, rule)]
        for rn in sorted(live):
            for row in info[rn]["rows"]:
                for (t2, v) in row["ctor"]:
                    if t2 == ty:
                        gtab[v].append((row["kw"], row["punct"], rn))
        kw2var = defaultdict(set)
        for v, lst in gtab.items():
            for (kw, pn, rn) in lst:
                for k in kw:
                    kw2var[k].add(v)
        for v in variants:
            inst = f"{tag}:{ty}::{v}"
            p = ptab.get(v)
            glst = gtab.get(v, [])
            if not ctx.check(p is not None, "K4-keyword-tables", printers[ty]["fn"], inst + ":printed", "variant has a printer arm",
                             f"{ty}::{v} has no arm in the printer", file=printers[ty]["file"], line=printers[ty]["line"]):
                continue
            if not ctx.check(len(glst) == 1, "K4-keyword-tables", gfn, inst + ":parsed",
                             f"constructed by exactly one reachable grammar alternative ({glst[0][2] if glst else '-'})",
                             f"{ty}::{v} is constructed by {len(glst)} grammar alternatives reachable from `{entry[ty]}` ({[g[2] for g in glst]}): "
                             + ("the printed form cannot be parsed back" if not glst else "ambiguous keyword table")):
                continue
            kw, pn, rn = glst[0]
            pw = p["words"]
            if pw:
                ok = kw == pw and kw2var.get(pw[0]) == {v}
                ctx.check(ok, "K4-keyword-tables", gfn, inst + ":keyword",
                          f"printed keyword {pw} == grammar keyword {kw} (rule {rn}), and that keyword builds only {v}",
                          f"{ty}::{v} is printed with keyword {pw} but the grammar alternative that builds it (rule {rn}) is keyed by {kw}; "
                          f"keyword {pw} builds {sorted(kw2var.get(pw[0], [])) if pw else '-'} — print-then-parse does not return the same filter",
                          file=printers[ty]["file"], line=p["line"])
            else:
                # punctuation-keyed (complex attribute filter  attr[ .. ])
                want = "".join(pn)
                ok = not kw and want != "" and all(ch in p["punct"] for ch in want)
                ctx.check(ok, "K4-keyword-tables", gfn, inst + ":keyword",
                          f"printed punctuation {p['punct']!r} covers grammar punctuation {want!r} (rule {rn})",
                          f"{ty}::{v} is printed without a keyword (punctuation {p['punct']!r}) but the grammar builds it from keywords {kw} / punctuation {want!r}",
                          file=printers[ty]["file"], line=p["line"])
            ctx.sample(f"{tag} {ty}::{v}: print {pw or p['punct']} <-> parse {kw or pn} ({rn})")
        extra = sorted(set(gtab) - set(variants))
        ctx.check(not extra, "K4-keyword-tables", gfn, f"{tag}:{ty}:no-unknown-variants", "grammar constructs only declared variants",
                  f"grammar constructs {extra} which are not variants of {ty}")

    # ---- (b) precedence ------------------------------------------------------------------------------
    precs = {n: i for n, i in info.items() if i["kind"] == "precedence"}
    ctx.floor("K11-precedence", f"{tag}: precedence! blocks", len(precs), 2)
    for n, i in sorted(precs.items()):
        lv = {}
        for row in i["rows"]:
            for k in row["kw"]:
                if k in ("or", "and"):
                    lv.setdefault(k, []).append(row)
        ok_shape = all(len(lv.get(k, [])) == 1 and lv[k][0]["infix"] for k in ("or", "and"))
        if not ctx.check(ok_shape, "K11-precedence", gfn, f"{tag}:{n}:or-and-infix", "one infix alternative each for `or` and `and`",
                         f"rule {n}: expected exactly one infix (`@`) alternative for \"or\" and one for \"and\"; found or={len(lv.get('or', []))} and={len(lv.get('and', []))}"):
            continue
        lo, la = lv["or"][0]["level"], lv["and"][0]["level"]
        ctx.check(lo < la, "K11-precedence", gfn, f"{tag}:{n}:or-before-and",
                  f"`or` at level {lo} precedes `and` at level {la}: and binds tighter",
                  f"rule {n}: the level holding \"or\" ({lo}) does not precede the level holding \"and\" ({la}) — `a or b and c` would not parse as `a or (b and c)`")
        for k, want in (("or", "Or"), ("and", "And")):
            row = lv[k][0]
            cv = {v for (_, v) in row["ctor"]}
            ctx.check(cv == {want}, "K11-precedence", gfn, f"{tag}:{n}:{k}-builds-{want}", f"\"{k}\" builds {want}",
                      f"rule {n}: the \"{k}\" alternative builds {sorted(cv)} instead of {want}")

    # ---- (c) depth limiter ----------------------------------------------------------------------------
    limiters = []
    for n, i in info.items():
        r = rules[n]
        if len(r["params"]) == 1 and not i["rows"][0]["inv"] if i["rows"] else False:
            b = r["body"]
            p = r["params"][0]
            ids = [t for t in b]
            has_test = any(ids[j:j + 3] in ([("id", p), ("p", "=="), ("num", "0")], [("num", "0"), ("p", "=="), ("id", p)],
                                            [("id", p), ("p", "<"), ("num", "1")], [("id", p), ("p", "<="), ("num", "0")]) for j in range(len(ids)))
            if has_test and ("id", "Err") in ids and ("p", "?") in ids[:3]:
                # `{? if p == 0 { Err(..) } else { Ok(..) } }` : Err must be in the branch taken when the test holds
                j = next(j for j in range(len(ids)) if ids[j:j + 3] in ([("id", p), ("p", "=="), ("num", "0")], [("num", "0"), ("p", "=="), ("id", p)],
                                                                      [("id", p), ("p", "<"), ("num", "1")], [("id", p), ("p", "<="), ("num", "0")]))
                after = ids[j + 3:]
                if ("id", "if") in ids[:j] and after[:1] == [("p", "{")]:
                    e = matching(after, 0)
                    then = after[1:e]
                    if ("id", "Err") in then and ("id", "Ok") not in then:
                        limiters.append(n)
    if not ctx.check(len(limiters) >= 1, "K11-depth-limiter", gfn, f"{tag}:limiter-rule",
                     f"limiter rule(s) {limiters}: fail when the budget is 0",
                     "no grammar rule of the form `rule limiter(d) = {? if d == 0 { Err(..) } else { Ok(()) } }` found — nothing bounds the nesting depth"):
        return
    limited = {}
    for n, i in info.items():
        if len(i["rows"]) != 1 or not i["params"]:
            continue
        inv = i["rows"][0]["inv"]
        if len(inv) >= 2 and inv[0][0] in limiters and inv[0][1] == [("id", i["params"][0])]:
            limited[n] = inv
    ctx.floor("K11-depth-limiter", f"{tag}: depth-limited entry rules", len(limited), 2)
    for n, inv in sorted(limited.items()):
        p = info[n]["params"][0]
        for (callee, args) in inv[1:]:
            dec = args in ([("id", p), ("p", "."), ("id", "saturating_sub"), ("p", "("), ("num", "1"), ("p", ")")], [("id", p), ("p", "-"), ("num", "1")])
            ctx.check(dec, "K11-depth-limiter", gfn, f"{tag}:{n}->{callee}:budget-decreases",
                      f"{n} descends into {callee} with {p} - 1",
                      f"depth-limited rule {n} descends into {callee} with budget `{' '.join(v for _, v in args)}` instead of `{p}.saturating_sub(1)`: the budget never runs out")
    # every cycle passes through a limited rule
    g2 = {n: {r for r in tokg.get(n, set()) if r not in limited} for n in info if n not in limited}
    color = {}
    cyc = []

    def dfs(u, stack):
        color[u] = 1
        for v in sorted(g2.get(u, ())):
            if color.get(v) == 1:
                cyc.append(stack[stack.index(v):] + [v] if v in stack else [u, v])
            elif v not in color:
                dfs(v, stack + [v])
        color[u] = 2

    for u in sorted(g2):
        if u not in color:
            dfs(u, [u])
    for n, i in sorted(info.items()):
        if n not in limited and any(r == n for row in i["rows"] for (r, _) in row["inv"]):
            cyc.append([n, n])          # a rule invoking itself by name (the `@` of precedence! is not an invocation)
    # direct self recursion through `@` is the precedence climber itself (bounded by input), not nesting
    ctx.check(not cyc, "K11-depth-limiter", gfn, f"{tag}:every-cycle-limited",
              f"rule graph minus the depth-limited rules {sorted(limited)} is acyclic: every recursive path calls the limiter",
              f"grammar recursion that bypasses the depth limiter: {[' -> '.join(c) for c in cyc[:3]]} — nesting through this path is unbounded (stack exhaustion on hostile filters)")
    # recursive alternatives hand on the current budget
    cname = T["const"].rsplit("::", 1)[1]
    n_rec = 0
    for n, i in sorted(info.items()):
        if i["kind"] != "precedence":
            continue
        p = i["params"][0] if i["params"] else None
        for row in i["rows"]:
            for (callee, args) in row["inv"]:
                if not (reach_rules(info, callee) & set(precs)):
                    continue          # does not nest (attrexp, separator, attrname ..)
                n_rec += 1
                what = ("not" if "not" in row["kw"] else "complex" if "[" in row["punct"] else "paren" if "(" in row["punct"] else "alt")
                inst = f"{tag}:{n}:{what}->{callee}:through-limiter"
                argtxt = " ".join(v for _, v in args)
                if callee in limited:
                    ctx.check(p is not None and args == [("id", p)], "K11-depth-limiter", gfn, inst,
                              f"{what} alternative recurses through depth-limited {callee}({p})",
                              f"rule {n}: the {what} alternative recurses through `{callee}({argtxt})` — not the current budget `{p}`: each level of nesting must consume the budget it was given")
                    continue
                sub = [x for rw in info[callee]["rows"] for x in rw["inv"]]
                fresh = len(sub) == 1 and sub[0][0] in limited and sub[0][1] == [("id", cname)]
                # A restart with a fresh budget bounds nesting by 2 x limit, not by the limit. It is tolerated (as an observation) only in the legacy
                # grammar copy of scim_proto, whose filter parser no crate of the server calls; the grammar the server parses requests with must hand on
                # the budget it was given. (tightened after seeded change C42: kanidm_proto's complex alternative was switched to parse_complex())
                if fresh and tag != "scim_proto":
                    ctx.violation("K11-depth-limiter", gfn, inst,
                                  f"rule {n}: the {what} alternative recurses through the public entry `{callee}()`, which starts a FRESH budget of {cname}: the levels "
                                  f"nested outside the {'[..]' if what == 'complex' else what} no longer count, so a filter can nest about twice the documented limit "
                                  f"({cname}) — hand on the current budget `{p}` through the depth-limited rule instead")
                    continue
                ctx.check(fresh, "K11-depth-limiter", gfn, inst,
                          f"{what} alternative recurses through entry {callee}() = {sub[0][0] if sub else '?'}({cname}): limiter applies, with a fresh budget",
                          f"rule {n}: the {what} alternative recurses through `{callee}({argtxt})`, which is neither a depth-limited rule called with the current budget nor a "
                          f"public entry that starts one from {cname}: the nesting limit is not enforced on this path")
                if fresh:
                    ctx.notes.append(f"{tag}: {n} {what} alternative restarts the budget via {callee}(): nesting through it is bounded by 2 x {cname}, not {cname} (observation; legacy copy)")
    ctx.floor("K11-depth-limiter", f"{tag}: nesting alternatives checked", n_rec, 5)
    # entries start from the documented constant
    cval = F.const_val(crate, T["const"])
    ctx.check(cval == DOCUMENTED_LIMIT, "K11-depth-limiter", T["const"], f"{tag}:limit-constant",
              f"{short(T['const'], 1)} = {cval} (documented limit {DOCUMENTED_LIMIT})",
              f"{T['const']} evaluates to {cval}, documented nesting limit is {DOCUMENTED_LIMIT}")
    for en in ("parse", "parse_complex"):
        if en not in info:
            continue
        inv = [x for row in info[en]["rows"] for x in row["inv"]]
        ok = len(inv) == 1 and inv[0][0] in limited and inv[0][1] == [("id", cname)]
        ctx.check(ok, "K11-depth-limiter", gfn, f"{tag}:{en}:starts-at-constant",
                  f"{en} = {inv[0][0]}({cname})" if inv else "",
                  f"public entry rule {en} does not start the depth-limited rule with {cname} (invokes {[(r, ' '.join(v for _, v in a)) for r, a in inv]})")
