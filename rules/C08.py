"""C08 Replicas converge — NOT decided as a whole; two structural clauses (K4).

Decided:
 (a) Entry::merge_state, (Live, Live) arm — the per-attribute decision tables
       match (changes_self.get(a), changes_db.get(a))           (which side changed the attribute)
       match (self.attrs.get(a), db.attrs.get(a)) [if newer]    (which side holds a value)
     are evaluated row by row (patterns and guards are *evaluated*, arms are not compared textually):
       * every row records the change id of the side it takes and inserts that side's value (or nothing when that
         side has none): the winner is the side whose change id is strictly greater;
       * the table is mirror-symmetric: swapping the two entries and negating the "left is newer" test yields the
         same outcome with the sides swapped;
       * when both sides hold a value the valueset merge is called exactly once, as winner.repl_merge_valueset(loser).
 (b) Entry::resolve_add_conflict — of two live entries created independently under one uuid the one with the
     smaller creation id is kept (both branches of the order test), the conflict entry is built from the loser
     (the database entry) and only when this server is the origin of that entry (`at.s_uuid == cid.s_uuid`);
     is_add_conflict is exactly "both live and creation ids differ".
Sides are parameter provenance (self = incoming entry, first argument = database entry), never local names.
Not decided: convergence over histories, schedules and topologies; plugin-level conflicts (attrunique, refint).
"""
from .lib.hir import *
from .lib import pathcond as pc
from .lib.x_prov import Prov, tails
from .lib import x_merge as M

META = dict(
    technique="decision-table extraction from type-checked HIR with side provenance (K4): mirror symmetry and winner-consistency of the merge tables",
    level_text="Exhaustive structural check of the replication merge tables: all 8 rows of the attribute-value table and all 4 rows of the change-id table of "
               "Entry::merge_state are evaluated and shown mirror-symmetric and winner-consistent; both branches of resolve_add_conflict keep the entry with the "
               "smaller creation id and only the origin materialises the conflict entry. A necessary clause of convergence (an asymmetric row makes two replicas "
               "keep different values for ever); the ~30 scripted replication tests never enumerate the rows.",
    level_note="Convergence itself (arbitrary histories, schedules, topologies, plugin-generated conflicts) is NOT decided; only the two named clauses are. "
               "Trusted: rustc's HIR and types, the provenance tracer, the rule tables.",
)
LIB = "kanidmd_lib"
SOME = "core::option::Option::Some"
NONE = "core::option::Option::None"
OTHER = {}
NAME = {}


def set_sides(ctx, rule, fn):
    """Identify the incoming / database entry parameters by type and install the side tables."""
    sd = M.entry_sides(fn)
    if not ctx.check(sd is not None, rule, fn["fn"], "entry-parameters", "incoming and database entry parameters identified by type",
                     f"cannot identify the incoming (Entry<EntryIncremental,_>) and database (Entry<EntrySealed,_>) parameters: {[p.get('ty') for p in fn['params']]} (shape not understood)",
                     file=fn["file"], line=fn["line"]):
        return None
    a, b = sd
    OTHER.clear(); NAME.clear()
    OTHER.update({a: b, b: a})
    NAME.update({a: "incoming", b: "db"})
    return a, b


def sset(s):
    return "{" + ",".join(NAME.get(x, x) for x in sorted(s)) + "}"


def run(ctx):
    ctx.explanation = ("Row-by-row evaluation of merge_state's per-attribute tables (mirror symmetry, winner = strictly greater change id, "
                       "merge called as newer.repl_merge_valueset(older)) and of resolve_add_conflict's keep-smaller / origin-only structure. "
                       "Necessary clauses of convergence, not convergence.")
    merge_tables(ctx)
    add_conflict(ctx)
    attr_states_complete(ctx)


# ---------------------------------------------------------------------------

def merge_tables(ctx):
    R = "K4-merge-attr"
    fn = ctx.fn(LIB, M.MERGE)
    P = Prov(fn)
    loc = dict(file=fn["file"], line=fn["line"])
    sd = set_sides(ctx, R, fn)
    if sd is None:
        return
    A, B = sd
    cid_ms = M.find_tuple_match(fn["body"], lambda t: t.count("Option<&repl::cid::Cid>") == 2)
    val_ms = M.find_tuple_match(fn["body"], lambda t: t.count("Option<&") == 2 and t.count("ValueSetT") == 2)
    if not ctx.check(len(cid_ms) == 1 and len(val_ms) == 1, R, fn["fn"], "tables-found",
                     "change-id table and value table located",
                     f"expected one `match (Option<&Cid>, Option<&Cid>)` and one `match (Option<&ValueSet>, Option<&ValueSet>)` in merge_state, "
                     f"found {len(cid_ms)} / {len(val_ms)} (shape not understood)", **loc):
        return
    cm, vm = cid_ms[0], val_ms[0]
    cs, vs = M.sides_of_scrut(P, cm), M.sides_of_scrut(P, vm)
    ok = all(len(x) == 1 for x in cs + vs) and cs[0] != cs[1] and vs[0] != vs[1] and set().union(*cs) == {A, B} and set().union(*vs) == {A, B}
    if not ctx.check(ok, R, fn["fn"], "table-sides",
                     f"tables range over (incoming, db): {[sset(x) for x in cs]} / {[sset(x) for x in vs]}",
                     f"the two scrutinee components of the merge tables do not derive from the two entries one each: {[sset(x) for x in cs]} / {[sset(x) for x in vs]} (shape not understood)",
                     file=fn["file"], line=cm.get("line")):
        return
    cside = [next(iter(x)) for x in cs]
    vside = [next(iter(x)) for x in vs]
    # the value table must sit in the (Some, Some) row of the change-id table
    both = M.select_arm(cm, (SOME, SOME))
    ctx.check(both is not None and any(n is vm for n in walk(both["body"])), R, fn["fn"], "value-table-in-both-changed-row",
              "value table decides the row where both sides changed the attribute",
              "the value table is not inside the (Some, Some) row of the change-id table (shape not understood)", file=fn["file"], line=vm.get("line"))

    def events_of(n):
        if n.get("e") != "mcall" or n.get("exp"):
            return []
        if n.get("name") == "insert" and any("BTreeMap" in c for c in callee_any(n)) and len(n["args"]) == 2:
            rt = n.get("recv_ty", "")
            lab = frozenset(P.labels(n["args"][1], args=False))
            if rt.rstrip().endswith("repl::cid::Cid>"):
                return [("cid", lab)]
            if "ValueSetT" in rt:
                return [("val", lab)]
            return [("other-insert", lab)]
        if is_call_to(n, "ValueSetT::repl_merge_valueset", "repl_merge_valueset"):
            return [("merge", frozenset(P.labels(n["recv"], args=False)), frozenset(P.labels(n["args"][0], args=False)))]
        return []

    def swap(sig):
        def sw(s):
            return frozenset(OTHER.get(x, x) for x in s)
        return frozenset(tuple(sorted((ev[0],) + tuple(sw(x) for x in ev[1:]) for ev in path)) for path in sig)

    def sig_of(arm_body, stop=None):
        ps = M.paths(arm_body, events_of)
        return frozenset(tuple(sorted(p)) for p in ps)

    def render(sig):
        return " | ".join("[" + ", ".join(ev[0] + ":" + "→".join(sset(x) for x in ev[1:]) for ev in p) + "]" for p in sorted(sig)) or "[]"

    # ---- the ordering predicate --------------------------------------------------
    guards = [a["guard"] for a in vm["arms"] if "guard" in a]
    pred = None
    for g in guards:
        e = P.resolve(g)
        neg = False
        while e.get("e") == "un" and e.get("op") == "Not":
            e, neg = P.resolve(e["x"]), not neg
        c = M.cmp_between(P, e, A, B)
        if c and c[0] in ("<", "<=", ">", ">="):
            pred = (c, e)
            break
    if not ctx.check(pred is not None, R, fn["fn"], "newer-test",
                     "guards test which change id is greater",
                     "the guards of the value table are not a comparison between the two sides' change ids (shape not understood)",
                     file=fn["file"], line=vm.get("line")):
        return
    cmp_, pred_node = pred
    # the compared values must be the change ids selected by the change-id table
    ctx.sample(f"merge_state: newer-test = {ex_s(pred_node)}  (left={NAME[cmp_[1]]}, right={NAME[cmp_[2]]})")

    def guard_eval_for(t):
        def ge(g):
            e = P.resolve(g)
            neg = False
            while e.get("e") == "un" and e.get("op") == "Not":
                e, neg = P.resolve(e["x"]), not neg
            if e is pred_node or (M.cmp_between(P, e, A, B) == cmp_):
                return (not t) if neg else t
            return None
        return ge

    # ---- value table: 8 rows -------------------------------------------------------
    sigs = {}
    for pa in (SOME, NONE):
        for pb in (SOME, NONE):
            for t in (True, False):
                key = f"{short(pa,1)},{short(pb,1)},{'newer' if t else 'older'}"
                try:
                    arm = M.select_arm(vm, (pa, pb), guard_eval_for(t))
                    sig = sig_of(arm["body"]) if arm is not None else None
                except ValueError as e:
                    arm, sig = None, None
                    ctx.violation(R, fn["fn"], f"row:{key}", f"row cannot be evaluated: {e} (shape not understood)", file=fn["file"], line=vm.get("line"))
                    continue
                if arm is None:
                    ctx.violation(R, fn["fn"], f"row:{key}", "no arm of the value table accepts this row (shape not understood)", file=fn["file"], line=vm.get("line"))
                    continue
                sigs[(pa, pb, t)] = (sig, arm)
                W = M.greater_side(cmp_, t)           # side with the strictly greater change id
                O = OTHER[W]
                present = {vside[0]: pa == SOME, vside[1]: pb == SOME}
                problems = []
                for p in sig:
                    cids = [ev for ev in p if ev[0] == "cid"]
                    vals = [ev for ev in p if ev[0] == "val"]
                    mer = [ev for ev in p if ev[0] == "merge"]
                    if len(cids) != 1 or cids[0][1] != {W}:
                        problems.append(f"records change id of {[sset(c[1]) for c in cids]} (expected exactly the {NAME[W]} side's, which is newer)")
                    if present[W]:
                        if len(vals) != 1 or vals[0][1] != {W}:
                            problems.append(f"inserts value from {[sset(v[1]) for v in vals]} (expected exactly one value from the {NAME[W]} side)")
                    elif vals:
                        problems.append(f"inserts a value from {[sset(v[1]) for v in vals]} although the newer side ({NAME[W]}) has none (a removal would be undone)")
                    if present[W] and present[O]:
                        if len(mer) != 1 or mer[0][1] != {W} or mer[0][2] != {O}:
                            problems.append(f"valueset merge called as {[sset(m_[1]) + '.merge(' + sset(m_[2]) + ')' for m_ in mer]} (expected exactly {NAME[W]}.repl_merge_valueset({NAME[O]}): newer merges older)")
                    elif mer:
                        problems.append("valueset merge called although one side has no value")
                ctx.check(not problems, R, fn["fn"], f"row:{key}", f"{render(sig)}",
                          f"value-table row ({key}; left={NAME[vside[0]]}): " + "; ".join(sorted(set(problems))) + " — replicas applying the same two changes in opposite roles keep different states",
                          file=fn["file"], line=arm["body"].get("line"))
    n_sym = 0
    for (pa, pb, t), (sig, arm) in sorted(sigs.items(), key=lambda kv: (kv[0][0], kv[0][1], not kv[0][2])):
        mk = (pb, pa, not t)
        if mk not in sigs or str(mk) < str((pa, pb, t)):
            continue            # each unordered pair of mirror rows is compared once
        key = f"{short(pa,1)},{short(pb,1)},{'newer' if t else 'older'}"
        msig = sigs[mk][0]
        n_sym += 1
        ctx.check(swap(sig) == msig, R, fn["fn"], f"mirror:{key}", "mirror row agrees",
                  f"row ({key}) yields {render(sig)} but its mirror row yields {render(msig)} instead of {render(swap(sig))}: the table is not mirror-symmetric, "
                  "so the outcome depends on which replica receives the other's change",
                  file=fn["file"], line=arm["body"].get("line"))
    ctx.floor(R, "value-table rows evaluated", len(sigs), 8)
    ctx.sample("merge_state value table: " + "; ".join(f"({short(a,1)},{short(b,1)},{'newer' if t else 'older'}) ⇒ {render(s[0])}" for (a, b, t), s in list(sorted(sigs.items(), key=str))[:4]))

    # ---- change-id table: 4 rows -----------------------------------------------------
    R2 = "K4-merge-cid"
    csig = {}
    for pa in (SOME, NONE):
        for pb in (SOME, NONE):
            key = f"{short(pa,1)},{short(pb,1)}"
            arm = M.select_arm(cm, (pa, pb))
            if not ctx.check(arm is not None, R2, fn["fn"], f"row:{key}:covered", "row covered", "no arm of the change-id table accepts this row (shape not understood)",
                             file=fn["file"], line=cm.get("line")):
                continue
            if pa == SOME and pb == SOME:
                continue
            try:
                sig = sig_of(arm["body"])
            except ValueError as e:
                ctx.violation(R2, fn["fn"], f"row:{key}", f"row cannot be evaluated: {e}", file=fn["file"], line=cm.get("line"))
                continue
            csig[(pa, pb)] = sig
            present = [s for s, p in zip(cside, (pa, pb)) if p == SOME]
            problems = []
            any_val = False
            for p in sig:
                cids = [ev for ev in p if ev[0] == "cid"]
                vals = [ev for ev in p if ev[0] == "val"]
                if not present:
                    if cids or vals:
                        problems.append("records a change although neither side changed the attribute")
                    continue
                W = present[0]
                if len(cids) != 1 or cids[0][1] != {W}:
                    problems.append(f"records change id of {[sset(c[1]) for c in cids]} (expected the {NAME[W]} side's, the only side that changed the attribute)")
                if any(v[1] != {W} for v in vals) or len(vals) > 1:
                    problems.append(f"inserts value from {[sset(v[1]) for v in vals]} (expected only the {NAME[W]} side's)")
                any_val = any_val or bool(vals)
                if any(ev[0] == "merge" for ev in p):
                    problems.append("valueset merge called although only one side changed the attribute")
            if present and not any_val:
                problems.append("never inserts the changed side's value")
            ctx.check(not problems, R2, fn["fn"], f"row:{key}", render(sig),
                      f"change-id table row ({key}; left={NAME[cside[0]]}): " + "; ".join(sorted(set(problems))), file=fn["file"], line=arm["body"].get("line"))
    if (SOME, NONE) in csig and (NONE, SOME) in csig:
        ctx.check(swap(csig[(SOME, NONE)]) == csig[(NONE, SOME)], R2, fn["fn"], "mirror:Some,None", "mirror row agrees",
                  f"row (Some,None) yields {render(csig[(SOME, NONE)])} but (None,Some) yields {render(csig[(NONE, SOME)])}: not mirror-symmetric",
                  file=fn["file"], line=cm.get("line"))
    # floor on the merge call sites of the whole function
    mc = calls_in(fn["body"], "ValueSetT::repl_merge_valueset")
    ctx.floor(R, "repl_merge_valueset call sites in merge_state", len(mc), 2)
    for i, c in enumerate(mc):
        a, b = P.labels(c["recv"], args=False), P.labels(c["args"][0], args=False)
        ctx.check(len(a) == 1 and len(b) == 1 and a != b, R, fn["fn"], f"merge-call:{sset(a)}.merge({sset(b)})",
                  "merges the two sides", f"repl_merge_valueset called with receiver from {sset(a)} and argument from {sset(b)}: it must combine the two entries' values",
                  file=fn["file"], line=c.get("line"))
    return dict(rows=sigs, cmp=cmp_, vside=vside, A=A, B=B, fn=fn)


# ---------------------------------------------------------------------------

def add_conflict(ctx):
    R = "K4-add-conflict"
    fn = ctx.fn(LIB, M.RESOLVE)
    P = Prov(fn)
    sd = set_sides(ctx, R, fn)
    if sd is None:
        return
    A, B = sd
    ms = M.find_tuple_match(fn["body"], M.is_state_pair)
    if not ctx.check(len(ms) == 1, R, fn["fn"], "state-table-found", "match over (State, State)",
                     f"expected one match over (State, State) in resolve_add_conflict, found {len(ms)} (shape not understood)", file=fn["file"], line=fn["line"]):
        return
    m = ms[0]
    sides = M.sides_of_scrut(P, m)
    if not ctx.check(sides == [{A}, {B}] or sides == [{B}, {A}], R, fn["fn"], "table-sides", "scrutinee = (incoming state, db state)",
                     f"scrutinee components derive from {[sset(s) for s in sides]} (shape not understood)", file=fn["file"], line=m.get("line")):
        return
    LIVE = M.STATE + "::Live"
    arm = M.select_arm(m, (LIVE, LIVE))
    if not ctx.check(arm is not None, R, fn["fn"], "live-live-arm", "(Live, Live) handled", "no arm for (Live, Live) (shape not understood)", file=fn["file"], line=m.get("line")):
        return
    # the order test
    tests = []
    for n in walk(arm["body"], into_closures=False):
        if n.get("e") == "if" and not n.get("exp") and "else" in n:
            c = M.cmp_between(P, n["cond"], A, B)
            if c and c[0] in ("<", "<=", ">", ">=") and not mentions(n["cond"], "field", "s_uuid"):
                tests.append((n, c))
    if not ctx.check(len(tests) == 1, R, fn["fn"], "order-test", "one if/else on the order of the two creation ids",
                     f"expected one `if at_incoming <op> at_db {{..}} else {{..}}` in the (Live, Live) arm, found {len(tests)} (shape not understood)",
                     file=fn["file"], line=arm["body"].get("line")):
        return
    ifn, c = tests[0]
    for when, branch in ((True, ifn["then"]), (False, ifn["else"])):
        later = M.greater_side(c, when)      # side created later = loser
        keep = OTHER[later]
        key = f"keep-smaller:{NAME[later]}-later"
        ts = tails(branch)
        ok = bool(ts)
        detail = []
        for t in ts:
            if t.get("e") != "tuple" or len(t["xs"]) != 2:
                ok = False
                detail.append("branch does not end in a (conflict, entry) tuple")
                continue
            ents = [M.entry_struct_fields(P, x) for x in t["xs"]]
            kept = [e for e in ents if e is not None]
            if len(kept) != 1:
                ok = False
                detail.append("cannot find the surviving `Entry { valid: { ecstate }, attrs }` in the result tuple")
                continue
            ec, at, _ = kept[0]
            le, la = P.labels(ec, args=False), P.labels(at, args=False)
            if le != {keep} or la != {keep}:
                ok = False
                detail.append(f"surviving entry takes change state from {sset(le)} and attributes from {sset(la)}, expected both from the {NAME[keep]} entry (the one created first)")
            other = [x for x, e in zip(t["xs"], ents) if e is None][0]
            if later == A:
                # incoming is the later one: it is dropped, no conflict entry is created here
                o = P.resolve(other)
                if not (o.get("e") == "path" and ends(o["res"].get("def", ""), NONE)):
                    ok = False
                    detail.append("a conflict entry is produced although the incoming entry (created later) is simply dropped")
        ctx.check(ok, R, fn["fn"], key, f"{NAME[keep]} entry (smaller creation id) is kept",
                  f"when the {NAME[later]} entry was created later: " + "; ".join(sorted(set(detail))) + " — two replicas would keep different entries for one uuid",
                  file=fn["file"], line=branch.get("line"))
    # origin-only conflict entry
    def is_sink(n):
        return n.get("e") == "call" and not n.get("exp") and ends(n.get("ctor", ""), SOME) and "entry::EntrySealed" in n.get("ty", "")
    sites = pc.site_conditions(fn["body"], is_sink)
    ctx.floor(R, "sites producing Some(conflict entry)", len(sites), 1)
    binds = pc.collect_binds(fn["body"])
    cidp = [f"p{i}" for i, p in enumerate(fn["params"]) if p.get("ty", "").replace("&", "").strip().endswith("repl::cid::Cid")]
    for i, (site, conds) in enumerate(sites):
        lits = pc.implied(conds, binds)
        ok = False
        for (pol, leaf) in lits.values():
            if not pol or leaf[1] != "expr":
                continue
            e = unwrap(leaf[2])
            if e.get("e") == "bin" and e["op"] == "==" and all(unwrap(x).get("e") == "field" and unwrap(x)["f"] == "s_uuid" for x in (e["l"], e["r"])):
                labs = [P.labels(e["l"], args=False), P.labels(e["r"], args=False)]
                if {B} in labs and any(l and l <= set(cidp) for l in labs):
                    ok = True
        ent = M.entry_struct_fields(P, site["args"][0])
        src_ok = False
        if ent is not None:
            # the conflict entry is re-assembled from a destructured `Entry{..}` built from the db entry
            le, la = P.labels(ent[0], args=False), P.labels(ent[1], args=False)
            src_ok = A not in le and A not in la and B in le and B in la
        ctx.check(ok, R, fn["fn"], f"origin-only:site{i if len(sites) > 1 else ''}", "conflict entry only when db entry's origin server == this server",
                  "a conflict entry is materialised without the guard `db_entry.at.s_uuid == cid.s_uuid`: every replica would create its own conflict entry (with a random uuid) and they never converge; "
                  f"guards found: {[x for x in pc.render(lits) if 'tracing' not in x and 'log' not in x][:6]}",
                  file=fn["file"], line=site.get("line"))
        ctx.check(src_ok, R, fn["fn"], f"conflict-from-loser:site{i if len(sites) > 1 else ''}", "conflict entry is built from the db entry (the loser)",
                  "the conflict entry is not assembled from the database entry's change state and attributes (the entry that lost): the losing data would be dropped or the winner duplicated",
                  file=fn["file"], line=site.get("line"))
    # is_add_conflict: (Live, Live) => creation ids differ
    fc = ctx.fn(LIB, M.IS_CONFLICT)
    Pc = Prov(fc)
    sdc = set_sides(ctx, R, fc)
    if sdc is None:
        return
    ms = M.find_tuple_match(fc["body"], M.is_state_pair)
    if ctx.check(len(ms) == 1, R, fc["fn"], "state-table-found", "match over (State, State)", f"expected one match over (State, State), found {len(ms)} (shape not understood)",
                 file=fc["file"], line=fc["line"]):
        a = M.select_arm(ms[0], (LIVE, LIVE))
        ok = False
        if a is not None:
            e = unwrap(a["body"])
            neg = False
            while e.get("e") == "un" and e.get("op") == "Not":
                e, neg = unwrap(e["x"]), not neg
            c = M.cmp_between(Pc, e, sdc[0], sdc[1])
            ok = c is not None and ((c[0] == "!=" and not neg) or (c[0] == "==" and neg))
        ctx.check(ok, R, fc["fn"], "live-live:ids-differ", "(Live, Live) ⇒ creation ids differ",
                  "is_add_conflict's (Live, Live) row is not `at_incoming != at_db`: independently created entries would be merged attribute by attribute (or identical ones split)",
                  file=fc["file"], line=(a or {}).get("body", {}).get("line"))


# ---------------------------------------------------------------------------
# every attribute change id is transmitted, also for attributes that have no live value: the "removed at cid X" marker is
# what lets a replica that joined later reject an older concurrent write. The encoders may skip an attribute because it is not
# replicated or (incremental) because its cid is outside the requested range — never because of what the entry holds.
# (added after seeded change C08: the refresh encoder skipped attributes without a live value)

def attr_states_complete(ctx):
    R = "K5-attr-change-state-complete"
    F = ctx.facts
    names = F.find_fns(LIB, r"^kanidmd_lib::repl::proto::Repl(Incremental)?EntryV1::new$")
    ctx.floor(R, "replication entry encoders", len(names), 2)
    for name in sorted(names):
        f = ctx.fn(LIB, name)
        # the local holding the entry's live attribute map
        live = set()
        for n in walk(f["body"]):
            if n.get("s") == "let" and "init" in n and n["pat"].get("p") == "bind":
                if any(c.get("e") == "mcall" and c.get("name") == "get_ava" for c in walk(n["init"], into_closures=False)):
                    live.add(n["pat"]["local"])
        fms = [c for c in walk(f["body"]) if c.get("e") == "mcall" and c.get("name") in ("filter_map", "filter", "map")
               and any(x.get("e") == "path" and x["res"].get("name") == "changes" or (x.get("e") == "mcall" and x.get("name") == "iter") for x in walk(c["recv"]))
               and "ReplAttrStateV1" in str(c.get("ty", "")) + str(f["body"])[:0]]
        enc = [c for c in walk(f["body"]) if c.get("e") == "mcall" and c.get("name") == "filter_map"
               and any(unwrap(a).get("e") == "closure" and constructs(unwrap(a)["body"], "repl::proto::ReplAttrStateV1") for a in c["args"])]
        if not ctx.check(len(enc) >= 1 and bool(live), R, name, "encoder-closure-found", "changes.iter().filter_map(|(attr, cid)| ..ReplAttrStateV1..)",
                         "the per-attribute encoder closure (or the entry's live attribute map) was not found (shape not understood)", file=f["file"], line=f["line"]):
            continue
        for c in enc:
            clo = [unwrap(a) for a in c["args"] if unwrap(a).get("e") == "closure"][0]
            # (1) adapters between `changes` and the encoder may only test is_replicated
            r = unwrap(c["recv"])
            while r.get("e") == "mcall":
                if r.get("name") in ("filter", "filter_map", "skip", "take", "skip_while", "take_while", "step_by"):
                    toks = tokens({"a": r.get("args", [])})
                    okf = has_token(toks, "call", "is_replicated") and not any(
                        x.get("e") == "path" and x["res"].get("local") in live for x in walk({"a": r.get("args", [])}))
                    ctx.check(okf, R, name, f"adapter:{r['name']}", "only `is_replicated` filters the change list",
                              f"{short(name)} drops attribute change ids with `.{r['name']}(..)` on a criterion other than schema.is_replicated — a change the "
                              "supplier's RUV already covers is then never transmitted", file=f["file"], line=r.get("line"))
                r = unwrap(r["recv"])
            # (2) inside the closure: the decision to emit nothing for an attribute never looks at the entry's values
            bad = []

            def scan(node, conds):
                if isinstance(node, list):
                    for x in node:
                        scan(x, conds)
                    return
                if not isinstance(node, dict):
                    return
                k = node.get("e")
                if k == "closure" and node is not clo:
                    return                      # nested closures compute the attribute VALUE (and_then(|vs| ..)), not the item
                if k == "match" and "TryDesugar" in node.get("src", ""):
                    inner = pc.try_inner(node)
                    if any(x.get("e") == "path" and x["res"].get("local") in live for x in walk(inner)):
                        bad.append(("?", node.get("line")))
                    scan(inner, conds)
                    return
                if k == "if":
                    scan(node["cond"], conds)
                    scan(node["then"], conds + [node["cond"]])
                    if "else" in node:
                        scan(node["else"], conds + [node["cond"]])
                    return
                if k == "match":
                    scan(node["scrut"], conds)
                    for a in node["arms"]:
                        scan(a["body"], conds + [node["scrut"]])
                    return
                if k == "path" and node["res"].get("def", "").endswith("core::option::Option::None"):
                    for cnd in conds:
                        if any(x.get("e") == "path" and x["res"].get("local") in live for x in walk(cnd)):
                            bad.append(("None", node.get("line")))
                    return
                for key, v in node.items():
                    if key in ("line", "exp"):
                        continue
                    if isinstance(v, (dict, list)):
                        scan(v, conds)
            scan(clo["body"], [])
            ctx.check(not bad, R, name, "skip-independent-of-entry-values", "attributes are skipped only for schema / range reasons",
                      f"{short(name)} emits nothing for an attribute depending on the entry's live values ({bad[:3]}): an attribute that was purged (or whose "
                      "value set is empty) is sent without its change id, so a replica built from this message has no 'removed at cid' marker and accepts an "
                      "older concurrent write that every other replica rejects — the replicas diverge permanently", file=f["file"], line=bad[0][1] if bad else None)
