"""C10 Replication range comparison decides supply, refresh or refusal correctly — complete (K7 + K5).

Decided (DESIGN.md C10, appendix E.4):
 (a) call site: in supplier_provide_changes the two arguments of range_diff are attributed by provenance —
     one derives only from the request parameter (consumer), the other only from self's RUV (supplier);
     the parameter positions found there are the ones bound below (no local / parameter *name* is used);
 (b) structure: range_diff iterates over the supplier's servers; one iteration reads only that server's two
     windows and writes only `flag = true` and `map.insert(this server, ..)`; the code after the loop only moves
     the maps into the result. Hence the result for any number of servers is determined by the per-server
     effects and the flag combination;
 (c) rows: the extracted body is *evaluated* (HIR interpreter in rules/lib/x_rangediff.py; no kanidm code runs)
     for every assignment of a 5-point time domain to (c.min ≤ c.max, s.min ≤ s.max) — this covers every weak
     ordering of the four bounds, also relative to Duration::ZERO — and for "consumer does not know the server";
     the returned RangeDiffStatus (variant, payload maps, inserted bounds) must equal the specification table;
 (d) combination: every pair of per-server classes {lag, adv, supply, nothing, unknown}² (all windows of a
     3-point domain, both key orders) and the no-overlap inputs; thorough tier: every triple;
 (e) K5: supplier_provide_changes maps Ok→continue, Refresh→RefreshRequired, Unwilling|Critical|NoRUVOverlap→UnwillingToSupply.
Trusted: rustc's HIR, the evaluator, the specification function `spec` in x_rangediff.py.
"""
import itertools

from .lib.hir import *
from .lib import x_rangediff as X
from .lib.x_prov import Prov, pat_binds, find_loop, loop_parts

META = dict(
    technique="finite-domain evaluation of the decision template extracted from type-checked HIR (K7) + status-map agreement (K5)",
    level_text="Complete finite argument: the if-chain of range_diff is extracted from the compiler's HIR and evaluated over every weak ordering of the "
               "four window bounds (min ≤ max) and the unknown-server case, and over every combination of per-server classes; each row equals the "
               "specification table; per-server independence of the loop body is checked structurally, so the rows cover any number of servers. "
               "The status→context mapping of supplier_provide_changes is checked variant by variant. The hand-written tests cover eight cases.",
    level_note="Decides the whole property for windows with min ≤ max (the invariant of ReplCidRange). The contents of the diagnostic lag/adv ranges are only "
               "checked to be delimited by the two bounds of the gap (orientation not decided). Trusted: rustc name resolution / types, the 150-line HIR evaluator, the spec function.",
)
LEVEL = "proof"
LIB = "kanidmd_lib"
NAMES = ("c.min", "c.max", "s.min", "s.max")


def _fmt(res):
    name, fields = res
    def m(d):
        return "{" + ",".join(f"{k}:{sorted(v) if isinstance(v, frozenset) else list(v)}" for k, v in sorted(d.items())) + "}"
    return name + "(" + ",".join(f"{f}={m(d)}" for f, d in sorted(fields.items())) + ")"


def check_structure(ctx, fn, ci, si):
    R = "K7-structure"
    P = Prov(fn)
    loops = find_loop(fn)
    if not ctx.check(len(loops) == 1, R, fn["fn"], "single-loop", "one for-loop", f"expected one for-loop in range_diff, found {len(loops)} (shape not understood)",
                     file=fn["file"], line=fn["line"]):
        return False
    loop = loops[0]
    it, pat, body = loop_parts(loop)
    if not ctx.check(body is not None and pat.get("p") == "tuple" and len(pat["pats"]) == 2, R, fn["fn"], "loop-shape",
                     "for (key, window) in <map>", "for-loop desugaring / item pattern not recognised (shape not understood)", file=fn["file"], line=loop.get("line")):
        return False
    labs = P.labels(it)
    over_supplier = ctx.check(labs == {f"p{si}"}, R, fn["fn"], "loop-over-supplier",
              "the loop enumerates the supplier's servers",
              f"the per-server loop iterates over something derived from {sorted(labs)}, not from the supplier's map (parameter {si}): "
              "servers the consumer has never seen would not be supplied",
              file=fn["file"], line=loop.get("line"))
    key_locals = {l for l, _ in pat_binds(pat["pats"][0])}
    inside = {l for n in walk(body) for l, _ in (pat_binds(n) if "p" in n else [])} | {l for l, _ in pat_binds(pat)}
    ok = True
    # contexts in which an outer (accumulator) local may appear inside the loop body
    allowed = set()
    for n in walk(body):
        if n.get("e") == "assign":
            l = unwrap(n["l"])
            r = unwrap(n["r"])
            if l.get("e") == "path" and "local" in l["res"] and r.get("e") == "lit" and r.get("lk") == "bool" and r.get("v") == "true":
                allowed.add(id(l))
        if n.get("e") == "mcall" and n.get("name") == "insert" and any("BTreeMap" in c for c in callee_any(n)) and len(n["args"]) == 2:
            k = unwrap(n["args"][0])
            if k.get("e") == "path" and k["res"].get("local") in key_locals:
                allowed.add(id(unwrap(n["recv"])))
    bad = []
    noise = set()       # logging / assertion macros may mention anything
    for n in walk(body):
        if n.get("exp") and X.is_macro_noise(n):
            noise |= {id(x) for x in walk(n)}
    for n in walk(body):
        if id(n) in noise:
            continue
        if n.get("e") == "path" and "local" in n["res"]:
            lid = n["res"]["local"]
            if lid in P.param_of or lid in inside or lid in key_locals:
                continue
            if id(n) not in allowed:
                bad.append((n["res"].get("name", "?"), n.get("line")))
        if n.get("e") in ("ret", "break", "continue") and not n.get("exp"):
            bad.append((n["e"], n.get("line")))
    ctx.check(not bad, R, fn["fn"], "iteration-independent",
              "an iteration only sets flags to true and inserts under its own server key",
              f"the loop body reads or changes accumulated state other than `flag = true` / `map.insert(this server, ..)`: {bad[:4]} — "
              "the per-server rows no longer determine the result for several servers (shape not understood)",
              file=fn["file"], line=loop.get("line"))
    # after the loop: maps are only moved
    after = []
    seen = False
    top = unwrap(fn["body"])
    blk = top["b"] if top.get("e") == "blockexpr" else None
    if blk is not None:
        for s in blk["stmts"]:
            x = s.get("x") if s.get("s") == "expr" else s.get("init")
            if isinstance(x, dict) and any(n is loop for n in walk(x)):
                seen = True
                continue
            if seen and x is not None:
                after.append(x)
        if "tail" in blk:
            after.append(blk["tail"])
    ctx.check(seen, R, fn["fn"], "loop-at-top-level", "loop is a top-level statement", "the per-server loop is not a top-level statement of range_diff (shape not understood)",
              file=fn["file"], line=loop.get("line"))
    used = [(ex_s(n)[:60], n.get("line")) for x in after for n in walk(x)
            if n.get("e") == "mcall" and not n.get("exp") and "BTreeMap" in n.get("recv_ty", "")]
    ctx.check(not used, R, fn["fn"], "post-loop-moves-only", "after the loop the maps are only moved into the result",
              f"code after the loop inspects a result map ({used[:3]}); the (lagging, advanced) table no longer determines the result (shape not understood)",
              file=fn["file"], line=fn["line"])
    return over_supplier


def run(ctx):
    F = ctx.facts
    ctx.explanation = ("range_diff's per-server if-chain is extracted from HIR and evaluated over every weak ordering of the four bounds and the unknown-server case; "
                       "class combinations, the NoRUVOverlap return and the status mapping of supplier_provide_changes are compared with the specification table row by row. "
                       "Sides are identified by provenance at the call site. Nothing of kanidm executes.")
    fn = ctx.fn(LIB, X.RANGE_DIFF)
    sp = ctx.fn1(LIB, X.SUPPLY)
    roles = X.call_site_roles(ctx, "K7-callsite", sp)
    if roles is None:
        return
    ci, si, call, P = roles
    if not ctx.check(len(fn["params"]) == 2, "K7-callsite", fn["fn"], "two-parameters", "range_diff(a, b)", "range_diff no longer takes two maps (shape not understood)",
                     file=fn["file"], line=fn["line"]):
        return
    if not check_structure(ctx, fn, ci, si):
        # the sides bound at the call site do not match the roles inside range_diff: every row would disagree for that one reason
        ctx.notes.append("rows not evaluated: structure check failed (sides at the call site and inside range_diff disagree, or shape not understood)")
        return

    def evaluate(consumer, supplier):
        try:
            return X.run_range_diff(fn, ci, si, consumer, supplier), None
        except X.Unsupported as e:
            return None, str(e)

    # probe once: an unsupported shape is reported once, not per row
    got, err = evaluate({"A": (1, 2)}, {"A": (1, 3)})
    if not ctx.check(err is None, "K7-rows", fn["fn"], "template-extracted", "decision template evaluated",
                     f"range_diff's body uses a construct the evaluator does not understand: {err} (shape not understood — fail closed)", file=fn["file"], line=fn["line"]):
        return

    # ---- (c) per-server rows ------------------------------------------------
    dom = range(0, 5)
    rows = {}
    n_eval = 0
    bad_pairs = set()      # windows whose single-server row already disagrees: excluded from the combination rows (reported once, above)
    for c in X.windows(dom):
        for s in X.windows(dom):
            key = "row:known:" + X.ordering_key((c[0], c[1], s[0], s[1]), NAMES)
            cons, supp = {"A": c}, {"A": s}
            got, err = evaluate(cons, supp)
            exp = X.spec(cons, supp)
            n_eval += 1
            r = rows.setdefault(key, [X.classify(c, s), []])
            if err or got != exp:
                r[1].append((c, s, err or _fmt(got), _fmt(exp)))
                bad_pairs.add((c, s))
    anchors = [a for a in ((2, 2), (0, 4), (1, 3)) if (a, a) not in bad_pairs] or [(2, 2)]
    for s in X.windows(dom):
        for anchor in anchors:
            for extra in ({}, {"Z": (1, 3)}):
                key = "row:unknown:" + X.ordering_key(s, NAMES[2:])
                cons = dict({"B": anchor}, **extra)
                supp = {"A": s, "B": anchor}
                got, err = evaluate(cons, supp)
                exp = X.spec(cons, supp)
                n_eval += 1
                r = rows.setdefault(key, ["unknown", []])
                if err or got != exp:
                    r[1].append((None, s, err or _fmt(got), _fmt(exp)))
    for key in sorted(rows):
        cls, bad = rows[key]
        detail = ""
        if bad:
            c, s, g, e = bad[0]
            detail = (f"for consumer window {c} / supplier window {s} the extracted code yields {g} but the specification row ({cls}) demands {e} "
                      f"({len(bad)} assignment(s) of this ordering disagree) — the supplier would supply / refuse / demand a refresh wrongly")
        ctx.check(not bad, "K7-rows", fn["fn"], key, f"{cls}", detail, file=fn["file"], line=fn["line"])
    ctx.floor("K7-rows", "weak orderings of (c.min≤c.max, s.min≤s.max) evaluated", sum(1 for k in rows if k.startswith("row:known:")), 20)
    ctx.sample("range_diff rows: " + "; ".join(f"{k[10:]} ⇒ {rows[k][0]}" for k in sorted(rows)[:6]))

    # ---- no overlap ------------------------------------------------------------
    for name, cons, supp in (("no-overlap:disjoint-servers", {"Z": (1, 2)}, {"A": (1, 2)}),
                             ("no-overlap:empty-consumer", {}, {"A": (1, 2), "B": (0, 3)}),
                             ("no-overlap:both-empty", {}, {}),
                             ("no-overlap:empty-supplier", {"Z": (1, 2)}, {})):
        got, err = evaluate(cons, supp)
        exp = X.spec(cons, supp)
        n_eval += 1
        ctx.check(err is None and got == exp, "K7-rows", fn["fn"], name, _fmt(exp),
                  f"consumer {cons} / supplier {supp}: extracted code yields {err or _fmt(got)}, specification demands {_fmt(exp)} (two replicas sharing no server must be refused)",
                  file=fn["file"], line=fn["line"])

    # ---- (d) combinations ------------------------------------------------------
    def combos(nserv, dom2):
        per = [(c, s) for s in X.windows(dom2) for c in X.windows(dom2) + [None]]
        res = {}
        cnt = 0
        for tup in itertools.product(per, repeat=nserv):
            key = "combo:" + "+".join(X.classify(c, s) for c, s in tup)
            r = res.setdefault(key, [])
            if any((c, s) in bad_pairs for c, s in tup):
                continue
            cons, supp = {}, {}
            for i, (c, s) in enumerate(tup):
                k = "ABC"[i]
                supp[k] = s
                if c is not None:
                    cons[k] = c
            got, err = evaluate(cons, supp)
            exp = X.spec(cons, supp)
            cnt += 1
            if err or got != exp:
                r.append((cons, supp, err or _fmt(got), _fmt(exp)))
        return res, cnt

    res, cnt = combos(2, range(0, 3))
    n_eval += cnt
    ctx.floor("K7-combine", "class pairs evaluated", len(res), 25)
    for key in sorted(res):
        bad = res[key]
        detail = ""
        if bad:
            cons, supp, g, e = bad[0]
            detail = f"consumer {cons} / supplier {supp}: extracted code yields {g}, the (lagging, advanced) table demands {e} ({len(bad)} inputs disagree)"
        ctx.check(not bad, "K7-combine", fn["fn"], key, "agrees with the (lagging, advanced) table", detail, file=fn["file"], line=fn["line"])
    if ctx.tier == "thorough":
        res3, cnt = combos(3, range(0, 2))
        n_eval += cnt
        for key in sorted(res3):
            bad = res3[key]
            detail = ""
            if bad:
                cons, supp, g, e = bad[0]
                detail = f"consumer {cons} / supplier {supp}: extracted code yields {g}, specification demands {e} ({len(bad)} inputs disagree)"
            ctx.check(not bad, "K7-combine", fn["fn"], key.replace("combo:", "combo3:"), "three servers agree", detail, file=fn["file"], line=fn["line"])
    ctx.extra["evaluations"] = n_eval
    ctx.exhaustive = True

    # ---- (e) status mapping ------------------------------------------------------
    mp = X.status_mapping(ctx, "K5-status-map", sp, call, P, F.items(LIB))
    if mp is None:
        return
    mapping, lines, variants = mp
    EXPECT = {"Ok": {"continue"}, "Refresh": {"RefreshRequired"}, "Unwilling": {"UnwillingToSupply"},
              "Critical": {"UnwillingToSupply"}, "NoRUVOverlap": {"UnwillingToSupply"}}
    REFUSALS = {"UnwillingToSupply", "RefreshRequired"}
    for v in variants:
        got = mapping.get(v)
        want = EXPECT.get(v)
        if want is None:
            # a status this rule does not know: it must at least refuse (never fall through to supplying changes)
            ok = got in REFUSALS
            why = f"new RangeDiffStatus::{v} must end in a refusal ({sorted(REFUSALS)}), found {got}"
        else:
            ok = got in want
            why = (f"RangeDiffStatus::{v} is answered with {got}, expected {sorted(want)} — "
                   + ("a consumer that is behind the changelog window would not be told to refresh" if v == "Refresh" else
                      "changes would be supplied / withheld against the decision of range_diff"))
        ctx.check(ok, "K5-status-map", sp["fn"], f"map:{v}", f"{v} → {got}", why, file=sp["file"], line=lines.get(v))
    ctx.sample("status map: " + ", ".join(f"{v}→{mapping.get(v)}" for v in variants))
