"""C09 Deleted entries are never resurrected by replication — clause (K4 + K3 + shared K7/K5 of C10).

Decided:
 (a) Entry::merge_state, the (State, State) table: every row with a Tombstone on either side yields an entry whose
     change state is taken *whole* from a tombstone side (never built, never from the live side) and whose attributes
     do not come from the live side; (Tombstone, Tombstone) takes the side with the smaller `at`;
 (b) is_add_conflict is false whenever either side is a tombstone (a tombstone always merges, never becomes a conflict copy);
 (c) EntryChangeState::can_delete is false for Live and an `at < cid` test for Tombstone;
     BackendWriteTransaction::reap_tombstones deletes (delete_identry) only ids collected from the partition side on which
     `can_delete(trim_cid)` holds (same trim point as trim_up_to), and returns Err before deleting when a surviving entry is
     neither live nor referenced by the RUV;
 (d) a consumer that lags behind a supplier window is answered Refresh / Critical by range_diff (evaluated template, see C10)
     and those map to RefreshRequired / a refusal in supplier_provide_changes — never to supplying changes.
Not decided: timing of purge / trim against replication delay; that every replica trims with a compatible window.
"""
from .lib.hir import *
from .lib import pathcond as pc
from .lib.x_prov import Prov, tails, pat_binds
from .lib import x_merge as M
from .lib import x_rangediff as X

META = dict(
    technique="decision-table extraction with side provenance (K4), path conditions of the delete sink (K3), evaluated range_diff template for lagging consumers (K7/K5)",
    level_text="Exhaustive structural check: all rows of merge_state's (State, State) table with a tombstone keep a tombstone taken from a tombstone side "
               "(earliest deletion wins), tombstones never become add-conflicts, reap_tombstones deletes only entries past the trim point and fails on orphaned "
               "survivors, and every lagging window ordering is answered with a refresh demand. Necessary clauses of non-resurrection; tests cover one tombstone/modify race.",
    level_note="Decides the named structural clauses only; purge/trim timing against arbitrary replication delays and changelog-window agreement between replicas are NOT decided. "
               "Trusted: rustc's HIR and types, the provenance tracer, the K3 engine, the range_diff evaluator (C10).",
)
LIB = "kanidmd_lib"
LIVE = M.STATE + "::Live"
TOMB = M.STATE + "::Tombstone"
REAP = "kanidmd_lib::be::BackendWriteTransaction::<'a>::reap_tombstones"
CAN_DELETE = "kanidmd_lib::repl::entry::EntryChangeState::can_delete"


def run(ctx):
    ctx.explanation = ("merge_state's tombstone rows keep a tombstone from a tombstone side (earliest `at`), is_add_conflict is false for tombstones, "
                       "reap_tombstones deletes only can_delete(trim_cid) entries and errors on orphaned survivors, lagging consumers get RefreshRequired. "
                       "Structural clauses; purge timing is not decided.")
    state_table(ctx)
    conflict_table(ctx)
    can_delete(ctx)
    reap(ctx)
    lagging(ctx)
    no_incoming_entry_dropped(ctx)


def state_table(ctx):
    R = "K4-state-table"
    fn = ctx.fn(LIB, M.MERGE)
    P = Prov(fn)
    sd = M.entry_sides(fn)
    ms = M.find_tuple_match(fn["body"], M.is_state_pair)
    if not ctx.check(sd is not None and len(ms) == 1, R, fn["fn"], "state-table-found", "match over (incoming State, db State)",
                     f"expected one `match (State, State)` over the two entries' change states in merge_state, found {len(ms)} (shape not understood)",
                     file=fn["file"], line=fn["line"]):
        return
    A, B = sd
    nm = {A: "incoming", B: "db"}
    m = ms[0]
    sides = M.sides_of_scrut(P, m)
    if not ctx.check(sides in ([{A}, {B}], [{B}, {A}]), R, fn["fn"], "table-sides", "scrutinee = (incoming state, db state)",
                     f"scrutinee components derive from {[sorted(s) for s in sides]} (shape not understood)", file=fn["file"], line=m.get("line")):
        return
    pos = [next(iter(s)) for s in sides]
    n_rows = 0
    for ra in (LIVE, TOMB):
        for rb in (LIVE, TOMB):
            key = f"{short(ra,1)},{short(rb,1)}"
            guards = []
            # a tombstone row must be decided by the two states alone: a guarded arm is reported and then skipped, so that the
            # arm the row falls through to is judged as well
            arm = M.select_arm(m, (ra, rb), (lambda g: guards.append(g) or False) if TOMB in (ra, rb) else None)
            if guards:
                ctx.violation(R, fn["fn"], f"row:{key}:unconditional",
                              f"(State, State) row ({key}) is decided under a guard (`{ex_s(guards[0])[:80]}`): whether the tombstone wins depends on more than the two "
                              "states — a tombstone must beat every live state of the same uuid, otherwise a deleted entry stays live on one replica",
                              file=fn["file"], line=guards[0].get("line"))
            if not ctx.check(arm is not None, R, fn["fn"], f"row:{key}:covered", "row covered", "no arm accepts this row (shape not understood)", file=fn["file"], line=m.get("line")):
                continue
            if TOMB not in (ra, rb):
                continue
            n_rows += 1
            tomb = {pos[i] for i, v in enumerate((ra, rb)) if v == TOMB}
            live = {pos[i] for i, v in enumerate((ra, rb)) if v == LIVE}
            problems = []
            ts = tails(arm["body"])
            if not ts:
                problems.append("arm yields no value")
            for t in ts:
                ent = M.entry_struct_fields(P, t)
                if ent is None:
                    problems.append("result is not an `Entry { valid: { ecstate, .. }, attrs, .. }` literal (shape not understood)")
                    continue
                ec, at, _ = ent
                le = P.labels(ec, args=False)
                if not le or not le <= tomb:
                    problems.append(f"change state comes from {sorted(nm.get(x, x) for x in le) or 'a fresh value'}, expected from the tombstone side {sorted(nm[x] for x in tomb)}")
                la = P.labels(at, args=False)
                if la & live:
                    problems.append(f"attributes come from the live {sorted(nm[x] for x in la & live)} entry")
            toks = tokens(arm["body"])
            if has_token(toks, "def", "repl::entry::State::Live") or has_token(toks, "call", "EntryChangeState::build", "EntryChangeState::new", "EntryChangeState::new_without_schema"):
                problems.append("a change state is constructed (State::Live / EntryChangeState::build) inside a tombstone row")
            for n in walk(arm["body"]):
                if n.get("e") == "field" and n["f"] == "attrs" and not n.get("exp") and P.labels(n["x"], args=False) & live:
                    problems.append("reads the live side's attributes")
            ctx.check(not problems, R, fn["fn"], f"row:{key}", f"tombstone from {sorted(nm[x] for x in tomb)} retained",
                      f"(State, State) row ({key}; left={nm[pos[0]]}): " + "; ".join(sorted(set(problems))) + " — a deleted entry would become live again (or keep live data) after replication",
                      file=fn["file"], line=arm["body"].get("line"))
            if ra == TOMB and rb == TOMB:
                tests = []
                for n in walk(arm["body"], into_closures=False):
                    if n.get("e") == "if" and "else" in n and not n.get("exp"):
                        c = M.cmp_between(P, n["cond"], A, B)
                        if c and c[0] in ("<", "<=", ">", ">="):
                            tests.append((n, c))
                if not ctx.check(len(tests) == 1, R, fn["fn"], "row:Tombstone,Tombstone:order-test", "one if/else comparing the two deletion ids",
                                 f"expected one `if at_incoming <op> at_db` choosing the tombstone to keep, found {len(tests)} (shape not understood)",
                                 file=fn["file"], line=arm["body"].get("line")):
                    continue
                ifn, c = tests[0]
                bad = []
                for when, br in ((True, ifn["then"]), (False, ifn["else"])):
                    smaller = {A: B, B: A}[M.greater_side(c, when)]
                    labs = set()
                    for t in tails(br):
                        labs |= P.labels(t, args=False)
                    if labs != {smaller}:
                        bad.append(f"when the {nm[smaller]} deletion is earlier the branch takes {sorted(nm.get(x, x) for x in labs)}")
                inside = {id(n) for n in walk(ifn)}
                uses = bool(ts)
                for t in ts:
                    e = M.entry_struct_fields(P, t)
                    if e is None:
                        uses = False
                        continue
                    lid = P.local_of(e[0])
                    srcs = P.sources(lid) if lid is not None else [unwrap(e[0])]
                    if not srcs or not all(id(unwrap(x)) in inside or id(x) in inside for x in srcs):
                        uses = False
                if not uses:
                    bad.append("the result's change state is not the one chosen by the order test")
                ctx.check(not bad, R, fn["fn"], "row:Tombstone,Tombstone:earliest-wins", "the tombstone with the smaller `at` is kept",
                          "; ".join(bad) + " — replicas would disagree on the deletion time and trim the tombstone at different moments", file=fn["file"], line=ifn.get("line"))
    ctx.floor(R, "tombstone rows evaluated", n_rows, 3)


def conflict_table(ctx):
    R = "K4-conflict-table"
    fn = ctx.fn(LIB, M.IS_CONFLICT)
    ms = M.find_tuple_match(fn["body"], M.is_state_pair)
    if not ctx.check(len(ms) == 1, R, fn["fn"], "state-table-found", "match over (State, State)", f"expected one match over (State, State) in is_add_conflict, found {len(ms)} (shape not understood)",
                     file=fn["file"], line=fn["line"]):
        return
    n = 0
    for ra in (LIVE, TOMB):
        for rb in (LIVE, TOMB):
            if TOMB not in (ra, rb):
                continue
            key = f"{short(ra,1)},{short(rb,1)}"
            arm = M.select_arm(ms[0], (ra, rb))
            ok = False
            if arm is not None:
                ts = tails(arm["body"])
                ok = bool(ts) and all(t.get("e") == "lit" and t.get("lk") == "bool" and t.get("v") == "false" for t in ts)
            n += 1
            ctx.check(ok, R, fn["fn"], f"row:{key}", "false (tombstones merge, never conflict)",
                      f"is_add_conflict is not constantly false for ({key}): a tombstone would be treated as a creation conflict and the live copy kept (resolve_add_conflict has no tombstone arm)",
                      file=fn["file"], line=(arm or {}).get("body", {}).get("line"))
    ctx.floor(R, "tombstone rows", n, 3)


def can_delete(ctx):
    R = "K4-can-delete"
    fn = ctx.fn(LIB, CAN_DELETE)
    P = Prov(fn)
    ms = [n for n in walk(fn["body"]) if n.get("e") == "match" and n.get("src") == "Normal" and n.get("scrut_ty", "").replace("&", "").strip().endswith("repl::entry::State")]
    if not ctx.check(len(ms) == 1, R, fn["fn"], "table-found", "match over State", f"expected one match over State in can_delete, found {len(ms)} (shape not understood)",
                     file=fn["file"], line=fn["line"]):
        return
    m = ms[0]

    def arm_for(v):
        for a in m["arms"]:
            if M.pat_accepts(a["pat"], v) and "guard" not in a:
                return a
        return None
    a = arm_for(LIVE)
    ts = tails(a["body"]) if a else []
    ctx.check(bool(ts) and all(t.get("e") == "lit" and t.get("v") == "false" for t in ts), R, fn["fn"], "row:Live", "Live ⇒ false",
              "can_delete is not constantly false for a Live entry: reap_tombstones would delete live entries", file=fn["file"], line=fn["line"])
    a = arm_for(TOMB)
    ok = False
    if a:
        ts = tails(a["body"])
        ok = bool(ts)
        for t in ts:
            if not (t.get("e") == "bin" and t["op"] in ("<", "<=", ">", ">=")):
                ok = False
                continue
            l, r = P.labels(t["l"]), P.labels(t["r"])
            # tombstone time (self) strictly/weakly below the trim point (the parameter)
            lo, hi = (l, r) if t["op"] in ("<", "<=") else (r, l)
            if not (lo == {"p0"} and hi == {"p1"}):
                ok = False
    ctx.check(ok, R, fn["fn"], "row:Tombstone", "Tombstone{at} ⇒ at < cid",
              "can_delete's Tombstone row is not `at < cid` (tombstone older than the trim point): tombstones would be reaped while other replicas may still need them, "
              "or never", file=fn["file"], line=fn["line"])


def reap(ctx):
    R = "K3-reap"
    fn = ctx.fn(LIB, REAP)
    P = Prov(fn)
    loc = dict(file=fn["file"], line=fn["line"])
    parts = [n for n in walk(fn["body"]) if n.get("s") == "let" and "init" in n and is_call_to(unwrap(n["init"]), "Iterator::partition")
             and n["pat"].get("p") == "tuple" and len(n["pat"]["pats"]) == 2]
    if not ctx.check(len(parts) == 1, R, fn["fn"], "partition-found", "let (reapable, leftover) = entries.partition(..)",
                     f"expected one `let (a, b) = <iter>.partition(|e| ..)` in reap_tombstones, found {len(parts)} (shape not understood)", **loc):
        return
    part = parts[0]
    yes = {l for l, _ in pat_binds(part["pat"]["pats"][0])}
    no = {l for l, _ in pat_binds(part["pat"]["pats"][1])}
    pcall = unwrap(part["init"])
    cl = unwrap(pcall["args"][0]) if pcall["args"] else {}
    ok = False
    trim_lab = None
    why = "the partition predicate is not a closure"
    if cl.get("e") == "closure":
        ts = tails(cl["body"])
        why = ""
        ok = bool(ts)
        for t in ts:
            if not (t.get("e") == "mcall" and ends(callee_of(t), "EntryChangeState::can_delete")):
                ok = False
                why = "the partition predicate is not exactly `e.get_changestate().can_delete(trim)`: " + ex_s(t)[:100]
                continue
            cparams = {l for p in cl.get("params", []) for l, _ in pat_binds(p.get("pat", p))}
            if not (P.local_roots(t["recv"], args=False) & cparams):
                ok = False
                why = "can_delete is not evaluated on the entry being partitioned"
            trim_lab = P.labels(t["args"][0])
    tr = [n for n in walk(fn["body"]) if n.get("e") == "mcall" and ends(callee_of(n), "trim_up_to")]
    tr_lab = P.labels(tr[0]["args"][0]) if len(tr) == 1 else None
    ctx.check(ok, R, fn["fn"], "partition-by-can_delete", "entries are partitioned by can_delete(trim point)", why + " — entries that are not expired tombstones could be deleted", **loc)
    ctx.check(ok and tr_lab is not None and trim_lab == tr_lab and len(tr_lab) == 1 and "p0" not in tr_lab, R, fn["fn"], "same-trim-point",
              "can_delete and trim_up_to use the same trim parameter",
              f"can_delete is tested against a value derived from {sorted(trim_lab or [])} but the RUV is trimmed up to {sorted(tr_lab or [])}: tombstones newer than the trim point could be reaped "
              "(other replicas could still send changes for them and resurrect the entry)", **loc)

    def is_sink(n):
        return n.get("e") == "mcall" and ends(callee_of(n), "delete_identry")
    sites = pc.site_conditions(fn["body"], is_sink)
    ctx.floor(R, "delete_identry sites in reap_tombstones", len(sites), 1)
    binds = pc.collect_binds(fn["body"])
    for i, (site, conds) in enumerate(sites):
        sfx = f":site{i}" if len(sites) > 1 else ""
        roots = P.local_roots(site["args"][0]) if site["args"] else set()
        ctx.check(bool(roots & yes) and not (roots & no), R, fn["fn"], "deletes-only-can_delete-side" + sfx,
                  "deleted ids come from the can_delete side of the partition only",
                  "the ids passed to delete_identry do not derive (only) from the partition side on which can_delete(trim) holds: live entries or young tombstones would be deleted",
                  file=fn["file"], line=site.get("line"))
        lits = pc.implied(conds, binds)
        guard = None
        for (pol, leaf) in lits.values():
            if not pol or leaf[1] != "expr":
                continue
            e = unwrap(leaf[2])
            if e.get("e") == "mcall" and e.get("name") == "all" and (P.local_roots(e["recv"], args=False) & no):
                t = tokens(e)
                if has_token(t, "call", "EntryChangeState::is_live") and has_token(t, "call", "IDLBitRange::contains"):
                    guard = e
        ctx.check(guard is not None, R, fn["fn"], "survivors-live-or-in-ruv" + sfx,
                  "deletion only after every leftover entry was found live or present in the RUV",
                  "delete_identry is reachable without the guard `leftover.all(|e| e.is_live() || ruv_idls.contains(e.id))`: tombstones that lost their RUV anchor would stay for ever "
                  f"(or be deleted unchecked); guards found: {[x for x in pc.render(lits) if 'tracing' not in x][:6]}", file=fn["file"], line=site.get("line"))
        if guard is not None:
            errs = False
            for n in walk(fn["body"]):
                if n.get("e") == "if" and any(x is guard for x in walk(n["cond"])):
                    errs = any(r.get("e") == "ret" and constructs(r, "core::result::Result::Err") for r in walk(n["then"], into_closures=False))
            ctx.check(errs, R, fn["fn"], "survivors-error" + sfx, "orphaned survivors make reap_tombstones return Err",
                      "the survivor check does not end in `return Err(..)`: the transaction would commit with orphaned tombstones", file=fn["file"], line=guard.get("line"))


def lagging(ctx):
    R = "K7-lagging-refresh"
    F = ctx.facts
    fn = ctx.fn(LIB, X.RANGE_DIFF)
    sp = ctx.fn1(LIB, X.SUPPLY)
    roles = X.call_site_roles(ctx, R, sp)
    if roles is None:
        return
    ci, si, call, P = roles
    dom = range(0, 4)
    bad = []
    n = 0
    err = None
    variants_seen = set()
    for c in X.windows(dom):
        for s in X.windows(dom):
            if X.classify(c, s) != "lag":
                continue
            for other in (None, ((0, 1), (0, 1)), ((2, 3), (0, 1)), ((0, 1), (0, 2)), (None, (0, 1))):
                cons, supp = {"A": c}, {"A": s}
                if other:
                    supp["B"] = other[1]
                    if other[0]:
                        cons["B"] = other[0]
                try:
                    got = X.run_range_diff(fn, ci, si, cons, supp)
                except X.Unsupported as e:
                    err = str(e)
                    break
                n += 1
                variants_seen.add(got[0])
                if got[0] not in ("Refresh", "Critical") or "A" not in got[1].get("lag_range", {}):
                    bad.append((cons, supp, got[0]))
    if not ctx.check(err is None, R, fn["fn"], "template-extracted", "range_diff evaluated", f"range_diff's body uses a construct the evaluator does not understand: {err} (fail closed)",
                     file=fn["file"], line=fn["line"]):
        return
    ctx.floor(R, "lagging inputs evaluated", n, 50)
    ctx.check(not bad, R, fn["fn"], "lagging-never-ok", f"all {n} lagging inputs yield Refresh/Critical with the lagging server listed",
              f"a consumer whose newest change is older than the supplier's oldest is answered {bad[0][2] if bad else ''} for consumer {bad[0][0] if bad else ''} / supplier {bad[0][1] if bad else ''} "
              f"({len(bad)} inputs): it would be supplied increments across a trimmed gap and could resurrect or miss deletions", file=fn["file"], line=fn["line"])
    mp = X.status_mapping(ctx, R, sp, call, P, F.items(LIB))
    if mp is None:
        return
    mapping, lines, variants = mp
    ctx.check(mapping.get("Refresh") == "RefreshRequired", R, sp["fn"], "map:Refresh", "Refresh → RefreshRequired",
              f"RangeDiffStatus::Refresh is answered with {mapping.get('Refresh')}, expected RefreshRequired: the lagging consumer is not told to refresh", file=sp["file"], line=lines.get("Refresh"))
    ctx.check(mapping.get("Critical") in ("UnwillingToSupply", "RefreshRequired"), R, sp["fn"], "map:Critical", f"Critical → {mapping.get('Critical')}",
              f"RangeDiffStatus::Critical (lagging and advanced) is answered with {mapping.get('Critical')}: changes would be supplied to a lagging consumer", file=sp["file"], line=lines.get("Critical"))


# ---------------------------------------------------------------------------------------------------------------------
# every incoming entry reaches the conflict / merge tables (added after seeded change C09: a `retain` that dropped
# "old" tombstones before the merge while the consumer's RUV was still advanced)

LOSSY = ("filter", "filter_map", "skip", "take", "skip_while", "take_while", "step_by", "nth", "find", "find_map",
         "last", "next", "rev_take", "dedup", "dedup_by", "dedup_by_key", "flat_map", "flatten", "map_while", "scan")
SHRINK = ("retain", "retain_mut", "drain", "truncate", "dedup", "dedup_by", "dedup_by_key", "pop", "remove", "swap_remove",
          "clear", "split_off", "extract_if")


def _chain(e):
    """(root local id | None, [method names from the root outwards]) of a method-call chain expression"""
    names = []
    e = unwrap(e)
    while isinstance(e, dict):
        k = e.get("e")
        if k == "mcall":
            names.append(e.get("name"))
            e = unwrap(e["recv"])
        elif k == "match" and ("TryDesugar" in e.get("src", "")):
            e = unwrap(pc.try_inner(e))
        elif k == "path" and "local" in e["res"]:
            return e["res"]["local"], list(reversed(names))
        else:
            return None, list(reversed(names))
    return None, list(reversed(names))


def no_incoming_entry_dropped(ctx):
    R = "K6-no-incoming-entry-dropped"
    fn = ctx.fn1(LIB, r"^kanidmd_lib::repl::consumer::<impl server::QueryServerWriteTransaction<'_>>::consumer_incremental_apply_entries$")
    body = fn["body"]
    # the rehydrated vector
    reh = None
    for n in walk(body, into_closures=False):
        if n.get("s") == "let" and "init" in n and n["pat"].get("p") == "bind":
            if any(ends(d, "rehydrate") for x in walk(n["init"]) for d in ([def_of(x)] + list(callee_any(x))) if d):
                reh = n
                break
    if not ctx.check(reh is not None, R, fn["fn"], "rehydrated-vector-found", "let <entries> = ..map(rehydrate)..",
                     "the vector of rehydrated incoming entries was not found (shape not understood)", file=fn["file"], line=fn["line"]):
        return
    L = reh["pat"]["local"]
    root, names = _chain(reh["init"])
    param0 = None
    for p in fn["params"]:
        if "Vec<" in p["ty"] and p["pat"].get("p") == "bind":
            param0 = p["pat"]["local"]
    lossy = [m for m in names if m in LOSSY]
    ctx.check(root is not None and root == param0 and not lossy, R, fn["fn"], "rehydrates-every-supplied-entry",
              "every supplied entry is rehydrated",
              f"the rehydrated vector is not built from the whole supplied entry list (root={'param' if root == param0 else root}, lossy adapters {lossy}): "
              "a supplied change would be acknowledged (the RUV is advanced) but never applied", file=fn["file"], line=reh["init"].get("line"))
    # nothing removes elements from it
    bad = []
    for c in all_calls(body):
        if c.get("e") == "mcall" and c.get("name") in SHRINK:
            r, _ = _chain(c["recv"])
            if r == L:
                bad.append((c.get("name"), c.get("line")))
    ctx.check(not bad, R, fn["fn"], "incoming-vector-not-shrunk", "no element is removed from the incoming entries",
              f"incoming replication entries are removed before they are applied ({bad}): the consumer then acknowledges changes — e.g. a tombstone — "
              "that it never merged, and no supplier will send them again; a deleted entry stays live on this replica",
              file=fn["file"], line=bad[0][1] if bad else None)
    # the partition and the merge consume it whole
    part = [c for c in all_calls(body, into_closures=False) if c.get("e") == "mcall" and c.get("name") == "partition"]
    okp = False
    for c in part:
        r, names = _chain(c["recv"])
        if r == L:
            okp = not [m for m in names if m in LOSSY]
            ctx.check(okp, R, fn["fn"], "partition-covers-every-entry", "conflict/proceed partition over every incoming entry",
                      f"the conflict/proceed partition skips incoming entries (adapters {names})", file=fn["file"], line=c.get("line"))
    ctx.check(bool(part) and any(_chain(c["recv"])[0] == L for c in part), R, fn["fn"], "partition-found", "partition over the incoming entries",
              "no partition of the incoming entries into conflicts / entries to merge was found (shape not understood)", file=fn["file"], line=fn["line"])
    for callee, what in (("merge_state", "merged"), ("resolve_add_conflict", "resolved as a uuid conflict")):
        sites = [n for n in walk(body, into_closures=False) if n.get("s") == "let" and "init" in n and calls_in(n["init"], callee)]
        if not ctx.check(len(sites) >= 1, R, fn["fn"], f"site:{callee}", f"{callee} site found", f"no statement calling {callee} found (shape not understood)",
                         file=fn["file"], line=fn["line"]):
            continue
        for st in sites:
            r, names = _chain(st["init"])
            lossy = [m for m in names if m in LOSSY]
            ctx.check(r is not None and not lossy, R, fn["fn"], f"all-{callee}", f"every selected entry is {what}",
                      f"not every entry selected by the partition is {what} (adapters {names})", file=fn["file"], line=st["init"].get("line"))
