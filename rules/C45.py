"""C45 Host login requires membership of an allowed group — K4 boolean template of unix_user_authorise.

Decided (DESIGN.md C45), on type-checked HIR, nothing executes:
 K4-template   every result of every `IdProvider::unix_user_authorise` implementation is `Ok(Some(B))` (or Ok(None) / Err) where
               B is the literal `false`, or a value whose top-level conjuncts (`&&`; the operands of an `||` do not count, so
               `||` instead of `&&` is a violation) together with the guards dominating the return site contain
                 * the membership atom   |user_set ∩ pam_allow_groups| > 0   (forms: n > 0, n != 0, n >= 1, 0 < n) with
                   n = BTreeSet::intersection(..).count() over a set built from the token's groups by *name and uuid*, and
                 * the validity atom     <token parameter>.valid   (not negated).
               Extra conjuncts are accepted (stricter). For an empty allow list the intersection is empty, so B is false;
               the explicit `is_empty() → Some(false)` branch is recorded when present.
 K4-passthrough Resolver::pam_account_allowed returns the provider's answer unchanged for directory users: its results are
               Ok(None), an error, the SystemProvider's answer for a local account, or `unix_user_authorise(..).await.map_err(..)`.
Not decided: that token.groups / token.valid reflect the server's current record (token refresh, C44), the BTreeSet
implementation, PAM's use of the answer (C43).
"""
from .lib.hir import *
from .lib import pathcond as pc
from .lib.x_sinks import (real_root, result_leaves, sites_of, pat_forces, entailed, prov_binds, deep_tokens, deep_nodes,
                          local_id, pat_bound_locals, param_locals, leaf_pat, leaf_scrut, loc)

META = dict(
    technique="static extraction of the authorisation predicate as a boolean template (K4) from type-checked HIR and comparison with the required conjunction",
    level_text="The expression every unix_user_authorise implementation returns is extracted from the compiler's HIR and normalised (locals replaced by their "
               "initialisers): it must be `false`, or a pure conjunction containing `|groups(name ∪ uuid) ∩ allowed| > 0` and `token.valid`. This is the whole decision "
               "for all allow-lists and tokens, which the server-dependent resolver tests cannot sample here.",
    level_note="Decides the shape of the returned predicate (conjunction of membership and validity; empty list ⇒ false) and that Resolver::pam_account_allowed passes it through. "
               "Not decided: freshness of the token's groups/valid flag, std BTreeSet semantics. Trusted: rustc facts, the rule's template.",
)

RES = "sparkle_resolver_common"
SPEC_SOME = ("v", "core::option::Option::Some", {})


def is_dead(lits):
    """async_trait's type-hint `if let Some(__ret) = None::<T> { return __ret }`."""
    for (p, leaf) in lits.values():
        if p and leaf[1] == "let" and pat_forces(leaf_pat(leaf), SPEC_SOME) and def_of(unwrap(leaf_scrut(leaf))) == "core::option::Option::None":
            return True
    return False


def ctor_arg(e, ctor_suffix):
    e = unwrap(e)
    if isinstance(e, dict) and e.get("e") == "call" and ends(e.get("ctor", ""), ctor_suffix) and e.get("args"):
        return unwrap(e["args"][0])
    return None


def subst(e, binds, depth=3):
    """e, or the initialiser of the simple immutable local e names (bounded)."""
    for _ in range(depth):
        lid = local_id(e)
        if lid is not None and lid in binds:
            e = unwrap(binds[lid])
        else:
            break
    return unwrap(e)


def int_lit(e):
    e = unwrap(e)
    if isinstance(e, dict) and e.get("e") == "lit" and str(e.get("v", "")).lstrip("-").isdigit():
        return int(e["v"])
    return None


NEG_OP = {"==": "!=", "!=": "==", "<": ">=", ">=": "<", ">": "<=", "<=": ">"}


def membership_atom(e, binds, prov, pol=True):
    """(ok, why) for a literal `count > 0` (or the negation of `count == 0` when pol is False)
    with count = A.intersection(B).count()."""
    e = unwrap(e)
    if e.get("e") != "bin" or e.get("op") not in NEG_OP:
        return None
    op, l, r = e["op"], e["l"], e["r"]
    if not pol:
        op = NEG_OP[op]
    forms = [(">", 0), ("!=", 0), (">=", 1)]
    rev = {"<": ">", "<=": ">=", "!=": "!=", ">": "<", ">=": "<="}
    cnt = None
    if int_lit(r) is not None and (op, int_lit(r)) in forms:
        cnt = l
    elif int_lit(l) is not None and op in rev and (rev[op], int_lit(l)) in forms:
        cnt = r
    if cnt is None:
        return None
    c = subst(cnt, binds)
    if not (c.get("e") == "mcall" and ends(callee_of(c), "Iterator::count", "iterator::Iterator::count")):
        return None
    inter = unwrap(c["recv"])
    if not (inter.get("e") == "mcall" and ends(callee_of(inter), "BTreeSet::<T, A>::intersection", "HashSet::<T, S>::intersection")):
        return None
    sides = [inter["recv"]] + list(inter.get("args", []))
    if len(sides) != 2:
        return None
    toks = [deep_tokens(s, prov, 4) for s in sides]
    allow = [i for i, t in enumerate(toks) if has_token(t, "field", "pam_allow_groups")]
    if len(allow) != 1:
        return None
    user = toks[1 - allow[0]]
    missing = [f for f in ("groups", "name", "uuid") if not has_token(user, "field", f)]
    return (not missing, "user set lacks " + ",".join(missing) if missing else "names ∪ uuids ∩ pam_allow_groups")


def validity_atom(e, token_locals):
    e = unwrap(e)
    return e.get("e") == "field" and e.get("f") == "valid" and local_id(e.get("x")) in token_locals


def flatten_and(f):
    if f[0] == "and":
        out = []
        for g in f[1]:
            out += flatten_and(g)
        return out
    return [f]


def has_or(f):
    if f[0] == "or":
        return True
    if f[0] == "and":
        return any(has_or(g) for g in f[1])
    if f[0] == "not":
        return has_or(f[1])
    return False


def run(ctx):
    _run_main(ctx)
    offline_auth_keeps_latest_token(ctx)


def _run_main(ctx):
    F = ctx.facts
    ctx.explanation = ("K4: the boolean returned by unix_user_authorise is extracted from HIR as a template and must be `false` or a pure conjunction containing "
                       "(names ∪ uuids of the token's groups ∩ pam_allow_groups).count() > 0 and token.valid; Resolver::pam_account_allowed passes the answer through.")
    crates = [RES] if ctx.tier != "thorough" else [c[:-4] for c in F.crates() if c.endswith(".lib")]
    impls = []
    for c in crates:
        for n in F.find_fns(c, r"IdProvider>::unix_user_authorise$"):
            impls.append((c, n))
    ctx.floor("K4-template", "implementations of IdProvider::unix_user_authorise", len(impls), 1)
    kan = ctx.fn(RES, "sparkle_resolver_common::<idprovider::kanidm::KanidmProvider as idprovider::interface::IdProvider>::unix_user_authorise")
    n_templates = 0
    for crate, name in impls:
        rec = ctx.fn(crate, name)
        root = real_root(rec)
        binds = pc.collect_binds(root)
        prov = prov_binds(root)
        token_locals = set(param_locals(rec, lambda t: "UserToken" in t))
        saw_empty_branch = False
        for node, conds in sites_of(root, result_leaves(root, binds)):
            lits = entailed(conds, binds)
            if is_dead(lits):
                continue
            inner = ctor_arg(node, "core::result::Result::Ok")
            if ctor_arg(node, "core::result::Result::Err") is not None or \
                    (unwrap(node).get("e") == "call" and ends(callee_of(unwrap(node)), "FromResidual::from_residual")):
                ctx.ok("K4-template", name, "result:Err")
                continue
            if inner is not None and def_of(inner) == "core::option::Option::None":
                ctx.ok("K4-template", name, "result:Ok(None)", "unknown user")
                continue
            b = ctor_arg(inner, "core::option::Option::Some") if inner is not None else None
            if b is None:
                ctx.violation("K4-template", name, "result:unrecognised:" + str(unwrap(node).get("e")),
                              f"unix_user_authorise returns `{ex_s(node)[:80]}`, not Ok(Some(<bool expression>)) / Ok(None) / Err (shape not understood, fail closed)",
                              **loc(rec, node))
                continue
            b = subst(b, binds)
            if pc.is_bool_lit(b, False):
                empty = any(p and leaf[1] == "expr" and unwrap(leaf[2]).get("e") == "mcall" and
                            ends(callee_of(unwrap(leaf[2])), "is_empty") and has_token(tokens(leaf[2]), "field", "pam_allow_groups")
                            for (p, leaf) in lits.values())
                saw_empty_branch = saw_empty_branch or empty
                ctx.ok("K4-template", name, "result:Some(false)" + (":empty-allow-list" if empty else ""), "deny")
                continue
            n_templates += 1
            f = pc.cond(b)
            # literals that hold whenever this value is returned as `true`:
            # the top-level conjuncts of B (pre-computed locals substituted) and the path condition of the site
            cand = []
            for g in flatten_and(f):
                if g[0] == "leaf" and g[1] == "expr":
                    e2 = subst(g[2], binds)
                    g2 = pc.cond(e2) if e2 is not unwrap(g[2]) and unwrap(e2).get("e") in ("bin", "un") and unwrap(e2).get("op") in ("&&", "||", "Not") else g
                    for h in flatten_and(g2):
                        cand.append(h)
                else:
                    cand.append(g)
            literals = []
            for g in cand:
                if g[0] == "leaf":
                    literals.append((True, g))
                elif g[0] == "not" and g[1][0] == "leaf":
                    literals.append((False, g[1]))
            for (p, leaf) in lits.values():
                literals.append((p, leaf))
            ors = has_or(f) or any(has_or(g) for g in cand)
            mem = None
            val = False
            for (p, g) in literals:
                if g[1] != "expr":
                    continue
                m = membership_atom(g[2], binds, prov, p)
                if m is not None and (mem is None or m[0]):
                    mem = m
                if p and validity_atom(g[2], token_locals):
                    val = True
            problems = []
            if mem is None:
                problems.append("no membership test `intersection(..).count() > 0` among the conjuncts / dominating guards")
            elif not mem[0]:
                problems.append("membership test: " + mem[1])
            if not val:
                problems.append("no un-negated `<token>.valid` among the conjuncts / dominating guards")
            if ors and problems:
                problems.append("the returned expression contains `||` (a disjunction admits users that fail one of the tests)")
            tmpl = ex_s(b)
            ctx.check(not problems, "K4-template", name, "result:Some(membership∧valid)" if not problems else
                      "result:Some(" + ("or" if ors else "and") + (":no-membership" if mem is None or not mem[0] else "") + (":no-valid" if not val else "") + ")",
                      f"template {tmpl}: conjunction with membership(names ∪ uuids) and token.valid",
                      f"unix_user_authorise returns Some({tmpl}); required: whenever the value can be true, both (groups by name ∪ uuid ∩ pam_allow_groups).count() > 0 "
                      f"and token.valid hold (as conjuncts of the value or as dominating guards). Problems: {problems} — a user outside every allowed group, "
                      "or with an invalid/expired account record, would be admitted",
                      **loc(rec, node))
            ctx.sample(f"{rec['file']}:{node.get('line')} unix_user_authorise :: Some({tmpl})")
        if name == kan["fn"]:
            ctx.notes.append("explicit `pam_allow_groups.is_empty() → Some(false)` branch present" if saw_empty_branch else
                             "no explicit empty-list branch; an empty allow list is denied by count() > 0")
    ctx.floor("K4-template", "non-constant authorisation templates", n_templates, 1)

    # ---- K4-passthrough -------------------------------------------------------------
    pa = ctx.fn(RES, "sparkle_resolver_common::resolver::Resolver::pam_account_allowed")
    root = real_root(pa)
    binds = pc.collect_binds(root)
    prov = prov_binds(root)
    n_pass = 0
    for node in result_leaves(root, binds):
        e = unwrap(node)
        inner = ctor_arg(e, "core::result::Result::Ok")
        if e.get("e") == "call" and (ends(callee_of(e), "FromResidual::from_residual") or ends(e.get("ctor", ""), "core::result::Result::Err")):
            ctx.ok("K4-passthrough", pa["fn"], "result:Err")
            continue
        if inner is not None and def_of(inner) == "core::option::Option::None":
            ctx.ok("K4-passthrough", pa["fn"], "result:Ok(None)")
            continue
        if inner is not None and ctor_arg(inner, "core::option::Option::Some") is not None:
            v = ctor_arg(inner, "core::option::Option::Some")
            from_system = local_id(v) is not None and has_token(deep_tokens(v, prov, 3), "call", "SystemProvider::authorise")
            ctx.check(from_system, "K4-passthrough", pa["fn"], "result:Ok(Some(system-answer))" if from_system else "result:Ok(Some(other))",
                      "local (system) account answer",
                      f"pam_account_allowed returns Ok(Some({ex_s(v)[:40]})) that is not the SystemProvider's answer for a local account: "
                      "a directory user's authorisation would not come from unix_user_authorise", **loc(pa, node))
            continue
        toks = tokens(e, into_closures=False)
        via = has_token(toks, "call", "IdProvider::unix_user_authorise", "unix_user_authorise")
        wrappers = [short(callee_of(n), 1) for n in walk(e, into_closures=False) if n.get("e") in ("call", "mcall") and not n.get("exp")]
        only_err_maps = all(w in ("map_err", "unix_user_authorise", "inspect_err") for w in wrappers)
        if via:
            n_pass += 1
        ctx.check(via and only_err_maps, "K4-passthrough", pa["fn"], "result:provider-answer" if via and only_err_maps else "result:unrecognised:" + str(e.get("e")),
                  "unix_user_authorise(..).await.map_err(..)",
                  f"pam_account_allowed returns `{ex_s(e)[:80]}` (calls {wrappers}) which is not the unchanged answer of IdProvider::unix_user_authorise",
                  **loc(pa, node))
    ctx.floor("K4-passthrough", "results of pam_account_allowed that forward unix_user_authorise", n_pass, 1)


# ---------------------------------------------------------------------------------------------------------------------
# unix_user_authorise decides from the CACHED token (groups, valid). An offline password step hands back the token that
# is then written to the cache with a fresh expiry; it must be the newest record the cache holds (`current_token`), and the
# snapshot taken when the PAM conversation started (`session_token`) only as a fallback. Writing the snapshot back resurrects
# group memberships / validity that a refresh in between had already removed.
# (added after seeded change C45: new_token = session_token.clone())

def offline_auth_keeps_latest_token(ctx):
    from .lib.hir import walk, unwrap
    R = "K4-offline-writeback-uses-latest-token"
    f = ctx.fn(RES, "sparkle_resolver_common::<idprovider::kanidm::KanidmProvider as idprovider::interface::IdProvider>::unix_user_offline_auth_step")
    cur = ses = None
    for p in f["params"]:
        if p["pat"].get("p") == "bind" and "UserToken" in p["ty"]:
            if "Option<" in p["ty"]:
                cur = p["pat"]["local"]
            else:
                ses = p["pat"]["local"]
    if not ctx.check(cur is not None and ses is not None, R, f["fn"], "parameters", "(current_token: Option<&UserToken>, session_token: &UserToken)",
                     "the offline step no longer receives both the latest cached token and the session snapshot (shape not understood)",
                     file=f["file"], line=f["line"]):
        return
    inits = {}
    for n in walk(f["body"]):
        if n.get("s") == "let" and "init" in n and n["pat"].get("p") == "bind":
            inits[n["pat"]["local"]] = n["init"]
    sites = [n for n in walk(f["body"]) if n.get("e") == "struct" and n["path"].get("def", "").endswith("AuthResult::SuccessUpdate")]
    ctx.floor(R, "AuthResult::SuccessUpdate sites in the offline step", len(sites), 1)

    def root_recv(e, depth=0):
        """local at the receiver end of a method chain, following let-bound locals"""
        e = unwrap(e)
        while isinstance(e, dict):
            if e.get("e") == "mcall":
                e = unwrap(e["recv"])
            elif e.get("e") == "path" and "local" in e["res"]:
                l = e["res"]["local"]
                if l in inits and depth < 4 and l not in (cur, ses):
                    return root_recv(inits[l], depth + 1)
                return l
            else:
                return None
        return None

    for s in sites:
        tok = [x["x"] for x in s["fields"] if x["f"] == "new_token"]
        r = root_recv(tok[0]) if tok else None
        ctx.check(r == cur, R, f["fn"], "success-token-prefers-current", "new_token = current_token.unwrap_or(session_token)…",
                  "the token returned by a successful offline authentication is not derived from the latest cached record "
                  f"(`current_token`) first — it starts from {'the session snapshot' if r == ses else 'something else'}: the cache is then overwritten, with a fresh "
                  "expiry, by the copy taken when the conversation began, so a user removed from every allowed group (or whose account expired) "
                  "in the meantime is admitted again by unix_user_authorise", file=f["file"], line=s.get("line"))
