"""C50 Synchronisation agreements stay inside their own scope.

Decided (DESIGN.md C50):
 K3-sync-stub-range   every `internal_create` in the scim sync apply phases is dominated by a test of *every* new uuid against
                      DYNAMIC_RANGE_MINIMUM_UUID over the same collection the stubs are built from (internal creates are exempt from
                      Base's system-range rule); a phase that creates through a non-internal `create` instead is accepted.  [F11]
 K3-sync-mods         scim_entry_to_mod: the modification list unconditionally asserts SyncParentUuid == this agreement; every other
                      modification names either one of the three bookkeeping attributes (SyncParentUuid, SyncClass, Class) or an attribute
                      proven to be in the sync-owned set; the sync-owned set is (class attributes ∩ sync-allowed set) ∪ phantom set;
                      phase 3 computes the sync-allowed set as  attr.sync_allowed ∧ ¬yield-authority.contains(attr)  and the phantom set as
                      attr.phantom ∧ attr.sync_allowed, the authority set being the agreement's SyncYieldAuthority read in phase 1.
 K3-sync-delete-scope every internal_delete of the apply phases uses a filter whose outermost component is And[.. SyncParentUuid == this
                      agreement ..] on every non-diverging branch.
 K4-user-ceiling      modify_sync_constrain: for a User origin on a sync object the result is Constrain{pres_attr = rem_attr = set} where the
                      set's constants are within {UserAuthTokenSession, OAuth2Session, OAuth2ConsentScopeMap, CredentialUpdateIntentToken}
                      (ceiling) and its only extension is the yield-authority set of the entry's own SyncParentUuid; class changes are None;
                      a sync object without SyncParentUuid is Deny; Ignore for users only on non-sync objects.
 K4-phase1            phase 1 proceeds only for IdentType::Synch and AccessScope::Synchronise (all other arms return Err).
 K4-synch-denied      IdentType::Synch => Deny in the create / modify / delete (and search) identity tables of server::access.
Not decided: that class changes requested by a sync agreement are themselves in scope (sync_allowed classes: covered by the class lookup in
scim_entry_to_mod but not re-checked here), phantom attributes are not subtracted by yield-authority (as in the code today), refresh-state handling.
"""
import re
from collections import defaultdict
from .lib.hir import *
from .lib.pathcond import site_conditions, implied, collect_binds, render, leaf_tokens, div, TRUE

META = dict(
    technique="sink path-conditions (K3) and decision tables (K4) over type-checked HIR, with local-identity data-flow links (never names)",
    level_text="Every create / modify-list / delete sink of the SCIM sync apply pipeline is shown to be guarded by the agreement-scope conditions "
               "(system-range test over every new uuid, SyncParentUuid assertion, sync-owned attribute membership, scoped delete filter), the "
               "user-side constraint on synchronised entries is shown to stay under a fixed ceiling, and the Synch identity is shown to be denied "
               "by the generic access tables. Quantifies over all sync requests by quantifying over code paths.",
    level_note="Decides the listed structural clauses. Not decided: correctness of the schema's sync_allowed flags, that sync-requested classes are "
               "appropriate, phantom attributes vs yielded authority, the refresh/active state machine.",
)

LIB = "kanidmd_lib"
IMPL = r"^kanidmd_lib::idm::scim::<impl idm::server::IdmServerProxyWriteTransaction<'_>>::"
ATTR = "kanidm_proto::attribute::Attribute::"
BOOKKEEPING = {"SyncParentUuid", "SyncClass", "Class"}
USER_CEILING = {"UserAuthTokenSession", "OAuth2Session", "OAuth2ConsentScopeMap", "CredentialUpdateIntentToken"}
USER_READS = {"Class", "SyncParentUuid"}


def local_of(e):
    e = unwrap(e)
    while isinstance(e, dict) and e.get("e") == "mcall" and e.get("name") in ("clone", "as_ref", "to_owned", "iter", "into_iter", "keys", "copied", "cloned"):
        e = unwrap(e["recv"])
    if isinstance(e, dict) and e.get("e") == "path" and "local" in e["res"]:
        return e["res"]["local"]
    return None


def root_local(e):
    """local at the root of a receiver chain  x.a().b(..).c()."""
    e = unwrap(e)
    while isinstance(e, dict):
        if e.get("e") == "mcall":
            e = unwrap(e["recv"])
        elif e.get("e") == "call" and e.get("args") and not e.get("ctor"):
            e = unwrap(e["args"][0])
        elif e.get("e") == "field":
            e = unwrap(e["x"])
        else:
            break
    if isinstance(e, dict) and e.get("e") == "path" and "local" in e["res"]:
        return e["res"]["local"]
    return None


def params_by_type(fn):
    out = defaultdict(list)
    for p in fn["params"]:
        ids = [n["local"] for n in walk(p["pat"]) if n.get("p") == "bind"]
        if ids:
            out[re.sub(r"\s+", "", p.get("ty", ""))].append(ids[0])
    return out


def all_binds(body):
    """local -> init for every simple let (mutable ones too; used only to look through to the initialiser)."""
    b = {}
    for n in walk(body):
        if n.get("s") == "let" and "init" in n and "else" not in n:
            p = n["pat"]
            if p.get("p") == "bind" and "sub" not in p:
                b[p["local"]] = n["init"]
    return b


def resolve(e, binds, depth=4):
    e = unwrap(e)
    while depth > 0 and isinstance(e, dict) and e.get("e") == "path" and e["res"].get("local") in binds:
        e = unwrap(binds[e["res"]["local"]])
        depth -= 1
    return e


def is_parent_eq(e, sync_local, ctor_suffixes=("filter::f_eq",)):
    """f_eq(Attribute::SyncParentUuid, PartialValue::Refer(<sync_uuid>))"""
    e = unwrap(e)
    if not (isinstance(e, dict) and e.get("e") == "call" and is_call_to(e, *ctor_suffixes) and len(e["args"]) == 2):
        return False
    a0, a1 = unwrap(e["args"][0]), unwrap(e["args"][1])
    if not def_of(a0).endswith("Attribute::SyncParentUuid"):
        return False
    return a1.get("e") == "call" and (a1.get("ctor") or "").endswith("PartialValue::Refer") and a1["args"] and local_of(a1["args"][0]) == sync_local


def find_array(e, binds, depth=6):
    e = unwrap(e)
    if not isinstance(e, dict) or depth < 0:
        return None
    if e.get("e") == "array":
        return e
    if e.get("e") == "path" and e["res"].get("local") in binds:
        return find_array(binds[e["res"]["local"]], binds, depth - 1)
    if e.get("e") == "mcall":
        r = find_array(e["recv"], binds, depth - 1)
        if r is not None:
            return r
    if e.get("e") in ("call", "mcall"):
        for a in e.get("args", []):
            r = find_array(a, binds, depth - 1)
            if r is not None:
                return r
    if e.get("e") == "blockexpr" and "tail" in e["b"]:
        return find_array(e["b"]["tail"], binds, depth - 1)
    return None


def outermost_filter_calls(e):
    """calls to kanidmd_lib::filter::f_* that are not nested inside another f_* call."""
    out = []

    def visit(n):
        if isinstance(n, list):
            for x in n:
                visit(x)
            return
        if not isinstance(n, dict):
            return
        if n.get("s") == "let":
            return          # initialisers are looked through via the bindings, not scanned in place
        if n.get("e") == "call" and re.match(r"^kanidmd_lib::filter::f_\w+$", callee_of(n) or ""):
            out.append(n)
            return
        for k, v in n.items():
            if k in ("line", "exp"):
                continue
            if isinstance(v, (dict, list)):
                visit(v)
    visit(e)
    return out


def value_leaves(e, binds):
    """non-diverging result expressions of a (nested) if / match / block expression."""
    e = unwrap(e)
    if not isinstance(e, dict):
        return []
    k = e.get("e")
    if k == "path" and e["res"].get("local") in binds:
        return value_leaves(binds[e["res"]["local"]], binds)
    if k == "match" and e.get("src") == "Normal":
        out = []
        for a in e["arms"]:
            if div(a["body"]) == TRUE:
                continue
            out.extend(value_leaves(a["body"], binds))
        return out
    if k == "if":
        out = []
        for b in (e["then"], e.get("else")):
            if b is not None and div(b) != TRUE:
                out.extend(value_leaves(b, binds))
        return out
    if k == "blockexpr":
        b = e["b"]
        if "tail" in b:
            return value_leaves(b["tail"], binds)
        return []
    return [e]


def run(ctx):
    F = ctx.facts
    ctx.explanation = ("K3: sync stub creation dominated by a system-range test of every new uuid; scim_entry_to_mod asserts SyncParentUuid and draws "
                       "attributes only from the sync-owned set (sync-allowed minus yielded authority, plus phantom); sync deletes scoped by SyncParentUuid. "
                       "K4: user changes to synchronised entries limited to yielded attributes plus a fixed ceiling; phase 1 admits only Synch/Synchronise; "
                       "Synch origin is denied by the generic access tables.")
    apply_ = ctx.fn1(LIB, IMPL + r"scim_sync_apply$")
    p1 = ctx.fn1(LIB, IMPL + r"scim_sync_apply_phase_1$")
    p3 = ctx.fn1(LIB, IMPL + r"scim_sync_apply_phase_3$")
    e2m = ctx.fn1(LIB, IMPL + r"scim_entry_to_mod$")
    phase_names = [n for n in F.find_fns(LIB, IMPL + r"scim_sync_apply(_phase_\w+)?$")]
    ctx.floor("K3-sync-stub-range", "scim sync apply functions", len(phase_names), 7)
    phases = [ctx.fn(LIB, n) for n in sorted(phase_names)]

    # ---- F11: stub creation under a system-range test --------------------------------------------
    n_create = 0
    for f in phases:
        binds = collect_binds(f["body"])
        ab = all_binds(f["body"])
        sites = site_conditions(f["body"], lambda n: n.get("e") == "mcall" and is_call_to(n, "internal_create"))
        others = calls_in(f["body"], "QueryServerWriteTransaction::create", "QueryServerWriteTransaction<'_>>::create")
        n_create += len(sites) + len(others)
        for (s, conds) in sites:
            lits = implied(conds, binds)
            src = root_local(resolve(s["args"][0], ab)) if s.get("args") else None
            guard = None
            for (pol, lf) in lits.values():
                if lf[1] != "expr":
                    continue
                e = unwrap(lf[2])
                toks = leaf_tokens(lf)
                if not has_token(toks, "def", "DYNAMIC_RANGE_MINIMUM_UUID"):
                    continue
                if not (e.get("e") == "mcall" and e.get("name") in ("any", "all")):
                    continue
                cl = [unwrap(a) for a in e["args"] if unwrap(a).get("e") == "closure"]
                if len(cl) != 1:
                    continue
                c = unwrap(cl[0]["body"])
                if c.get("e") != "bin":
                    continue
                params = [x["local"] for p in cl[0]["params"] for x in walk(p) if x.get("p") == "bind"]
                l, r = unwrap(c["l"]), unwrap(c["r"])
                l_is_u = l.get("e") == "path" and l["res"].get("local") in params
                r_is_u = r.get("e") == "path" and r["res"].get("local") in params
                l_is_min = def_of(l).endswith("DYNAMIC_RANGE_MINIMUM_UUID")
                r_is_min = def_of(r).endswith("DYNAMIC_RANGE_MINIMUM_UUID")
                below = (l_is_u and r_is_min and c["op"] in ("<",)) or (r_is_u and l_is_min and c["op"] in (">",))           # u < MIN
                at_or_above = (l_is_u and r_is_min and c["op"] in (">=",)) or (r_is_u and l_is_min and c["op"] in ("<=",))   # u >= MIN
                good = (e["name"] == "any" and below and not pol) or (e["name"] == "all" and at_or_above and pol)
                if good and src is not None and root_local(e["recv"]) == src:
                    guard = lf
            ctx.check(guard is not None, "K3-sync-stub-range", f["fn"], "internal_create-without-system-range-test",
                      "stub creation only where no new uuid is below DYNAMIC_RANGE_MINIMUM_UUID (tested over the same collection the stubs are built from)",
                      f"{short(f['fn'], 1)} creates the sync stub entries with internal_create, which is exempt from Base's system-range rule, without first rejecting "
                      f"new uuids below DYNAMIC_RANGE_MINIMUM_UUID on this path: a sync agreement can create entries in the reserved system uuid range "
                      f"(which the server then treats as built-in). Conditions: {[x for x in render(lits) if 'tracing' not in x][:10]}",
                      file=f["file"], line=s.get("line"))
    ctx.floor("K3-sync-stub-range", "create sinks in the sync apply phases", n_create, 1)

    # ---- phase 1: only Synch / Synchronise ------------------------------------------------------------
    n_tab = 0
    for m in walk(p1["body"]):
        if m.get("e") != "match" or m.get("src") != "Normal":
            continue
        sty = m.get("scrut_ty", "")
        if sty.replace("&", "").strip().endswith("identity::IdentType"):
            enum, ok_variant, label = "IdentType", "Synch", "origin"
        elif sty.replace("&", "").strip().endswith("identity::AccessScope"):
            enum, ok_variant, label = "AccessScope", "Synchronise", "scope"
        else:
            continue
        n_tab += 1
        proceed = set()
        for a in m["arms"]:
            vs = {t.rsplit("::", 1)[1] for t in tokens(a["pat"]) if t.startswith("def:") and ("::" + enum + "::") in t} or {"*"}
            d = div(a["body"])
            if d == TRUE:
                errs = constructs(a["body"], "core::result::Result::Err")
                ctx.check(bool(errs), "K4-phase1", p1["fn"], f"{label}:{'|'.join(sorted(vs))}:denied", "arm returns Err",
                          f"phase 1 {label} arm {sorted(vs)} leaves the function without an Err", file=p1["file"], line=a["body"].get("line"))
            else:
                proceed |= vs
        ctx.check(proceed == {ok_variant}, "K4-phase1", p1["fn"], f"{label}:only-{ok_variant}-proceeds",
                  f"only {enum}::{ok_variant} proceeds past the {label} test",
                  f"scim_sync_apply_phase_1 lets {enum} {sorted(proceed)} proceed; only {ok_variant} may apply a sync request", file=p1["file"], line=m.get("line"))
    ctx.floor("K4-phase1", "identity/scope tables in phase 1", n_tab, 2)
    # the tables dominate the first use of the agreement
    b1 = collect_binds(p1["body"])
    first = site_conditions(p1["body"], lambda n: n.get("e") == "mcall" and is_call_to(n, "internal_search_uuid"))
    ctx.floor("K4-phase1", "agreement lookups in phase 1", len(first), 1)
    for (s, conds) in first:
        lits = implied(conds, b1)
        neg_origin = any((not pol) and lf[1] == "arm" and has_token(tokens(lf[2][1]), "def", "IdentType::User", "IdentType::Internal") for (pol, lf) in lits.values())
        neg_scope = any((not pol) and lf[1] == "arm" and has_token(tokens(lf[2][1]), "def", "AccessScope::ReadOnly", "AccessScope::ReadWrite") for (pol, lf) in lits.values())
        ctx.check(neg_origin and neg_scope, "K4-phase1", p1["fn"], "tables-dominate-agreement-lookup",
                  "origin and scope tests precede the agreement lookup",
                  f"the sync agreement is looked up before the origin/scope tests have excluded non-Synch identities: {render(lits)[:8]}", file=p1["file"], line=s.get("line"))
    # the arg of that lookup is the uuid carried by the Synch origin
    # (the local bound from the match over ident.origin)

    # ---- scim_entry_to_mod ---------------------------------------------------------------------------------
    pt = params_by_type(e2m)
    uu = pt.get("uuid::Uuid", [])
    sets = [v for k, v in pt.items() if "BTreeSet<kanidm_proto::attribute::Attribute>" in k]
    sets = sets[0] if sets else []
    if not ctx.check(len(uu) == 1 and len(sets) == 2, "K3-sync-mods", e2m["fn"], "signature",
                     "scim_entry_to_mod(.., sync_uuid: Uuid, .., allow: &BTreeSet<Attribute>, phantom: &BTreeSet<Attribute>)",
                     f"scim_entry_to_mod's signature changed (Uuid params {len(uu)}, attribute-set params {len(sets)}): rule must be re-anchored", file=e2m["file"], line=e2m["line"]):
        return
    sync_local, allow_local, phantom_local = uu[0], sets[0], sets[1]
    ab = all_binds(e2m["body"])
    # the mods vector = the local passed to ModifyList::new_list in the Ok result
    nl = calls_in(e2m["body"], "ModifyList::<modify::ModifyInvalid>::new_list", "ModifyList::new_list", "new_list")
    mods_local = local_of(nl[-1]["args"][0]) if nl and nl[-1].get("args") else None
    if not ctx.check(mods_local is not None, "K3-sync-mods", e2m["fn"], "modlist-local", "result is ModifyList::new_list(<mods>)",
                     "scim_entry_to_mod no longer returns ModifyList::new_list(<local vector>) (shape not understood)", file=e2m["file"], line=e2m["line"]):
        return
    # sync-owned set: a local whose initialiser filters by allow.contains and chains phantom
    owned_local = None
    for loc, init in ab.items():
        okf = False
        okc = False
        for c in all_calls(init):
            if c.get("e") == "mcall" and c.get("name") == "filter":
                for a in c["args"]:
                    a = unwrap(a)
                    if a.get("e") == "closure":
                        b = unwrap(a["body"])
                        if b.get("e") == "mcall" and b.get("name") == "contains" and local_of(b["recv"]) == allow_local:
                            okf = True
            if c.get("e") == "mcall" and c.get("name") == "chain" and any(root_local(a) == phantom_local for a in c["args"]):
                okc = True
        if okf and okc:
            owned_local = loc
    ctx.check(owned_local is not None, "K3-sync-mods", e2m["fn"], "sync-owned-set",
              "sync-owned set = class attributes filtered by allow.contains(..) chained with the phantom set",
              "scim_entry_to_mod no longer computes the sync-owned attribute set as (class attributes ∩ sync-allowed set) ∪ phantom set", file=e2m["file"], line=e2m["line"])
    # other sources feeding the owned set: only class attribute lists
    if owned_local is not None:
        extra = [c.get("name") for c in all_calls(ab[owned_local]) if c.get("e") == "mcall" and c.get("name") == "chain"
                 and not any(root_local(a) == phantom_local for a in c["args"]) and not any(has_token(tokens(a), "field", "may", "must", "systemmay", "systemmust") for a in c["args"])]
        ctx.check(not extra, "K3-sync-mods", e2m["fn"], "sync-owned-set:no-other-source", "no other attribute source is chained in",
                  "the sync-owned set chains in an attribute source that is neither a class attribute list nor the phantom set", file=e2m["file"], line=e2m["line"])

    def is_mods_sink(n):
        return n.get("e") == "mcall" and n.get("name") in ("push", "extend", "insert", "append", "extend_from_slice") and local_of(n["recv"]) == mods_local

    b2 = collect_binds(e2m["body"])
    sites = site_conditions(e2m["body"], is_mods_sink)
    ctx.floor("K3-sync-mods", "modification-list insertions in scim_entry_to_mod", len(sites), 5)
    assert_ok = False
    seen = defaultdict(int)
    for (s, conds) in sites:
        lits = implied(conds, b2)
        mctors = [n for n in walk(s["args"]) if n.get("e") == "call" and "::modify::Modify::" in (n.get("ctor") or "")]
        if not ctx.check(bool(mctors), "K3-sync-mods", e2m["fn"], "insertion-understood", "insertion adds Modify values",
                         f"an insertion into the modification list does not construct a Modify value in place (line {s.get('line')}): shape not understood",
                         file=e2m["file"], line=s.get("line")):
            continue
        in_loop = any(lf[1] == "arm" and has_token(tokens(lf[2][0]), "call", "Iterator::next") for (pol, lf) in lits.values() if pol)
        conditional = any(lf[1] in ("expr", "let") for (pol, lf) in lits.values() if not has_token(leaf_tokens(lf), "call", "tracing_core", "tracing") and lf[1] == "let") or in_loop
        for mc in mctors:
            variant = mc["ctor"].rsplit("::", 1)[1]
            a0 = unwrap(mc["args"][0]) if mc.get("args") else {}
            d = def_of(a0)
            if d.startswith(ATTR):
                k = d[len(ATTR):]
                seen[f"{variant}({k})"] += 1
                if variant == "Assert" and k == "SyncParentUuid":
                    a1 = unwrap(mc["args"][1])
                    good = a1.get("e") == "call" and (a1.get("ctor") or "").endswith("PartialValue::Refer") and local_of(a1["args"][0]) == sync_local
                    uncond = not in_loop and all(lf[1] == "ok" for (pol, lf) in lits.values())
                    if good and uncond:
                        assert_ok = True
                ctx.check(k in BOOKKEEPING, "K3-sync-mods", e2m["fn"], f"constant-attribute:{variant}({k})",
                          f"Modify::{variant}({k}, ..): sync bookkeeping attribute",
                          f"scim_entry_to_mod adds Modify::{variant}(Attribute::{k}, ..) unconditionally: a sync agreement may only touch its bookkeeping attributes "
                          f"{sorted(BOOKKEEPING)} and attributes in the sync-owned set", file=e2m["file"], line=mc.get("line"))
                continue
            al = local_of(a0)
            ok = False
            how = ""
            if al is not None and owned_local is not None:
                # (a) guarded by owned.contains(&attr)
                for (pol, lf) in lits.values():
                    if pol and lf[1] == "expr":
                        e = unwrap(lf[2])
                        if e.get("e") == "mcall" and e.get("name") == "contains" and local_of(e["recv"]) == owned_local and e["args"] and local_of(e["args"][0]) == al:
                            ok, how = True, "guarded by sync_owned.contains(attr)"
                # (b) loop variable of `for attr in owned.iter()`
                if not ok:
                    it = None
                    for (pol, lf) in lits.values():
                        if pol and lf[1] == "arm" and al in [x["local"] for x in walk(lf[2][1]) if x.get("p") == "bind"] and has_token(tokens(lf[2][0]), "call", "Iterator::next"):
                            it = root_local(lf[2][0])
                            # Iterator::next(&mut iter): first arg
                            sc = unwrap(lf[2][0])
                            if sc.get("e") == "call" and sc.get("args"):
                                it = local_of(sc["args"][0])
                    if it is not None:
                        for m in walk(e2m["body"]):
                            if m.get("e") == "match" and "ForLoopDesugar" in m.get("src", ""):
                                for a in m["arms"]:
                                    if it in [x["local"] for x in walk(a["pat"]) if x.get("p") == "bind"]:
                                        sc = unwrap(m["scrut"])
                                        if root_local(sc) == owned_local or any(root_local(x) == owned_local for x in sc.get("args", [])):
                                            ok, how = True, "loop variable over the sync-owned set"
            seen[f"{variant}(<attr>)"] += 1
            inst = f"dynamic-attribute:{variant}" + (f"#{seen[f'{variant}(<attr>)']}" if seen[f"{variant}(<attr>)"] > 1 else "")
            ctx.check(ok, "K3-sync-mods", e2m["fn"], inst, f"Modify::{variant}(attr, ..): {how}",
                      f"scim_entry_to_mod adds Modify::{variant}(<{ex_s(a0)}>, ..) for an attribute that is not proven to be in the sync-owned set (neither under "
                      f"`sync_owned.contains(attr)` nor iterating that set): the agreement could change attributes that are not synchronisable or whose authority was yielded. "
                      f"Conditions: {[x for x in render(lits) if 'tracing' not in x][:8]}", file=e2m["file"], line=mc.get("line"))
    ctx.check(assert_ok, "K3-sync-mods", e2m["fn"], "asserts-SyncParentUuid",
              "the list unconditionally contains Modify::Assert(SyncParentUuid, Refer(sync_uuid))",
              "scim_entry_to_mod's modification list no longer unconditionally asserts SyncParentUuid == this agreement's uuid: the batch modify would change entries the agreement does not own",
              file=e2m["file"], line=e2m["line"])

    # phase 3: how the two sets are computed and passed
    b3 = all_binds(p3["body"])
    calls = calls_in(p3["body"], "scim_entry_to_mod")
    ctx.floor("K3-sync-mods", "scim_entry_to_mod call sites in phase 3", len(calls), 1)
    p3t = params_by_type(p3)
    auth = [v for k, v in p3t.items() if "BTreeSet<kanidm_proto::attribute::Attribute>" in k]
    auth_local = auth[0][0] if auth and len(auth[0]) == 1 else None
    p3uu = p3t.get("uuid::Uuid", [])

    def set_guard(local, want_pos_fields, want_neg_contains_of):
        init = b3.get(local)
        if init is None:
            return False, "not a local initialised in phase 3"
        cl = [unwrap(a) for c in all_calls(init) if c.get("e") == "mcall" and c.get("name") in ("filter_map", "filter") for a in c["args"] if unwrap(a).get("e") == "closure"]
        if len(cl) != 1:
            return False, f"{len(cl)} filter closures"
        sinks = site_conditions(cl[0]["body"], lambda n: n.get("e") == "call" and (n.get("ctor") or "").endswith("Option::Some"))
        if not sinks:
            # plain `filter(|a| cond)`
            from .lib.pathcond import cond as mkcond
            sinks = [(cl[0]["body"], [mkcond(cl[0]["body"])])]
        for (s, conds) in sinks:
            lits = implied(conds, {})
            for fld in want_pos_fields:
                if not any(pol and lf[1] == "expr" and unwrap(lf[2]).get("e") == "field" and unwrap(lf[2]).get("f") == fld for (pol, lf) in lits.values()):
                    return False, f"attribute admitted without `{fld}` being true: {render(lits)}"
            if want_neg_contains_of is not None:
                if not any((not pol) and lf[1] == "expr" and unwrap(lf[2]).get("e") == "mcall" and unwrap(lf[2]).get("name") == "contains"
                           and local_of(unwrap(lf[2])["recv"]) == want_neg_contains_of for (pol, lf) in lits.values()):
                    return False, f"attribute admitted without `!authority.contains(attr)`: {render(lits)}"
        return True, ""

    for c in calls:
        args = [a for a in c["args"]]
        # positional: (scim_ent, sync_uuid, class_set, allow_set, phantom_set) after an optional receiver
        attr_args = [a for a in args if local_of(a) in b3 and "BTreeSet" in str(unwrap(b3[local_of(a)]).get("ty", "")) or (local_of(a) in b3 and any(
            cc.get("name") in ("filter_map", "filter") for cc in all_calls(b3[local_of(a)]) if cc.get("e") == "mcall"))]
        sets3 = [local_of(a) for a in args if local_of(a) in b3]
        sets3 = [l for l in sets3 if any(cc.get("e") == "mcall" and cc.get("name") == "collect" for cc in all_calls(b3[l]))]
        # keep the last two collected sets (class map, allow set, phantom set are passed in this order)
        if not ctx.check(len(sets3) >= 3 and auth_local is not None, "K3-sync-mods", p3["fn"], "call-shape",
                         "phase 3 passes locally computed class / allow / phantom sets", "phase 3's call to scim_entry_to_mod no longer passes three locally collected sets (shape not understood)",
                         file=p3["file"], line=c.get("line")):
            continue
        allow3, phantom3 = sets3[-2], sets3[-1]
        ok, why = set_guard(allow3, ["sync_allowed"], auth_local)
        ctx.check(ok, "K3-sync-mods", p3["fn"], "allow-set=sync_allowed-minus-authority",
                  "allow set = { attr | attr.sync_allowed ∧ ¬sync_authority_set.contains(attr) }",
                  f"the sync-allowed attribute set handed to scim_entry_to_mod is not (sync_allowed minus yielded authority): {why} — the agreement could overwrite attributes "
                  f"whose authority was handed to Kanidm", file=p3["file"], line=c.get("line"))
        ok, why = set_guard(phantom3, ["phantom", "sync_allowed"], None)
        ctx.check(ok, "K3-sync-mods", p3["fn"], "phantom-set=phantom-and-sync_allowed",
                  "phantom set = { attr | attr.phantom ∧ attr.sync_allowed }",
                  f"the phantom attribute set handed to scim_entry_to_mod is not (phantom ∧ sync_allowed): {why}", file=p3["file"], line=c.get("line"))
        uu_ok = any(local_of(a) in p3uu for a in args)
        ctx.check(uu_ok, "K3-sync-mods", p3["fn"], "passes-sync_uuid", "phase 3 hands its own sync_uuid to scim_entry_to_mod",
                  "phase 3 does not pass its sync_uuid parameter to scim_entry_to_mod", file=p3["file"], line=c.get("line"))
    # authority set comes from the agreement's SyncYieldAuthority (phase 1) and is what phase 3 receives
    b1a = all_binds(p1["body"])
    oks = [n for n in walk(p1["body"]) if n.get("e") == "call" and (n.get("ctor") or "").endswith("Result::Ok") and not n.get("exp") and n.get("args") and unwrap(n["args"][0]).get("e") == "tuple"]
    idx = None
    for o in oks:
        for i, x in enumerate(unwrap(o["args"][0])["xs"]):
            l = local_of(x)
            if l in b1a and has_token(tokens(b1a[l]), "def", "Attribute::SyncYieldAuthority"):
                idx = i
    link = False
    if idx is not None:
        for n in walk(apply_["body"]):
            if n.get("s") == "let" and n["pat"].get("p") == "tuple" and "init" in n and has_token(tokens(n["init"]), "call", "scim_sync_apply_phase_1"):
                pats = n["pat"]["pats"]
                if idx < len(pats) and pats[idx].get("p") == "bind":
                    al = pats[idx]["local"]
                    for c in calls_in(apply_["body"], "scim_sync_apply_phase_3"):
                        if any(local_of(a) == al for a in c["args"]):
                            link = True
    ctx.check(link, "K3-sync-mods", apply_["fn"], "authority-set=SyncYieldAuthority",
              "the authority set subtracted in phase 3 is the agreement's SyncYieldAuthority read in phase 1",
              "scim_sync_apply no longer hands phase 1's SyncYieldAuthority set to phase 3 (or phase 1 no longer reads it): yielded attributes would not be protected from the agreement",
              file=apply_["file"], line=apply_["line"])

    # ---- deletes scoped by SyncParentUuid ------------------------------------------------------------------
    n_del = 0
    for f in phases:
        dels = [c for c in all_calls(f["body"]) if c.get("e") == "mcall" and is_call_to(c, "internal_delete")]
        if not dels:
            continue
        fb = all_binds(f["body"])
        uu_f = params_by_type(f).get("uuid::Uuid", [])
        for di, c in enumerate(dels):
            n_del += 1
            leaves = value_leaves(c["args"][0], fb) if c.get("args") else []
            good = bool(leaves) and len(uu_f) == 1
            why = ""
            for lf in leaves:
                oc = outermost_filter_calls(lf)
                if not oc:
                    good, why = False, f"a branch builds its filter without f_and: `{ex_s(lf)[:60]}`"
                    break
                for o in oc:
                    arr = find_array(o["args"][0], fb) if (o.get("args") and callee_of(o).endswith("::f_and")) else None
                    if arr is None or not any(is_parent_eq(x, uu_f[0] if uu_f else None) for x in arr["xs"]):
                        good, why = False, f"outermost filter component `{short(callee_of(o), 1)}` (line {o.get('line')}) is not And[.. f_eq(SyncParentUuid, Refer(sync_uuid)) ..]"
                        break
                if not good:
                    break
            ctx.check(good, "K3-sync-delete-scope", f["fn"], "internal_delete:filtered-by-SyncParentUuid" + (f"#{di + 1}" if di else ""),
                      f"{len(leaves)} filter branch(es), each And[SyncParentUuid == this agreement, ..]",
                      f"{short(f['fn'], 1)} deletes with a filter that is not conjoined with SyncParentUuid == this agreement on every branch ({why or 'no filter value found'}): "
                      f"a sync request could delete entries it does not own", file=f["file"], line=c.get("line"))
    ctx.floor("K3-sync-delete-scope", "internal_delete sinks in the sync apply phases", n_del, 2)

    # ---- users on synchronised entries: ceiling ----------------------------------------------------------------
    msc = ctx.fn(LIB, "kanidmd_lib::server::access::modify::modify_sync_constrain")
    named = {t[len("def:" + ATTR):] for t in tokens(msc["body"]) if t.startswith("def:" + ATTR)}
    over = sorted(named - USER_CEILING - USER_READS)
    ctx.check(not over, "K4-user-ceiling", msc["fn"], "attribute-ceiling",
              f"attributes named: {sorted(named & USER_CEILING)} (within the ceiling) + reads {sorted(named & USER_READS)}",
              f"modify_sync_constrain names attribute(s) {over} beyond today's exemption ceiling {sorted(USER_CEILING)}: users would be able to change more of a synchronised "
              f"entry than session / consent / credential-reset state and yielded attributes", file=msc["file"], line=msc["line"])
    for a in sorted(named & USER_CEILING):
        ctx.ok("K4-user-ceiling", msc["fn"], "exempt:" + a, "within ceiling")
    mb = all_binds(msc["body"])
    mparams = params_by_type(msc)
    agreements = [v for k, v in mparams.items() if "HashMap<uuid::Uuid" in k]
    agr_local = agreements[0][0] if agreements else None
    cons = [n for n in walk(msc["body"]) if n.get("e") == "struct" and def_of(n).endswith("AccessModResult::Constrain")]
    ctx.floor("K4-user-ceiling", "Constrain sites in modify_sync_constrain", len(cons), 1)
    set_locals = set()
    for n in cons:
        fl = {x["f"]: x["x"] for x in n["fields"]}
        ls = {local_of(fl[k]) for k in ("pres_attr", "rem_attr") if k in fl}
        ok = len(ls) == 1 and None not in ls
        ctx.check(ok, "K4-user-ceiling", msc["fn"], "Constrain:pres=rem=set", "pres_attr and rem_attr are the same computed set",
                  "AccessModResult::Constrain in modify_sync_constrain no longer uses one computed set for pres_attr and rem_attr (shape not understood)", file=msc["file"], line=n.get("line"))
        set_locals |= {l for l in ls if l is not None}
        for k in ("pres_cls", "rem_cls"):
            v = unwrap(fl.get(k, {}))
            ctx.check(def_of(v).endswith("Option::None"), "K4-user-ceiling", msc["fn"], f"Constrain:{k}=None", "users may not change classes of a synchronised entry",
                      f"modify_sync_constrain's Constrain.{k} is `{ex_s(v)}` instead of None: users could change classes of synchronised entries", file=msc["file"], line=n.get("line"))
    mbinds = collect_binds(msc["body"])
    muts = site_conditions(msc["body"], lambda n: n.get("e") == "mcall" and not n.get("exp") and n.get("name") in ("extend", "insert", "append", "push") and local_of(n["recv"]) in set_locals)
    for (s, conds) in muts:
        lits = implied(conds, mbinds)
        src = root_local(s["args"][0]) if s.get("args") else None
        from_agreement = False
        keyed_by_parent = False
        for (pol, lf) in lits.values():
            if pol and lf[1] == "let":
                pat_locals = [x["local"] for x in walk(lf[2][0]) if x.get("p") == "bind"]
                init = unwrap(lf[2][1])
                if src in pat_locals and init.get("e") == "mcall" and init.get("name") == "get" and local_of(init["recv"]) == agr_local:
                    from_agreement = True
                    key = local_of(init["args"][0]) if init.get("args") else None
                    for (pol2, lf2) in lits.values():
                        if pol2 and lf2[1] == "let" and key in [x["local"] for x in walk(lf2[2][0]) if x.get("p") == "bind"] and has_token(tokens(lf2[2][1]), "def", "Attribute::SyncParentUuid"):
                            keyed_by_parent = True
        ctx.check(s.get("name") == "extend" and from_agreement and keyed_by_parent, "K4-user-ceiling", msc["fn"], "extension=yield-authority-of-own-agreement",
                  "the only extension of the exempt set is sync_agreements[entry.SyncParentUuid] (the yielded attributes)",
                  f"modify_sync_constrain extends the user-modifiable set with `{ex_s(s)[:70]}`, which is not the yield-authority set of the entry's own sync agreement",
                  file=msc["file"], line=s.get("line"))
    # decision table on origin / sync-object / parent
    sites = site_conditions(msc["body"], lambda n: n.get("e") == "path" and def_of(n).endswith(("AccessModResult::Ignore", "AccessModResult::Grant", "AccessModResult::Allow")) and not n.get("exp"))
    for (s, conds) in sites:
        lits = implied(conds, mbinds)
        user = any(pol and lf[1] == "arm" and has_token(tokens(lf[2][1]), "def", "IdentType::User") for (pol, lf) in lits.values())
        if not user:
            continue
        not_sync = any((not pol) and has_token(leaf_tokens(lf), "def", "EntryClass::SyncObject") for (pol, lf) in lits.values())
        ctx.check(not_sync, "K4-user-ceiling", msc["fn"], "User:Ignore-only-for-non-sync-objects", "users are unconstrained only on entries that are not sync objects",
                  f"modify_sync_constrain returns {short(def_of(s), 1)} for a User origin on a path where the entry may be a sync object: {render(lits)[:8]}", file=msc["file"], line=s.get("line"))
    callers = {re.sub(r"(::\{closure#\d+\})+$", "", c) for (c, callee, resolved, ln, exp, sty) in F.calls(LIB) if (resolved or callee) == msc["fn"]}
    ctx.check(any(c.endswith("apply_modify_access") for c in callers), "K4-user-ceiling", msc["fn"], "called-from-apply_modify_access",
              f"called from {sorted(short(c, 1) for c in callers)}",
              "modify_sync_constrain is no longer called from apply_modify_access: users would be unconstrained on synchronised entries")

    # ---- Synch origin denied by the generic access tables -------------------------------------------------------------
    TABLES = ["kanidmd_lib::server::access::create::create_filter_entry", "kanidmd_lib::server::access::modify::modify_ident_test",
              "kanidmd_lib::server::access::delete::delete_filter_entry", "kanidmd_lib::server::access::search::search_filter_entry"]
    for tn in TABLES:
        f = ctx.fn(LIB, tn)
        found = False
        for m in walk(f["body"]):
            if m.get("e") == "match" and m.get("src") == "Normal" and m.get("scrut_ty", "").replace("&", "").strip().endswith("identity::IdentType"):
                for a in m["arms"]:
                    if has_token(tokens(a["pat"]), "def", "IdentType::Synch") or (a["pat"].get("p") in ("wild", "bind")):
                        found = True
                        res = {mm.group(2) for t in tokens(a["body"]) for mm in [re.search(r"::(IResult|Access\w*Result)::(\w+)$", t)] if mm and t.startswith("def:kanidmd_lib::server::access::")}
                        ok = res == {"Deny"}
                        ctx.check(ok, "K4-synch-denied", tn, "Synch=>Deny", "IdentType::Synch => Deny",
                                  f"{short(tn, 2)} maps a Synch origin to {sorted(res)} instead of Deny: a sync token could act through the generic search/create/modify/delete "
                                  f"path, outside the scoped sync apply phases", file=f["file"], line=a["body"].get("line"))
        ctx.check(found, "K4-synch-denied", tn, "Synch-arm-found", "identity table has an arm for Synch", f"no match over ident.origin with a Synch arm found in {tn}", file=f["file"], line=f["line"])
    ctx.exhaustive = True
