"""C30 Password checks agree with independent implementations — structural clauses.

Taken whole the property compares hash outputs with independent implementations and is not statically decidable.  Decided here are the
clauses visible in the shape of the code; each is a necessary condition (breaking it makes a stored hash of that format verify differently
from every independent implementation):

 (1) K5-format-table   TryFrom<&str> for Password and the parse_* helpers: every textual tag / prefix (path conditions of each `Kdf::X`
                       construction site, composed across the helper calls) constructs the Kdf variant of the same algorithm, tags are
                       compared case-insensitively, nothing is constructed on an untagged path (unknown tag -> Err), and the parsed
                       pieces land in the right fields (K5-parse-fields: cost/salt/hash positions, digest length split of {SSHA*}).
 (2) K5-verify-table   Password::verify_ctx: every Kdf variant's arm calls the primitive of the same algorithm with the stored
                       parameters (cost, salt, m/t/p/version), sizes the output by the stored hash and returns Ok(true) only through an
                       equality of the WHOLE computed value with the WHOLE stored hash (or the library's own check function).
 (3) salt-order        salted digests hash password first, then salt (OpenLDAP / 389-DS {SSHA*}: base64(H(password || salt) || salt)).
 (4) parameter flow    parsed cost / parameters are the ones handed to the primitive (parser side: K5-parse-fields; verify side:
                       inputs:<variant>); the generators new_pbkdf2 / new_argon2id(+hsm) store exactly the parameters they hashed with.
     K4-cleartext-length  no cleartext is refused before the stored hash is consulted.

NOT decided: that pbkdf2 / sha1 / sha2 / md4 / md5 / sha-crypt / argon2 / base64 crates compute the standard functions, hence equality of
hash outputs with an independent implementation; do_md5_crypt's internal round structure; TPM-bound hashes (need the HSM).
"""
import re

from .lib.hir import *
from .lib import pathcond as pc
from .lib import x_g10 as G
from .lib.x_g10 import Flow, last_seg, hash_of_type, is_hmac_type, int_lit, str_lit

META = dict(
    technique="variant-map agreement extracted from type-checked HIR: format tags (path conditions of every Kdf construction site, composed across helper calls) -> Kdf variant; "
              "Kdf variant -> primitive / hash / argument data-flow / comparison shape in verify_ctx; MIR call rows for turbofish hash types",
    level_text="Exhaustive structural check over every supported textual format and every Kdf variant: the tag selects the Kdf variant of the same algorithm and puts cost/salt/hash in the right fields; "
               "verify_ctx runs the same-named primitive on (cleartext, stored salt, stored cost/params), sized by the stored hash, and accepts only on equality of the whole computed hash with the whole "
               "stored hash; salted digests hash password then salt. Tests check one known hash per format.",
    level_note="Decides the format->algorithm table, the algorithm->primitive table, parameter data-flow and the comparison shape only. The primitives (pbkdf2, sha1, sha2, md4, md5, sha-crypt, argon2, "
               "base64, hex crates) are trusted library code; equality of hash outputs with an independent implementation is NOT decided, nor do_md5_crypt's internal rounds nor TPM-bound hashes. "
               "Hash type arguments of pbkdf2_hmac come from MIR call rows joined by line. Trusted: rustc resolution, rules/lib/x_g10.py, the expected tables in this file.",
)

CRY = "kanidm_lib_crypto"
K = "kanidm_lib_crypto::Kdf"
TRY_FROM = "kanidm_lib_crypto::<Password as core::convert::TryFrom<&str>>::try_from"
VERIFY_CTX = "kanidm_lib_crypto::Password::verify_ctx"
MD5CRYPT = "kanidm_lib_crypto::crypt_md5::do_md5_crypt"

# tag path (outermost first; '=' marks an equality test on a parsed sub-field) -> Kdf variant
EXPECTED_FORMATS = {
    "pbkdf2_sha256$": "PBKDF2",
    "ipaNTHash: ": "NT_MD4",
    "sambaNTPassword: ": "NT_MD4",
    "{ pbkdf2": "PBKDF2_SHA1",
    "{ pbkdf2-sha1": "PBKDF2_SHA1",
    "{ pbkdf2-sha256": "PBKDF2",
    "{ pbkdf2-sha512": "PBKDF2_SHA512",
    "{ argon2 =argon2id": "ARGON2ID",
    "{ crypt $1$": "CRYPT_MD5",
    "{ crypt $5$": "CRYPT_SHA256",
    "{ crypt $6$": "CRYPT_SHA512",
    "{ sha": "SHA1",
    "{ ssha": "SSHA1",
    "{ sha256": "SHA256",
    "{ ssha256": "SSHA256",
    "{ sha512": "SHA512",
    "{ ssha512": "SSHA512",
}

DIGEST_LEN = {"sha1": 20, "sha256": 32, "sha512": 64}

# Kdf variant -> what verify_ctx must do
VERIFY_SPEC = {
    "TPM_ARGON2ID": dict(prims={("argon2", "Argon2id"), ("hsm-hmac",)}, kind="argon2", key="key", salt="salt"),
    "ARGON2ID": dict(prims={("argon2", "Argon2id")}, kind="argon2", key="key", salt="salt"),
    "PBKDF2": dict(prims={("pbkdf2", "sha256")}, kind="pbkdf2", cost="0", salt="1", key="2"),
    "PBKDF2_SHA1": dict(prims={("pbkdf2", "sha1")}, kind="pbkdf2", cost="0", salt="1", key="2"),
    "PBKDF2_SHA512": dict(prims={("pbkdf2", "sha512")}, kind="pbkdf2", cost="0", salt="1", key="2"),
    "SHA1": dict(prims={("digest", "sha1")}, kind="digest", key="0"),
    "SSHA1": dict(prims={("digest", "sha1")}, kind="digest", salt="0", key="1"),
    "SHA256": dict(prims={("digest", "sha256")}, kind="digest", key="0"),
    "SSHA256": dict(prims={("digest", "sha256")}, kind="digest", salt="0", key="1"),
    "SHA512": dict(prims={("digest", "sha512")}, kind="digest", key="0"),
    "SSHA512": dict(prims={("digest", "sha512")}, kind="digest", salt="0", key="1"),
    "NT_MD4": dict(prims={("digest", "md4")}, kind="digest", key="0", utf16le=True),
    "CRYPT_MD5": dict(prims={("md5crypt",)}, kind="md5crypt", salt="s", key="h"),
    "CRYPT_SHA256": dict(prims={("shacrypt", "256")}, kind="shacrypt", key="h"),
    "CRYPT_SHA512": dict(prims={("shacrypt", "512")}, kind="shacrypt", key="h"),
}

TRANSPARENT = {"as_slice", "as_ref", "as_bytes", "as_str", "to_vec", "clone", "to_owned", "into_bytes", "borrow", "deref", "as_mut_slice", "into", "as_mut", "to_string", "as_deref"}


def kdf_sites(body):
    """[(variant, node)] construction sites of Kdf variants under body"""
    out = []
    for n in walk(body):
        if n.get("e") in ("call", "struct"):
            d = def_of(n)
            if d.startswith(K + "::"):
                out.append((last_seg(d), n))
    return out


def base_local(e):
    """local id at the bottom of a chain of method receivers / & / *"""
    e = unwrap(e)
    for _ in range(8):
        if isinstance(e, dict) and e.get("e") == "mcall":
            e = unwrap(e["recv"])
        else:
            break
    if isinstance(e, dict) and e.get("e") == "path" and "local" in e.get("res", {}):
        return e["res"]["local"]
    return None


def order_tags(tags):
    pri = {"prefix": 0, "fmt": 1, "eq": 2}
    return sorted(tags, key=lambda t: (pri.get(t[0], 9), str(sorted(t[1])) if isinstance(t[1], frozenset) else t[1]))


# ---- (1) format table -----------------------------------------------------------------------------------------------------------------------

def format_rows(ctx, F):
    """rows: [(key, variant, fn, site_node, same_subject, rec)] — one per (tag path, construction site).
    The tag path of a site = the textual tests implied at every call site on the way from TryFrom<&str>::try_from (outermost first)
    followed by the tests implied at the site itself; exact-name tests (`match fmt { "a" | "b" => .. }`) on the same string are
    intersected across the helper boundary."""
    ctx.fn(CRY, TRY_FROM)
    family = {}
    order = [TRY_FROM]
    edges = {}      # callee fn -> [(caller fn, call node)]
    while order:
        name = order.pop(0)
        if name in family:
            continue
        rec = F.fn(CRY, name)
        if rec is None:
            continue
        family[name] = rec
        ctx.analysed_fns.add(name)
        for c in all_calls(rec["body"]):
            if c.get("e") != "call" or c.get("exp"):
                continue
            cal = c.get("callee") or ""
            if cal.startswith(CRY + "::") and "Result<Password" in (c.get("ty") or ""):
                edges.setdefault(cal, []).append((name, c))
                order.append(cal)

    def tags_at(rec, pred):
        binds = pc.collect_binds(rec["body"])
        out = []
        for site, conds in pc.site_conditions(rec["body"], pred):
            lits = pc.implied(conds, binds)
            out.append((site, order_tags(G.site_tags(lits))))
        return out

    call_tags = {}  # (caller, id(call node)) -> tags
    for lst in edges.values():
        for caller, node in lst:
            if (caller, id(node)) not in call_tags:
                res = tags_at(family[caller], lambda n, node=node: n is node)
                call_tags[(caller, id(node))] = res[0][1] if res else []

    def paths_to(fn, depth=0):
        """every chain of (caller, call node) leading from try_from to `fn`, outermost first"""
        if fn == TRY_FROM:
            return [[]]
        out = []
        if depth > 4:
            return out
        for caller, node in edges.get(fn, []):
            for chain in paths_to(caller, depth + 1):
                out.append(chain + [(caller, node)])
        return out

    flows = {fn: Flow(rec) for fn, rec in family.items()}
    rows = []
    lowercase_ok = {}
    for fn, rec in family.items():
        sites = tags_at(rec, lambda n: n.get("e") in ("call", "struct") and def_of(n).startswith(K + "::"))
        for site, own in sites:
            variant = last_seg(def_of(site))
            for chain in paths_to(fn):
                scoped = []     # (scope fn, call node that leads to the next scope | None, tag)
                for (caller, node) in chain:
                    scoped.extend((caller, node, t) for t in call_tags[(caller, id(node))])
                scoped.extend((fn, None, t) for t in own)
                tokens_, eff, same_subject, prev_fmt = [], None, True, None
                for (scope, node, t) in scoped:
                    if t[0] == "prefix":
                        tokens_.append(t[1])
                    elif t[0] == "eq":
                        tokens_.append("=" + t[1])
                    elif t[0] == "fmt":
                        if prev_fmt is None:
                            tokens_.append(None)        # placeholder for the format name
                            eff = set(t[1])
                            lowered = any(x.get("e") == "mcall" and last_seg(x.get("callee") or "") in ("to_lowercase", "to_ascii_lowercase")
                                          for n0 in fl_expand_expr(flows[scope], t[2]) for x in walk(n0))
                            lowercase_ok[(scope, id(t[2]))] = (lowered, family[scope], t[2], t[1])
                        else:
                            eff &= set(t[1])
                            # the inner scrutinee must be the parameter that received the outer subject
                            p_scope, p_node, p_tag = prev_fmt
                            r, _ch = flows[scope].trace(t[2])
                            same = False
                            if scope != p_scope and p_node is not None and r[0] == "param" and r[1] < len(p_node.get("args", [])):
                                bl = base_local(p_node["args"][r[1]])
                                same = bl is not None and bl == base_local(p_tag[2])
                            elif scope == p_scope:
                                same = base_local(t[2]) is not None and base_local(t[2]) == base_local(p_tag[2])
                            same_subject = same_subject and same
                        prev_fmt = (scope, node, t)
                if eff is None:
                    keys = [" ".join(tokens_)]
                else:
                    keys = [" ".join(v if tk is None else tk for tk in tokens_) for v in sorted(eff)]
                for key in keys:
                    rows.append((key, variant, fn, site, same_subject, rec))
    return rows, lowercase_ok, family


def check_format_table(ctx, F):
    R = "K5-format-table"
    rows, lowercase_ok, family = format_rows(ctx, F)
    kdf = F.item(CRY, "enum", K)
    variants = [v["v"] for v in kdf["variants"]] if kdf else []
    ctx.floor(R, "Kdf variants", len(variants), 15)
    ctx.floor(R, "parser functions reachable from TryFrom<&str>", len(family), 7)
    ctx.floor(R, "format table rows", len({r[0] for r in rows}), len(EXPECTED_FORMATS))
    by_key = {}
    for (key, variant, fn, site, ok_subject, rec) in rows:
        by_key.setdefault(key, []).append((variant, fn, site, ok_subject, rec))
    for key, want in EXPECTED_FORMATS.items():
        got = by_key.get(key, [])
        if not got:
            ctx.violation(R, TRY_FROM, f"format:{key}", f"no construction site is reached under the tag path `{key}` any more: hashes in this format (supported per the property) "
                          f"are no longer parsed into Kdf::{want} — an independent implementation accepts them, kanidm rejects the import")
            continue
        vs = sorted({g[0] for g in got})
        g0 = got[0]
        ctx.check(vs == [want], R, g0[1], f"format:{key}", f"`{key}` -> Kdf::{want}",
                  f"the tag path `{key}` constructs Kdf::{vs} but this format is {want}: the stored hash would be verified with another algorithm than the one that produced it "
                  "(every cleartext is rejected, or worse, a different one accepted)", file=g0[4]["file"], line=g0[2].get("line"))
        ctx.check(all(g[3] for g in got), R, g0[1], f"format-subject:{key}", "helper matches on the same format string its caller matched",
                  f"the helper reached under `{key}` matches a format name on a value that is not the caller's format string (cannot compose the tables, fail closed)",
                  file=g0[4]["file"], line=g0[2].get("line"))
        ctx.sample(f"`{key}` -> Kdf::{vs}")
    for key, got in sorted(by_key.items()):
        if key in EXPECTED_FORMATS:
            continue
        vs = sorted({g[0] for g in got})
        if key.strip() == "" or key.strip() == "{":
            g0 = got[0]
            ctx.violation(R, g0[1], f"untagged:{'/'.join(vs)}", f"Kdf::{vs} is constructed on a path that tests no format tag (`{key}`): input with an unknown tag would be accepted as this algorithm "
                          "instead of being rejected", file=g0[4]["file"], line=g0[2].get("line"))
        else:
            ctx.notes.append(f"format tag path `{key}` -> Kdf::{vs} is not in the rule's expected table (extension; not checked against a reference)")
    for (f0, _), (ok, rec, subj, st) in sorted(lowercase_ok.items(), key=lambda kv: kv[0][0]):
        ctx.check(ok and all(x == x.lower() for x in st), R, f0, "format-name-case-insensitive", "format names are lower-cased before matching and all literals are lower case",
                  "the {FORMAT} name is no longer lower-cased before it is matched against lower-case literals: `{SSHA}` / `{ssha}` (389-DS writes upper case, OpenLDAP either) would not both parse",
                  file=rec["file"], line=subj.get("line"))
    return rows


# ---- parse fields ------------------------------------------------------------------------------------------------------------------------------

def ctor_args(site):
    """{field name: expr}"""
    if site.get("e") == "call":
        return {str(i): a for i, a in enumerate(site.get("args", []))}
    return {f["f"]: f["x"] for f in site.get("fields", [])}


def piece_index(fl, root):
    """(index literal, split char) when root is `X.split(c).collect()[i]`"""
    if root[0] != "node" or not isinstance(root[1], dict) or root[1].get("e") != "index":
        return None
    i = int_lit(root[1]["i"])
    _r2, ch2 = fl.trace(root[1]["x"])
    if "split" not in ch2:
        return None
    return i


def check_parse_fields(ctx, F, rows):
    R = "K5-parse-fields"
    done = set()
    n = 0
    for (key, variant, fn, site, _same_subject, rec) in rows:
        if key not in EXPECTED_FORMATS or (fn, id(site)) in done:
            continue
        done.add((fn, id(site)))
        fl = Flow(rec)
        args = ctor_args(site)
        loc = dict(file=rec["file"], line=site.get("line"))
        tr = {f: fl.trace(x) for f, x in args.items()}

        def outer(ch):
            """the part of a chain between the constructor argument and the decode of the input text"""
            return ch[:ch.index("decode")] if "decode" in ch else ch

        def desc(f):
            r, ch = tr[f]
            rr = r[0] if r[0] != "node" else (r[1].get("e") if isinstance(r[1], dict) else "?")
            return f"{rr}<-" + ".".join(ch)
        inst = f"{variant}@{key.split(' ')[0] if variant in ('NT_MD4',) else key}"
        if variant in ("PBKDF2", "PBKDF2_SHA1", "PBKDF2_SHA512"):
            django = key.startswith("pbkdf2_sha256$")
            want = {"0": 1, "1": 2, "2": 3} if django else {"0": 0, "1": 1, "2": 2}
            got = {f: piece_index(fl, tr[f][0]) for f in ("0", "1", "2") if f in tr}
            ok = got == want and "parse" in tr["0"][1] and "decode" in tr["2"][1] and (("decode" in tr["1"][1]) != django)
            n += 1
            ctx.check(ok, R, fn, f"fields:{inst}", f"cost/salt/hash <- '$'-separated pieces {want}",
                      f"Kdf::{variant}(cost, salt, hash) is filled from pieces {got} ({', '.join(desc(f) for f in sorted(tr))}); the format is "
                      + ("algo$cost$salt(raw)$base64(hash)" if django else "cost$ab64(salt)$ab64(hash)") +
                      f" i.e. pieces {want} with cost parsed as integer: the primitive would run with another cost / salt than the hash was made with", **loc)
        elif variant in ("SSHA1", "SSHA256", "SSHA512"):
            h = {"SSHA1": "sha1", "SSHA256": "sha256", "SSHA512": "sha512"}[variant]
            salt_ch = tr.get("0", (None, []))[1]
            hash_ch = tr.get("1", (None, []))[1]
            split = next((c for c in outer(salt_ch) if c.startswith("split_at")), None)
            split_ok = split is not None and ".1" in outer(salt_ch) and ".0" not in outer(salt_ch) and ".0" in outer(hash_ch) and ".1" not in outer(hash_ch) \
                and split in outer(hash_ch) and "decode" in salt_ch and "decode" in hash_ch
            # the split point
            at = None
            for x in walk(fl_expand_expr(fl, args.get("1"))):
                if x.get("e") == "mcall" and last_seg(x.get("callee") or "").startswith("split_at") and x.get("args"):
                    a0 = unwrap(x["args"][0])
                    at = int_lit(a0)
                    if at is None and a0.get("e") == "path" and "def" in a0.get("res", {}):
                        at = F.const_val(CRY, a0["res"]["def"])
            n += 1
            ctx.check(split_ok and at == DIGEST_LEN[h], R, fn, f"fields:{inst}", f"decoded blob split at {at}: digest first, salt after",
                      f"Kdf::{variant}(salt, hash) is filled with salt<-{desc('0') if '0' in tr else '?'} hash<-{desc('1') if '1' in tr else '?'} split at {at}; the {{SSHA*}} encoding is "
                      f"base64(digest || salt) with a {DIGEST_LEN[h]}-byte {h} digest: salt and digest would be swapped or cut at the wrong place", **loc)
        elif variant in ("SHA1", "SHA256", "SHA512"):
            r, ch = tr.get("0", (None, []))
            n += 1
            ctx.check("decode" in ch and not any(c.startswith("split") or c.startswith(".") for c in outer(ch)), R, fn, f"fields:{inst}", "hash <- base64 decode of the value",
                      f"Kdf::{variant}(hash) is filled from {desc('0') if '0' in tr else '?'}; expected the whole base64-decoded value", **loc)
        elif variant == "ARGON2ID":
            want = {"m_cost": "m", "t_cost": "t", "p_cost": "p"}
            got = {}
            for f in want:
                got[f] = None
                for x in walk(fl_expand_expr(fl, args.get(f))):
                    if x.get("e") == "mcall" and last_seg(x.get("callee") or "") in ("get_decimal", "get", "get_str") and x.get("args"):
                        got[f] = str_lit(x["args"][0])
            ver_def = F.const_val(CRY, "kanidm_lib_crypto::ARGON2_VERSION")
            ver_roots = fl.roots(args.get("version", {}))
            ver_ok = any(r[0] == "pat" and r[2] == "version" for r in ver_roots) and ver_def == 19
            salt_roots = fl.roots(args.get("salt", {}))
            key_roots = fl.roots(args.get("key", {}))
            io_ok = any(r[0] == "pat" and r[2] == "salt" for r in salt_roots) and any(r[0] == "pat" and r[2] == "hash" for r in key_roots)
            n += 1
            ctx.check(got == want and ver_ok and io_ok, R, fn, f"fields:{inst}", f"m/t/p <- PHC params {got}, version <- PHC version (default {ver_def}), salt/key <- PHC salt/hash",
                      f"Kdf::ARGON2ID fields are filled from PHC parameters {got} (expected {want}), version from the PHC version with default {ver_def} (expected 19 = 0x13): {ver_ok}, "
                      f"salt/key from the PHC salt/hash: {io_ok} — argon2 would run with other parameters than the hash was made with", **loc)
        elif variant == "CRYPT_MD5":
            s_ch = tr.get("s", (None, []))[1]
            h_ch = tr.get("h", (None, []))[1]
            n += 1
            ctx.check(".0" in s_ch and ".1" in h_ch and any(c.startswith("split_once") for c in s_ch) and "strip_prefix" in s_ch, R, fn, f"fields:{inst}",
                      "salt/hash <- `$1$salt$hash` split once at '$'",
                      f"Kdf::CRYPT_MD5{{s,h}} is filled with s<-{desc('s') if 's' in tr else '?'} h<-{desc('h') if 'h' in tr else '?'}; md5-crypt is `$1$<salt>$<hash>`", **loc)
        elif variant in ("CRYPT_SHA256", "CRYPT_SHA512"):
            r, ch = tr.get("h", (None, []))
            n += 1
            ctx.check(r is not None and r[0] == "param" and set(ch) <= TRANSPARENT, R, fn, f"fields:{inst}", "h <- the whole `$5$/$6$...` string",
                      f"Kdf::{variant}{{h}} is filled from {desc('h') if 'h' in tr else '?'}; sha-crypt's check function needs the complete `$N$rounds=..$salt$hash` string", **loc)
        elif variant == "NT_MD4":
            r, ch = tr.get("0", (None, []))
            n += 1
            ctx.check(r is not None and r[0] == "param" and "decode" in ch, R, fn, f"fields:{inst}", "hash <- decoded value",
                      f"Kdf::NT_MD4(hash) is filled from {desc('0') if '0' in tr else '?'}; expected the decoded (base64 / hex) NT hash", **loc)
    ctx.floor(R, "parsed construction sites checked", n, 16)


def fl_expand_expr(fl, e, depth=8):
    """nodes of `e` plus the initialisers of every let-bound local it (transitively) mentions"""
    if e is None:
        return []
    out = [e]
    seen = set()
    frontier = [e]
    while frontier and depth > 0:
        depth -= 1
        nxt = []
        for x in frontier:
            for n in walk(x):
                if n.get("e") == "path" and "local" in n.get("res", {}):
                    s = fl.src.get(n["res"]["local"])
                    if s and s[0] == "let" and n["res"]["local"] not in seen:
                        seen.add(n["res"]["local"])
                        nxt.append(s[1])
        out.extend(nxt)
        frontier = nxt
    return out


# ---- (2)(3) verify table ------------------------------------------------------------------------------------------------------------------------

def primitives_in(ctx, F, fn_name, body):
    """[(signature tuple, node)]"""
    out = []
    for c in walk(body):
        if c.get("e") not in ("call", "mcall") or c.get("exp"):
            continue
        names = callee_any(c)
        if any(ends(n, "pbkdf2::pbkdf2_hmac", "pbkdf2::pbkdf2_hmac_array", "pbkdf2::pbkdf2") for n in names):
            t = G.mir_type_arg(F, CRY, fn_name, c, last_seg(c.get("callee") or ""))
            out.append((("pbkdf2", hash_of_type(t) or "?"), c))
        elif any(n == MD5CRYPT for n in names):
            out.append((("md5crypt",), c))
        elif any(n.startswith("sha_crypt::") for n in names):
            nm = last_seg(c.get("callee") or "")
            m = re.match(r"sha(\d+)_(check)$", nm)
            out.append((("shacrypt", m.group(1)) if m else ("shacrypt", "?" + nm), c))
        elif any(ends(n, "argon2::Argon2::<'key>::new", "Argon2::new") or re.search(r"argon2::Argon2(::<[^>]*>)?::new$", n) for n in names):
            a0 = unwrap(c["args"][0]) if c.get("args") else {}
            out.append((("argon2", last_seg(def_of(a0)) or "?"), c))
        elif any(last_seg(n) == "hmac_s256" for n in names):
            out.append((("hsm-hmac",), c))
        elif c.get("e") == "mcall" and last_seg(c.get("callee") or "").startswith("finalize") and hash_of_type(c.get("recv_ty", "")):
            rt = c.get("recv_ty", "")
            out.append((("hmac" if is_hmac_type(rt) else "digest", hash_of_type(rt)), c))
        elif c.get("e") == "call" and any(ends(n, "digest::digest::Digest::digest", "Digest::digest") for n in names):
            t = G.mir_type_arg(F, CRY, fn_name, c, "digest")
            out.append((("digest", hash_of_type(t) or "?"), c))
    return out


def check_verify_table(ctx, F):
    R = "K5-verify-table"
    rec = ctx.fn(CRY, VERIFY_CTX)
    fl = Flow(rec)
    loc0 = dict(file=rec["file"], line=rec["line"])
    clear_i = [i for i, p in enumerate(rec["params"]) if p["ty"] == "&str"]
    if not ctx.check(len(clear_i) == 1, R, VERIFY_CTX, "signature", "verify_ctx(&self, cleartext: &str, hsm)", f"verify_ctx's parameters changed: {[p['ty'] for p in rec['params']]}", **loc0):
        return
    CLEAR = ("param", clear_i[0])
    m = None
    for n in walk(rec["body"]):
        if n.get("e") == "match" and n.get("src") == "Normal" and "Kdf" in n.get("scrut_ty", ""):
            m = n
            break
    if not ctx.check(m is not None, R, VERIFY_CTX, "table-found", "match over self.material", "verify_ctx is no longer a match over the Kdf (shape not understood, fail closed)", **loc0):
        return
    kdf = F.item(CRY, "enum", K)
    variants = [v["v"] for v in kdf["variants"]] if kdf else []
    arms_of = {}
    for a in m["arms"]:
        vs = sorted({last_seg(t[4:]) for t in tokens(a["pat"]) if t.startswith("def:" + K + "::")})
        for v in vs:
            arms_of.setdefault(v, []).append(a)
    ctx.floor(R, "Kdf variants with a verify arm", len(arms_of), 15)

    # no unconditional acceptance anywhere in the function
    for n in walk(rec["body"]):
        if n.get("e") == "call" and n.get("ctor") and ends(n["ctor"], "Result::Ok") and n.get("args") and not n.get("exp"):
            a = unwrap(n["args"][0])
            if a.get("e") == "lit" and str(a.get("v")) == "true":
                ctx.violation(R, VERIFY_CTX, "no-unconditional-accept", f"verify_ctx returns Ok(true) as a literal (line {n.get('line')}): a cleartext is accepted without any comparison with the stored hash",
                              file=rec["file"], line=n.get("line"))
    ctx.ok(R, VERIFY_CTX, "no-unconditional-accept-scan", "scanned for literal Ok(true)")

    for v in variants:
        spec = VERIFY_SPEC.get(v)
        arms = arms_of.get(v, [])
        if spec is None:
            ctx.notes.append(f"Kdf::{v} has no entry in the rule's VERIFY_SPEC (new variant; not checked against a reference)")
            continue
        if not ctx.check(bool(arms), R, VERIFY_CTX, f"arm:{v}", f"Kdf::{v} has a verify arm", f"Kdf::{v} has no dedicated arm in verify_ctx (shape not understood)", **loc0):
            continue
        # the arm that computes (TPM_ARGON2ID has a second arm returning Err when no HSM is supplied)
        cands = [a for a in arms if primitives_in(ctx, F, VERIFY_CTX, a["body"])]
        others = [a for a in arms if a not in cands]
        for a in others:
            yields_ok = any(n.get("e") == "call" and n.get("ctor") and ends(n["ctor"], "Result::Ok") and not n.get("exp") for n in walk(a["body"]))
            ctx.check(not yields_ok, R, VERIFY_CTX, f"no-primitive-arm-is-error:{v}", "an arm without a primitive only returns Err",
                      f"an arm for Kdf::{v} returns Ok(..) without running any hash primitive", file=rec["file"], line=a["body"].get("line"))
        if len(cands) != 1:
            ctx.violation(R, VERIFY_CTX, f"primitive:{v}", f"Kdf::{v}: {len(cands)} arms run a hash primitive, expected exactly one (no primitive at all means nothing is verified)", **loc0)
            continue
        check_arm(ctx, F, rec, fl, v, spec, cands[0], CLEAR)


def root_is(fl, e, want, allowed=TRANSPARENT):
    r, ch = fl.trace(e)
    return r == want and set(ch) <= allowed, r, ch


def fmt_trace(r, ch):
    rr = r[0] if r[0] != "node" else ("<" + str(r[1].get("e") if isinstance(r[1], dict) else "?") + ">")
    if r[0] == "pat":
        rr = f"field {r[2]}"
    if r[0] == "param":
        rr = f"param{r[1]}"
    return rr + ("." + ".".join(reversed(ch)) if ch else "")


def check_arm(ctx, F, rec, fl, v, spec, arm, CLEAR):
    R = "K5-verify-table"
    body = arm["body"]
    loc = dict(file=rec["file"], line=body.get("line") or rec["line"])
    KV = K + "::" + v
    prims = primitives_in(ctx, F, VERIFY_CTX, body)
    sigs = {p[0] for p in prims}
    ctx.check(sigs == spec["prims"], R, VERIFY_CTX, f"primitive:{v}", f"Kdf::{v} -> {sorted(sigs)}",
              f"the arm for Kdf::{v} runs {sorted(sigs)}; this format is defined by {sorted(spec['prims'])}: the computed value can never equal a hash produced by an independent implementation "
              "of the format (or equals one produced by a different algorithm)", **loc)
    pat = lambda f: ("pat", KV, f)
    kind = spec["kind"]
    out_exprs = []      # expressions denoting the computed value
    inputs_ok, found = True, []

    def need(cond, what):
        nonlocal inputs_ok
        if not cond:
            inputs_ok = False
        found.append(("" if cond else "!! ") + what)

    if kind == "pbkdf2":
        for sig, c in prims:
            if sig[0] != "pbkdf2":
                continue
            a = c.get("args", [])
            if len(a) != 4:
                need(False, f"pbkdf2 call with {len(a)} args")
                continue
            ok0, r0, c0 = root_is(fl, a[0], CLEAR)
            ok1, r1, c1 = root_is(fl, a[1], pat(spec["salt"]))
            ok2, r2, c2 = root_is(fl, a[2], pat(spec["cost"]), set())
            need(ok0, "password=" + fmt_trace(r0, c0))
            need(ok1, "salt=" + fmt_trace(r1, c1))
            need(ok2, "rounds=" + fmt_trace(r2, c2))
            out_exprs.append(("buffer", a[3]))
    elif kind == "digest":
        for sig, c in prims:
            if sig[0] != "digest":
                continue
            feeds = digest_feeds(fl, body, c)
            seq = []
            for a_ in feeds:
                r, ch = fl.trace(a_)
                if r == CLEAR and spec.get("utf16le"):
                    le = any(x.get("e") == "mcall" and last_seg(callee_of(x) or "") == "to_le_bytes" for n_ in fl_expand_expr(fl, a_) for x in walk(n_))
                    seq.append("cleartext-utf16le" if ("encode_utf16" in ch and le) else "cleartext:" + ".".join(ch))
                elif r == CLEAR and set(ch) <= TRANSPARENT:
                    seq.append("cleartext")
                elif "salt" in spec and r == pat(spec["salt"]) and set(ch) <= TRANSPARENT:
                    seq.append("salt")
                else:
                    seq.append(fmt_trace(r, ch))
            want = (["cleartext-utf16le"] if spec.get("utf16le") else ["cleartext"]) + (["salt"] if "salt" in spec else [])
            if "salt" in spec:
                ctx.check(seq == want, "salt-order", VERIFY_CTX, f"salt-order:{v}", "hash(password || salt)",
                          f"the arm for Kdf::{v} feeds the digest with {seq}; OpenLDAP / 389-DS salted digests are H(password || salt) (password first, then salt): "
                          "every imported salted hash would stop verifying", **loc)
            need(seq == want, "digest input " + str(seq))
            out_exprs.append(("value", c))
    elif kind == "md5crypt":
        for sig, c in prims:
            if sig[0] != "md5crypt":
                continue
            a = c.get("args", [])
            ok0, r0, c0 = root_is(fl, a[0], CLEAR) if len(a) == 2 else (False, ("node", {}), [])
            ok1, r1, c1 = root_is(fl, a[1], pat(spec["salt"])) if len(a) == 2 else (False, ("node", {}), [])
            need(ok0, "password=" + fmt_trace(r0, c0))
            need(ok1, "salt=" + fmt_trace(r1, c1))
            out_exprs.append(("value", c))
    elif kind == "shacrypt":
        for sig, c in prims:
            if sig[0] != "shacrypt":
                continue
            a = c.get("args", [])
            ok0, r0, c0 = root_is(fl, a[0], CLEAR) if len(a) == 2 else (False, ("node", {}), [])
            ok1, r1, c1 = root_is(fl, a[1], pat(spec["key"])) if len(a) == 2 else (False, ("node", {}), [])
            need(ok0, "password=" + fmt_trace(r0, c0))
            need(ok1, "hash string=" + fmt_trace(r1, c1))
            out_exprs.append(("libcheck", c))
    elif kind == "argon2":
        news = [c for sig, c in prims if sig[0] == "argon2"]
        params_calls = [c for c in walk(body) if c.get("e") == "call" and ends(c.get("callee") or "", "argon2::params::Params::new")]
        hp = [c for c in walk(body) if c.get("e") == "mcall" and last_seg(c.get("callee") or "") == "hash_password_into"]
        need(len(news) == 1 and len(params_calls) == 1 and len(hp) == 1, f"Argon2::new x{len(news)}, Params::new x{len(params_calls)}, hash_password_into x{len(hp)}")
        if len(news) == 1 and len(params_calls) == 1 and len(hp) == 1:
            pa = params_calls[0].get("args", [])
            for i, f in enumerate(("m_cost", "t_cost", "p_cost")):
                ok, r, ch = root_is(fl, pa[i], pat(f), set()) if len(pa) == 4 else (False, ("node", {}), [])
                need(ok, f"{f}=" + fmt_trace(r, ch))
            if len(pa) == 4:
                r, ch = fl.trace(pa[3])
                need(r == pat(spec["key"]) and ch and ch[-1] == "len" and set(ch) <= {"Some", "len"} | TRANSPARENT, "output_len=" + fmt_trace(r, ch))
            na = news[0].get("args", [])
            if len(na) == 3:
                r, ch = fl.trace(na[1])
                need(r == pat("version") and set(ch) <= {"try_into", "map_err", "?", "into", "try_from"}, "version=" + fmt_trace(r, ch))
                r, ch = fl.trace(na[2])
                need(r[0] == "node" and r[1] is params_calls[0] and set(ch) <= {"map_err", "?"}, "params=" + fmt_trace(r, ch))
            else:
                need(False, "Argon2::new arity")
            h = hp[0]
            r, ch = fl.trace(h["recv"])
            need(r[0] == "node" and r[1] is news[0], "hasher=" + fmt_trace(r, ch))
            ha = h.get("args", [])
            if len(ha) == 3:
                ok0, r0, c0 = root_is(fl, ha[0], CLEAR)
                ok1, r1, c1 = root_is(fl, ha[1], pat(spec["salt"]))
                need(ok0, "password=" + fmt_trace(r0, c0))
                need(ok1, "salt=" + fmt_trace(r1, c1))
                out_exprs.append(("buffer", ha[2]))
            else:
                need(False, "hash_password_into arity")
        if ("hsm-hmac",) in spec["prims"]:
            hs = [c for sig, c in prims if sig[0] == "hsm-hmac"]
            need(len(hs) == 1, f"hsm hmac x{len(hs)}")
            if len(hs) == 1 and out_exprs:
                # the HSM MACs the argon2 output; the MAC is what is compared
                buf_local = fl.local_of(base_expr(out_exprs[-1][1]))
                a = hs[0].get("args", [])
                need(len(a) == 2 and fl.local_of(base_expr(a[1])) == buf_local and buf_local is not None, "hsm input is the argon2 output")
                out_exprs = [("hsmvalue", hs[0])] + [("buffer-internal", out_exprs[-1][1])]
    ctx.check(inputs_ok, R, VERIFY_CTX, f"inputs:{v}", "; ".join(found)[:300],
              f"the arm for Kdf::{v} does not feed the primitive with (cleartext, stored salt / cost / parameters): " + "; ".join(found)[:400] +
              " — the stored parameters must be the ones the primitive runs with, else the computed hash differs from the one an independent implementation computes", **loc)

    # output buffer sized by the stored hash
    for kind_, e in out_exprs:
        if kind_ in ("buffer", "buffer-internal"):
            bl = fl.local_of(base_expr(e))
            s = fl.src.get(bl) if bl is not None else None
            sized = False
            if s and s[0] == "let":
                for x in walk(fl_expand_expr(fl, s[1])):
                    if x.get("e") == "mcall" and last_seg(x.get("callee") or "") == "len":
                        r, ch = fl.trace(x["recv"])
                        if r == pat(spec["key"]) and set(ch) <= TRANSPARENT:
                            sized = True
            ctx.check(sized, R, VERIFY_CTX, f"outlen:{v}", "output buffer length = stored hash length",
                      f"the arm for Kdf::{v} sizes the derived-key buffer independently of the stored hash's length: imported hashes of another length (e.g. 20-byte PBKDF2-SHA1, 64-byte PBKDF2-SHA512) "
                      "could never compare equal", **loc)

    # comparison
    verdicts = compare_sites(fl, rec, arm)
    cmp_ok = bool(verdicts)
    why = []
    for (kind_c, node) in verdicts:
        if kind_c == "eq":
            l, r = node
            sides = [side_info(fl, l), side_info(fl, r)]
            stored = [s for s in sides if s["root"] == pat(spec["key"]) and s["clean"]]
            comp = [s for s in sides if computed_matches(fl, s, out_exprs)]
            if not (len(stored) == 1 and len(comp) == 1 and stored[0] is not comp[0]):
                cmp_ok = False
                why.append("compares " + " with ".join(fmt_trace(s["root"], s["chain"]) + ("" if s["clean"] else " [sliced/truncated]") for s in sides))
        elif kind_c == "libcheck":
            if not any(k == "libcheck" and e is node for k, e in out_exprs):
                cmp_ok = False
                why.append("is_ok() of something that is not the library check of this format")
        else:
            cmp_ok = False
            why.append(str(kind_c))
    ctx.check(cmp_ok, R, VERIFY_CTX, f"compare:{v}", "Ok(true) only through equality of the whole computed value with the whole stored hash",
              f"the arm for Kdf::{v} does not decide by `computed == stored` over the complete values ({'; '.join(why) or 'no comparison recognised'}): a prefix / partial / missing comparison accepts "
              "cleartexts an independent implementation rejects (or rejects valid ones)", **loc)
    ctx.sample(f"Kdf::{v} -> {sorted(sigs)}; " + "; ".join(found)[:160])


def digest_feeds(fl, body, fin):
    """The data fed to a digest, in order, for `fin` = `<hasher>.finalize()` or a one-shot `H::digest(data)`:
    `H::new()` / `new_with_prefix(p)`, then statement-level `hasher.update(x)` calls on the hasher local (source order),
    then `.chain_update(x)` links between the local / constructor and finalize."""
    if fin.get("e") == "call":
        return list(fin.get("args", []))
    chained = []
    cur = unwrap(fin["recv"])
    while isinstance(cur, dict) and cur.get("e") == "mcall" and last_seg(cur.get("callee") or "") in ("chain_update", "chain"):
        chained.insert(0, cur["args"][0] if cur.get("args") else {})
        cur = unwrap(cur["recv"])
    feeds = []
    hl = fl.local_of(cur)
    base = cur
    if hl is not None:
        s_ = fl.src.get(hl)
        base = unwrap(s_[1]) if s_ and s_[0] == "let" else None
        for u in walk(body):
            if u is fin:
                break
            if u.get("e") == "mcall" and last_seg(u.get("callee") or "") in ("update", "chain_update") and fl.local_of(u["recv"]) == hl and u.get("args"):
                feeds.append(u["args"][0])
        # updates after finalize in source order would be a different shape: report them as extra feeds
        after = False
        for u in walk(body):
            if u is fin:
                after = True
            elif after and u.get("e") == "mcall" and last_seg(u.get("callee") or "") == "update" and fl.local_of(u["recv"]) == hl:
                feeds.append({"e": "other", "what": "update-after-finalize"})
        # an initialiser that itself chains updates
        while isinstance(base, dict) and base.get("e") == "mcall" and last_seg(base.get("callee") or "") in ("chain_update", "chain"):
            feeds.insert(0, base["args"][0] if base.get("args") else {})
            base = unwrap(base["recv"])
    if isinstance(base, dict) and base.get("e") == "call" and last_seg(base.get("callee") or "") == "new_with_prefix" and base.get("args"):
        feeds.insert(0, base["args"][0])
    elif not (isinstance(base, dict) and base.get("e") == "call" and last_seg(base.get("callee") or "") in ("new", "default")):
        feeds.insert(0, {"e": "other", "what": "hasher-of-unknown-origin"})
    return feeds + chained


def base_expr(e):
    """strip &, &mut, as_mut_slice()/as_slice() to reach the buffer expression"""
    e = unwrap(e)
    for _ in range(4):
        if isinstance(e, dict) and e.get("e") == "mcall" and last_seg(e.get("callee") or "") in ("as_mut_slice", "as_slice", "as_mut", "as_ref", "deref_mut"):
            e = unwrap(e["recv"])
    return e


def side_info(fl, e):
    """one side of the final comparison: where it comes from, and whether only length-preserving adaptors were applied on the way
    (`trace` stops at index / slicing expressions, so a sliced side never reaches a stored field or a computed value)"""
    r, ch = fl.trace(e, stop_at_mut=True)
    clean = all(c in TRANSPARENT or c == "?" for c in ch)
    return dict(root=r, chain=ch, clean=clean, expr=e, local=fl.local_of(e))


def finalize_on_path(fl, e, fin, depth=16):
    """`e` is `fin` seen through transparent wrappers / let-bound locals"""
    while depth > 0:
        depth -= 1
        e = unwrap(e)
        if e is fin:
            return True
        if not isinstance(e, dict):
            return False
        if e.get("e") == "mcall" and last_seg(e.get("callee") or "") in TRANSPARENT:
            e = e["recv"]
            continue
        if e.get("e") == "path" and "local" in e.get("res", {}):
            s_ = fl.src.get(e["res"]["local"])
            if s_ and s_[0] == "let" and not s_[2] and e["res"]["local"] not in fl.mut:
                e = s_[1]
                continue
        return False
    return False


def computed_matches(fl, side, out_exprs):
    """does this side of the comparison denote the value the primitive computed?"""
    r = side["root"]
    for kind_, e in out_exprs:
        if kind_ == "value":
            if e.get("e") == "mcall" and last_seg(e.get("callee") or "").startswith("finalize"):
                # the side must pass through exactly this finalize() call
                if finalize_on_path(fl, side["expr"], e):
                    return True
            elif r[0] == "node" and r[1] is e and side["clean"]:
                return True
        elif kind_ == "hsmvalue":
            # `.map(|mac| mac.into_bytes().as_slice() == key)` at the end of the Result chain that contains the HSM call
            if r[0] == "cparam" and side["clean"]:
                clo = r[1]
                for n in walk(fl.rec["body"]):
                    if n.get("e") == "mcall" and (n.get("callee") or "").startswith("core::result::Result::<T, E>::") and last_seg(n["callee"]) == "map" \
                            and n.get("args") and unwrap(n["args"][0]) is clo and any(x is e for x in walk(n["recv"])):
                        return True
            if r[0] == "node" and r[1] is e:
                return True
        elif kind_ == "buffer":
            bl = fl.local_of(base_expr(e))
            if bl is not None and r == ("mutlocal", bl) and side["clean"]:
                return True
    return False


def compare_sites(fl, rec, arm):
    """How does the arm produce its verdict?  [('eq', (l, r)) | ('libcheck', call) | ('other', desc)] for every Ok-valued result."""
    out = []
    body = arm["body"]
    results = [G_tail(body)] + [n["x"] for n in walk(body, into_closures=False) if n.get("e") == "ret" and not n.get("exp") and "x" in n]
    for res in results:
        res = unwrap(res)
        if res is None:
            continue
        if res.get("e") == "call" and res.get("ctor") and ends(res["ctor"], "Result::Err"):
            continue
        if res.get("e") == "call" and res.get("ctor") and ends(res["ctor"], "Result::Ok") and res.get("args"):
            out.extend(bool_verdict(fl, res["args"][0]))
            continue
        # Result combinator chain ending in .map(|..| <bool>)
        cur = res
        found = False
        for _ in range(8):
            if cur.get("e") == "mcall" and (cur.get("callee") or "").startswith("core::result::Result::<T, E>::"):
                nm = last_seg(cur["callee"])
                if nm == "map" and cur.get("args") and unwrap(cur["args"][0]).get("e") == "closure" and "bool" in (cur.get("ty") or ""):
                    out.extend(bool_verdict(fl, unwrap(cur["args"][0])["body"]))
                    found = True
                    break
                cur = unwrap(cur["recv"])
            else:
                break
        if not found:
            out.append(("result expression not understood: " + ex_s(res)[:80], res))
    return out


def G_tail(body):
    b = unwrap(body)
    if b.get("e") == "blockexpr":
        return b["b"].get("tail")
    return b


def bool_verdict(fl, e):
    e0 = unwrap(e)
    # closure / block bodies: take the tail
    for _ in range(4):
        if e0.get("e") == "blockexpr" and "tail" in e0["b"]:
            e0 = unwrap(e0["b"]["tail"])
    if e0.get("e") == "bin" and e0.get("op") == "==":
        return [("eq", (e0["l"], e0["r"]))]
    if e0.get("e") == "mcall" and last_seg(e0.get("callee") or "") in ("eq", "ct_eq") and e0.get("args"):
        return [("eq", (e0["recv"], e0["args"][0]))]
    if e0.get("e") == "path" and "local" in e0.get("res", {}):
        s = fl.src.get(e0["res"]["local"])
        if s and s[0] == "let" and not s[2]:
            return bool_verdict(fl, s[1])
    if e0.get("e") == "mcall" and last_seg(e0.get("callee") or "") == "is_ok" and (e0.get("callee") or "").startswith("core::result::Result"):
        r = unwrap(e0["recv"])
        if r.get("e") == "call":
            return [("libcheck", r)]
    if e0.get("e") == "lit":
        return [("literal " + str(e0.get("v")), e0)] if str(e0.get("v")) == "true" else []
    return [("verdict not understood: " + ex_s(e0)[:80], e0)]


# ---- cleartext length ---------------------------------------------------------------------------------------------------------------------------

def check_cleartext_cap(ctx, F):
    R = "K4-cleartext-length"
    rec = ctx.fn(CRY, VERIFY_CTX)
    fl = Flow(rec)
    clear_i = [i for i, p in enumerate(rec["params"]) if p["ty"] == "&str"]
    if not clear_i:
        return
    CLEAR = ("param", clear_i[0])
    binds = pc.collect_binds(rec["body"])

    def is_ok_false(n):
        if n.get("e") == "call" and n.get("ctor") and ends(n["ctor"], "Result::Ok", "Result::Err") and n.get("args") and not n.get("exp"):
            a = unwrap(n["args"][0])
            return ends(n["ctor"], "Result::Err") or (a.get("e") == "lit" and str(a.get("v")) == "false")
        return False
    hits = []
    for site, conds in pc.site_conditions(rec["body"], is_ok_false):
        lits = pc.implied(conds, binds)
        for (pol, leaf) in lits.values():
            if leaf[1] != "expr":
                continue
            e = unwrap(leaf[2])
            if e.get("e") == "bin" and e.get("op") in (">", ">=", "<", "<="):
                for side in ("l", "r"):
                    x = unwrap(e[side])
                    if x.get("e") == "mcall" and last_seg(x.get("callee") or "") in ("len", "count"):
                        r, _ch = fl.trace(x["recv"])
                        # effective relation `len(cleartext) > cap` at this site (too long), whatever way it is written
                        op = e["op"] if side == "l" else {">": "<", ">=": "<=", "<": ">", "<=": ">="}[e["op"]]
                        if not pol:
                            op = {">": "<=", ">=": "<", "<": ">=", "<=": ">"}[op]
                        if r == CLEAR and op in (">", ">="):
                            cap = None
                            for y in walk(e):
                                if y.get("e") == "path" and "def" in y.get("res", {}):
                                    cap = F.const_val(CRY, y["res"]["def"])
                                elif int_lit(y) is not None:
                                    cap = int_lit(y)
                            hits.append((site.get("line"), ("" if pol else "not ") + ex_s(e), cap))
    caps = sorted({str(h[2]) for h in hits})
    ctx.check(not hits, R, VERIFY_CTX, "rejects-cleartext-longer-than-cap", "no cleartext is refused because of its length",
              "verify_ctx answers `not valid` depending on the cleartext's length alone (" + "; ".join(sorted({h[1] for h in hits}))[:200] + f", cap = {caps} bytes) before the stored hash is consulted: "
              "an independent implementation of any of the formats accepts the correct password whatever its length, so a (necessarily imported) hash of a longer password can never be verified; "
              "the property's quantifier includes cleartext length extremes",
              file=rec["file"], line=hits[0][0] if hits else rec["line"])


# ---- generators -----------------------------------------------------------------------------------------------------------------------------------

def check_generators(ctx, F):
    R = "K5-generate"
    # new_pbkdf2
    name = "kanidm_lib_crypto::Password::new_pbkdf2"
    rec = ctx.fn(CRY, name)
    fl = Flow(rec)
    prims = primitives_in(ctx, F, name, rec["body"])
    sites = kdf_sites(rec["body"])
    ok = {p[0] for p in prims} == {("pbkdf2", "sha256")} and [s[0] for s in sites] == ["PBKDF2"]
    detail = f"primitives {sorted(p[0] for p in prims)}, constructs {[s[0] for s in sites]}"
    if ok:
        c = prims[0][1]
        a = c.get("args", [])
        sa = ctor_args(sites[0][1])
        same = lambda x, y: (fl.local_of(base_expr(x)) is not None and fl.local_of(base_expr(x)) == fl.local_of(base_expr(y))) or (fl.trace(x) == fl.trace(y) and fl.trace(x)[0][0] != "node")
        ok = len(a) == 4 and fl.trace(a[0])[0][0] == "param" and "&str" in rec["params"][fl.trace(a[0])[0][1]]["ty"] and same(a[1], sa.get("1")) and same(a[2], sa.get("0")) and same(a[3], sa.get("2"))
        detail += "; stored (cost,salt,key) are the arguments of pbkdf2_hmac: " + str(ok)
    ctx.check(ok, R, name, "stores-what-it-hashed", detail,
              f"new_pbkdf2 does not store exactly the (cost, salt, derived key) it ran pbkdf2_hmac::<Sha256> with ({detail}): the generated hash would not verify (or verifies under other parameters than an "
              "independent implementation would use)", file=rec["file"], line=rec["line"])
    for name, variant in (("kanidm_lib_crypto::Password::new_argon2id", "ARGON2ID"), ("kanidm_lib_crypto::Password::new_argon2id_hsm", "TPM_ARGON2ID")):
        rec = ctx.fn(CRY, name)
        fl = Flow(rec)
        prims = primitives_in(ctx, F, name, rec["body"])
        sites = kdf_sites(rec["body"])
        want = {("argon2", "Argon2id")} | ({("hsm-hmac",)} if variant.startswith("TPM") else set())
        ok = {p[0] for p in prims} == want and [s[0] for s in sites] == [variant]
        detail = f"primitives {sorted(p[0] for p in prims)}, constructs {[s[0] for s in sites]}"
        if ok:
            new = next(c for sg, c in prims if sg[0] == "argon2")
            pr, pch = fl.trace(new["args"][2]) if len(new.get("args", [])) == 3 else (("node", {}), [])
            sa = ctor_args(sites[0][1])
            flows = []
            for f, getter in (("m_cost", "m_cost"), ("t_cost", "t_cost"), ("p_cost", "p_cost")):
                r, ch = fl.trace(sa.get(f, {}))
                flows.append(r == pr and ch[:1] == [getter] and [c for c in ch[1:] if c != "clone"] == [c for c in pch if c != "clone"])
            vr = fl.trace(sa.get("version", {}))[0]
            nvr = fl.trace(new["args"][1])[0] if len(new.get("args", [])) == 3 else ("n", {})
            ver_same = vr[0] == "node" and nvr[0] == "node" and vr[1] is nvr[1]
            hp = [c for c in walk(rec["body"]) if c.get("e") == "mcall" and last_seg(c.get("callee") or "") == "hash_password_into"]
            io = False
            if len(hp) == 1 and len(hp[0].get("args", [])) == 3:
                ha = hp[0]["args"]
                salt_same = fl.local_of(base_expr(ha[1])) is not None and fl.local_of(base_expr(ha[1])) == fl.local_of(base_expr(sa.get("salt", {})))
                if variant.startswith("TPM"):
                    key_same = any(r[0] == "call" and last_seg(r[1]) == "hmac_s256" for r in fl.roots(sa.get("key", {}))) or fl.trace(sa.get("key", {}))[0][0] == "cparam"
                else:
                    key_same = fl.local_of(base_expr(ha[2])) is not None and fl.local_of(base_expr(ha[2])) == fl.local_of(base_expr(sa.get("key", {})))
                io = salt_same and key_same and fl.trace(ha[0])[0][0] == "param"
            ok = all(flows) and ver_same and io
            detail += f"; m/t/p from the Params handed to Argon2::new: {flows}; version shared: {ver_same}; salt/key shared: {io}"
        ctx.check(ok, R, name, "stores-what-it-hashed", detail,
                  f"{last_seg(name)} does not store exactly the parameters / salt / key it ran argon2id with ({detail})", file=rec["file"], line=rec["line"])


def run(ctx):
    F = ctx.facts
    ctx.explanation = ("Structural clauses of password-format agreement: every textual tag path constructs the Kdf variant of the same algorithm with the parsed pieces in the right fields; verify_ctx runs the "
                       "same-named primitive on (cleartext, stored salt/cost/params), sizes the output by the stored hash and accepts only on whole-value equality; salted digests hash password then salt; "
                       "generators store what they hashed with. Primitives are trusted; output equality with independent implementations is not decided.")
    rows = check_format_table(ctx, F)
    check_parse_fields(ctx, F, rows)
    check_verify_table(ctx, F)
    check_cleartext_cap(ctx, F)
    check_generators(ctx, F)
