"""C01 Search returns exactly the matching entries — clause: abstract soundness of the candidate-set algebra (K4/K7).

Argument (DESIGN.md C01). Reference meaning = `Entry::entry_match_no_index_inner`. An `IdList` carries a precision:
`Indexed` = exact, `Partial`/`PartialThreshold` = superset, `AllIds` = top. `search`/`exists` re-test every candidate
unless the list is `Indexed`. So search is exact for every filter iff
 (a) every arm of `filter2idl` returns a set that is exact when it says `Indexed` and a superset otherwise, assuming its
     sub-results are (induction hypothesis IH);
 (b) `search`/`exists` re-test in every non-`Indexed` arm with the whole filter;
 (c) the reference arms are the boolean ones.

How (a) is decided. The arms of `filter2idl`/`filter2idl_sub` are abstractly interpreted over the type-checked HIR. All set
operations used (`&`, `|`, `andnot`, `IDLBitRange::new()`) are *pointwise*, therefore an arm is sound for all sets iff it is
sound for one arbitrary element: for every valuation of (m_x, s_x) per input x — m_x "the element really matches x",
s_x "the element is in the id list returned for x", constrained by IH of x's variant — the produced bit e and the arm's
reference meaning m (∧ for And, ∧¬ for AndNot, ∨ for Or) must satisfy IH of the produced variant (Indexed: e == m,
Partial*: m ⇒ e). `is_empty()` guards justify `Indexed(∅)` only when tested on a superset of the meaning. This is a
complete finite enumeration per table row; no kanidm code runs. Pattern tables are read with first-match semantics, so arm
order / or-pattern grouping / local names are irrelevant.

Excluded from the claim: `Inclusion` (internal aggregate existence operator; its reference meaning is constant false, it is
not a per-entry predicate), that index lists themselves are right (C03), resource limits, the resolve cache.
"""
from .lib.hir import *
from .lib.x_tables import (V, T, LIT, Undecided, first_arm, pat_match, enum_variants, last, local_of, try_inner, strip_try,
                           for_loop, is_trace, refs_to, recv_root, chain_calls, closure_of, param_local, pat_variants)

META = dict(
    technique="abstract interpretation of the candidate-set algebra + exhaustive one-element model check of every table row (decision tables from type-checked HIR)",
    level_text="Structural induction over filters: every arm of filter2idl/filter2idl_sub is abstractly interpreted and each table row "
               "(leaf, Or accumulation, And pair table, AndNot pair table, early returns) is checked exhaustively in the one-element set model "
               "(sound and complete because the set operations are pointwise); search/exists re-test every non-Indexed candidate list with "
               "the whole filter; the reference evaluator's arms are the boolean ones. Covers all filters and all index layouts at once, "
               "which the hand-written backend tests only sample.",
    level_note="Decides the candidate-set algebra clause (precision claims of IdList vs the reference semantics) and the re-test clause. "
               "Not decided: that the index lists are correct (C03), Inclusion (excluded, internal), resource limits, the resolve cache, "
               "idlset's implementation of & | andnot. Trusted: rustc facts, the leaf precision table in the rule, idlset operator semantics.",
)

LIB = "kanidmd_lib"
BT = "kanidmd_lib::be::BackendTransaction"
IDL = "kanidmd_lib::be::IdList"
FR = "kanidmd_lib::filter::FilterResolved"
ENTRY_INNER = "kanidmd_lib::entry::Entry::<VALID, STATE>::entry_match_no_index_inner"
ENTRY_OUTER = "kanidmd_lib::entry::Entry::<VALID, STATE>::entry_match_no_index"

EXACT = frozenset({(0, 0), (1, 1)})
SUPER = frozenset({(0, 0), (0, 1), (1, 1)})
IH = {"Indexed": EXACT, "Partial": SUPER, "PartialThreshold": SUPER}      # AllIds carries no set
# DESIGN.md C01 leaf table accepts `Indexed(∅)` for the empty substring key (see report: observation O1).
ACCEPT_EMPTY_SUBSTRING_KEY = True

# reference evaluator: variant -> expected shape
REF_LEAF = {"Eq": "attribute_equality", "Cnt": "attribute_substring", "Stw": "attribute_startswith",
            "Enw": "attribute_endswith", "Pres": "attribute_pres", "LessThan": "attribute_lessthan"}
REF_EXPECT = dict(REF_LEAF, Or="any", And="all", AndNot="not", Invalid="false", Inclusion="false")


class Shape(Exception):
    pass


# ---------------------------------------------------------------------------
# reference table (also used by C02)

def reference_table(ctx, rule="K4-reference"):
    """variant -> kind ('leaf:<fn>' | 'any' | 'all' | 'not' | 'false' | '?'), checked against REF_EXPECT. Returns the map."""
    F = ctx.facts
    f = ctx.fn(LIB, ENTRY_INNER)
    selfl, fl = param_local(f, 0), param_local(f, 1)
    m = None
    for n in walk(f["body"], into_closures=False):
        if n.get("e") == "match" and n.get("src") == "Normal" and local_of(n["scrut"]) == fl:
            m = n
            break
    if not ctx.check(m is not None, rule, f["fn"], "table-found", "reference evaluator is a match over the filter",
                     "entry_match_no_index_inner is not a `match` over its filter parameter (shape not understood)",
                     file=f["file"], line=f["line"]):
        return {}
    variants = enum_variants(F, LIB, FR) or []
    ctx.floor(rule, "FilterResolved variants", len(variants), 11)

    def recursive_call_on(x, loc):
        x = unwrap(x)
        return (isinstance(x, dict) and x.get("e") == "mcall" and is_call_to(x, "entry_match_no_index_inner")
                and local_of(x["recv"]) == selfl and len(x["args"]) == 1 and local_of(x["args"][0]) == loc)

    out = {}
    for vn, ftys in variants:
        pos = [("pos", i) for i in range(len(ftys))]
        try:
            _, arm, binds = first_arm(m, V(vn, pos))
        except Undecided as ex:
            arm, binds = None, {}
        kind = "?"
        if arm is not None:
            b = unwrap(arm["body"])
            bypos = {v[1]: k for k, v in binds.items() if isinstance(v, tuple) and v[0] == "pos"}
            if b.get("e") == "lit" and b.get("lk") == "bool":
                kind = b["v"]
            elif b.get("e") == "un" and b.get("op") == "Not" and recursive_call_on(b["x"], bypos.get(0)):
                kind = "not"
            elif b.get("e") == "mcall" and is_call_to(b, "Iterator::any", "Iterator::all"):
                which = "any" if is_call_to(b, "Iterator::any") else "all"
                root = recv_root(b)
                cl = closure_of(b["args"][0]) if b["args"] else None
                if (local_of(root) == bypos.get(0) and cl is not None and len(cl["params"]) == 1
                        and cl["params"][0].get("p") == "bind" and recursive_call_on(cl["body"], cl["params"][0]["local"])
                        and all(is_call_to(c, "iter", "Iterator::any", "Iterator::all") for c in chain_calls(b))):
                    kind = which
            elif b.get("e") == "mcall" and local_of(b["recv"]) == selfl:
                nm = last(callee_of(b))
                want = [bypos.get(i) for i in range(len(b["args"]))]
                if [local_of(a) for a in b["args"]] == want and nm.startswith("attribute_"):
                    kind = nm
        out[vn] = kind
        exp = REF_EXPECT.get(vn)
        ctx.check(exp is not None and kind == exp, rule, f["fn"], f"ref:{vn}",
                  f"{vn} -> {kind}",
                  f"reference evaluator arm for FilterResolved::{vn} is `{kind}`, expected `{exp}` "
                  f"(boolean semantics: Or=any, And=all, AndNot=!, Invalid=false; leaves call their attribute_* test on (attr, value)) — "
                  f"the meaning every other rule of C01/C02/C41 is stated against changes",
                  file=f["file"], line=(arm["body"].get("line") if arm else f["line"]))
    # the public wrapper evaluates the whole filter through the inner evaluator
    w = ctx.fn(LIB, ENTRY_OUTER)
    calls = calls_in(w["body"], "entry_match_no_index_inner")
    okw = False
    for c in calls:
        a = unwrap(c["args"][0]) if c["args"] else None
        if a and a.get("e") == "mcall" and is_call_to(a, "to_inner") and local_of(a["recv"]) == param_local(w, 1) \
                and local_of(c["recv"]) == param_local(w, 0):
            okw = True
    ctx.check(okw, rule, w["fn"], "ref:wrapper", "entry_match_no_index = inner(self, filter.to_inner())",
              "entry_match_no_index no longer evaluates its whole filter argument with entry_match_no_index_inner",
              file=w["file"], line=w["line"])
    return out


# ---------------------------------------------------------------------------
# symbolic sets

def set_atoms(s, acc=None):
    acc = set() if acc is None else acc
    if s[0] == "atom":
        acc.add(s[1])
    elif s[0] in ("and", "or", "andnot"):
        set_atoms(s[1], acc)
        set_atoms(s[2], acc)
    return acc


def set_eval(s, val):
    k = s[0]
    if k == "empty":
        return 0
    if k == "atom":
        return val[s[1]]
    a, b = set_eval(s[1], val), set_eval(s[2], val)
    if k == "and":
        return a & b
    if k == "or":
        return a | b
    if k == "andnot":
        return a & (1 - b)
    raise Shape("set expression " + str(k))


def set_s(s):
    k = s[0]
    if k == "empty":
        return "∅"
    if k == "atom":
        a = s[1]
        if isinstance(a, tuple):
            if a[0] == "idx":
                return f"idx[{a[1]}]"
            if a[0] == "acc":
                return "acc"
            return str(a[0])
        return str(a)
    op = {"and": "&", "or": "|", "andnot": "andnot"}[k]
    return f"({set_s(s[1])} {op} {set_s(s[2])})"


class St:
    __slots__ = ("env", "conds", "choices", "acc", "somes")

    def __init__(self, env=None, conds=(), choices=None, acc=None, somes=frozenset()):
        self.env = env or {}
        self.conds = conds
        self.choices = choices or {}
        self.acc = acc or {}
        self.somes = somes

    def copy(self):
        return St(dict(self.env), self.conds, dict(self.choices), dict(self.acc), self.somes)

    def set(self, local, val):
        n = self.copy()
        n.env[local] = val
        return n

    def cond(self, c):
        n = self.copy()
        n.conds = self.conds + (c,)
        return n

    def choose(self, tag, v):
        n = self.copy()
        n.choices[tag] = v
        return n

    def key(self):
        return repr((sorted(self.env.items(), key=lambda kv: kv[0]), self.conds, sorted(self.choices.items(), key=repr),
                     sorted(self.acc.items(), key=repr), sorted(self.somes, key=repr)))


def is_tracked(v):
    return isinstance(v, tuple) and v and v[0] in ("set", "idl", "idlvar", "idlres", "optset")


def contains_tracked(v):
    if is_tracked(v):
        return True
    if isinstance(v, tuple) and v and v[0] in ("tuple",):
        return any(contains_tracked(x) for x in v[1])
    if isinstance(v, tuple) and v and v[0] in ("ok", "some"):
        return contains_tracked(v[1])
    return False


class Interp:
    """Abstract interpreter for the bodies of filter2idl / filter2idl_sub."""

    def __init__(self, ctx, fnrec, mode, idl_variants):
        self.ctx = ctx
        self.fn = fnrec
        self.mode = mode              # 'leaf' | 'or' | 'and' | 'sub'
        self.variant = None           # FilterResolved variant being interpreted (leaf modes)
        self.idl_variants = idl_variants   # [(name, [field tys])]
        self.selfl = param_local(fnrec, 0)
        self.rows = {}                # instance key -> [(ok, detail, line)]
        self.loop_depth = 0
        self.assumed_unreachable = []

    # ---- helpers -----------------------------------------------------------
    def has_payload(self, vn):
        for n, f in self.idl_variants:
            if n == vn:
                return len(f) > 0
        return False

    def record(self, key, ok, detail, line):
        self.rows.setdefault(key, []).append((ok, detail, line))

    def seq(self, exprs, st):
        """Evaluate expressions left to right -> [(kind, [vals], st)]; 'ret'/'brk' outcomes are propagated."""
        outs = [("val", [], st)]
        for e in exprs:
            nxt = []
            for (k, vals, s) in outs:
                if k != "val":
                    nxt.append((k, vals, s))
                    continue
                for (k2, v2, s2) in self.ev(e, s):
                    if k2 != "val":
                        nxt.append((k2, v2, s2))
                    else:
                        nxt.append(("val", vals + [v2], s2))
            outs = nxt
        return outs

    @staticmethod
    def scoped(outs, st):
        """Locals bound inside a finished block / match / if are dead: drop them from the fall-through states."""
        keys = st.env.keys()
        res = []
        for (k, v, s) in outs:
            if k == "val" and len(s.env) != len(keys):
                n = s.copy()
                n.env = {a: b for a, b in s.env.items() if a in keys}
                s = n
            res.append((k, v, s))
        return res

    @staticmethod
    def dedupe(outs):
        seen, res = set(), []
        for (k, v, s) in outs:
            kk = (k, repr(v), s.key())
            if kk not in seen:
                seen.add(kk)
                res.append((k, v, s))
        return res

    # ---- expression evaluation -----------------------------------------------
    def ev(self, e, st):
        if not isinstance(e, dict):
            return [("val", None, st)]
        if is_trace(e):
            return [("val", None, st)]
        k = e.get("e")
        h = getattr(self, "ev_" + str(k), None)
        if h is None:
            # generic: evaluate children only to detect misuse of tracked values
            for loc, v in st.env.items():
                if is_tracked(v) and refs_to(e, loc):
                    raise Shape(f"tracked candidate set used in an unrecognised `{k}` expression (line {e.get('line')})")
            return [("val", None, st)]
        outs = h(e, st)
        if k in ("blockexpr", "match", "if"):
            outs = self.scoped(outs, st)
        return self.dedupe(outs)

    def ev_path(self, e, st):
        r = e["res"]
        if "local" in r:
            return [("val", st.env.get(r["local"]), st)]
        d = r.get("def", "")
        if d.startswith(IDL + "::"):
            return [("val", ("idl", last(d), None), st)]
        if d.endswith("::IndexType::Equality") or d.endswith("::IndexType::Presence") or d.endswith("::IndexType::SubString") \
                or "::IndexType::" in d:
            return [("val", ("itype", last(d)), st)]
        if d.endswith("Option::None"):
            return [("val", ("none",), st)]
        return [("val", None, st)]

    def ev_lit(self, e, st):
        if e.get("lk") == "bool":
            return [("val", ("bool", e["v"] == "true"), st)]
        if e.get("lk") == "str":
            return [("val", ("lit", e["v"]), st)]
        return [("val", None, st)]

    def ev_wrap(self, e, st):
        return self.ev(e["x"], st)

    def ev_un(self, e, st):
        outs = []
        for (k, v, s) in self.ev(e["x"], st):
            if k == "val" and e["op"] == "Not":
                if isinstance(v, tuple) and v[0] == "bool" and v[1] is not None:
                    v = ("bool", not v[1])
                elif isinstance(v, tuple) and v[0] == "isempty":
                    v = ("notempty", v[1])
                elif is_tracked(v):
                    raise Shape("`!` applied to a candidate set")
                else:
                    v = None
            outs.append((k, v, s))
        return outs

    def ev_tuple(self, e, st):
        return [(k, ("tuple", tuple(v)) if k == "val" else v, s) for (k, v, s) in self.seq(e["xs"], st)]

    def ev_array(self, e, st):
        outs = []
        for (k, v, s) in self.seq(e["xs"], st):
            if k == "val":
                if any(contains_tracked(x) for x in v):
                    raise Shape("candidate set stored in an array")
                outs.append(("val", None, s))
            else:
                outs.append((k, v, s))
        return outs

    def ev_bin(self, e, st):
        op = e["op"]
        outs = []
        for (k, v, s) in self.seq([e["l"], e["r"]], st):
            if k != "val":
                outs.append((k, v, s))
                continue
            a, b = v
            if op in ("&", "|"):
                if isinstance(a, tuple) and a[0] == "set" and isinstance(b, tuple) and b[0] == "set":
                    outs.append(("val", ("set", ("and" if op == "&" else "or", a[1], b[1])), s))
                    continue
                if is_tracked(a) or is_tracked(b):
                    raise Shape(f"`{op}` between a candidate set and an untracked value (line {e.get('line')})")
                outs.append(("val", None, s))
            elif op in ("&&", "||"):
                outs.append(("val", ("boolop", op, a, b), s))
            else:
                if (is_tracked(a) and a[0] != "set") or (is_tracked(b) and b[0] != "set"):
                    raise Shape(f"operator `{op}` on a candidate list (line {e.get('line')})")
                if op in ("^", "-", "+") and (is_tracked(a) or is_tracked(b)):
                    raise Shape(f"operator `{op}` on a candidate set is not in the rule's algebra (line {e.get('line')})")
                outs.append(("val", None, s))
        return outs

    def ev_call(self, e, st):
        ctor = e.get("ctor")
        callee = e.get("resolved") or e.get("callee") or ""
        outs = []
        pre = [("val", None, st)]
        if not ctor and not callee and e.get("fun") is not None:
            pre = self.ev(e["fun"], st)
        for (k0, _, s0) in pre:
            if k0 != "val":
                outs.append((k0, _, s0))
                continue
            for (k, vals, s) in self.seq(e["args"], s0):
                if k != "val":
                    outs.append((k, vals, s))
                    continue
                if ctor:
                    if ctor.startswith(IDL + "::"):
                        a = vals[0] if vals else None
                        if not (isinstance(a, tuple) and a[0] == "set"):
                            a = ("set", ("atom", ("unknown", e.get("line"))))
                        outs.append(("val", ("idl", last(ctor), a[1]), s))
                    elif ctor.endswith("Result::Ok"):
                        outs.append(("val", ("ok", vals[0] if vals else None), s))
                    elif ctor.endswith("Result::Err"):
                        outs.append(("val", ("err",), s))
                    elif ctor.endswith("Option::Some"):
                        outs.append(("val", ("some", vals[0] if vals else None), s))
                    else:
                        if any(contains_tracked(x) for x in vals):
                            raise Shape(f"candidate set stored in {short(ctor)} (line {e.get('line')})")
                        outs.append(("val", None, s))
                elif ends(callee, "IDLBitRange::new", "IDLBitRange::default"):
                    outs.append(("val", ("set", ("empty",)), s))
                elif ends(callee, "utils::trigraph_iter"):
                    outs.append(("val", ("iter", ("trigraphs", repr(vals[0]) if vals else "")), s))
                elif ends(callee, "IntoIterator::into_iter") and vals and isinstance(vals[0], tuple) and vals[0][0] in ("iter", "list"):
                    outs.append(("val", ("iter", vals[0][1]) if vals[0][0] == "iter" else ("iter", vals[0]), s))
                elif ends(callee, "mem::drop"):
                    outs.append(("val", None, s))
                else:
                    if any(contains_tracked(x) for x in vals):
                        raise Shape(f"candidate set passed to {short(callee) or 'an unknown function'} (line {e.get('line')})")
                    outs.append(("val", None, s))
        return outs

    def ev_mcall(self, e, st):
        outs = []
        for (k, vals, s) in self.seq([e["recv"]] + e["args"], st):
            if k != "val":
                outs.append((k, vals, s))
                continue
            recv, args = vals[0], vals[1:]
            outs.append(("val", self.method(e, recv, args, s), s))
        return outs

    def method(self, e, recv, args, st):
        def isset(x):
            return isinstance(x, tuple) and x[0] == "set"
        if is_call_to(e, "BackendTransaction::filter2idl"):
            if local_of(e["recv"]) != self.selfl:
                raise Shape("filter2idl called on another transaction")
            a = args[0] if args else None
            if isinstance(a, tuple) and a[0] == "elem":
                return ("idlres", "or" if self.mode == "or" else "pos")
            if isinstance(a, tuple) and a[0] == "neg-inner":
                return ("idlres", "neg")
            raise Shape(f"filter2idl applied to a term whose origin is not understood (line {e.get('line')})")
        if is_call_to(e, "BackendTransaction::filter2idl_sub"):
            return ("idlres", ("sub", args[0] if args else None, args[1] if len(args) > 1 else None))
        if is_call_to(e, "IdlArcSqliteTransaction::get_idl", "get_idl"):
            a, it, key = (args + [None, None, None])[:3]
            return ("optset", ("atom", ("idx", it[1] if isinstance(it, tuple) and it[0] == "itype" else "?", key, a)))
        if is_call_to(e, "PartialValue::get_idx_eq_key"):
            return ("key", "eq", recv)
        if is_call_to(e, "PartialValue::get_idx_sub_key"):
            return ("some", ("key", "sub", recv))
        if is_call_to(e, "IDLBitRange::is_empty") and isset(recv):
            return ("isempty", recv[1])
        if is_call_to(e, "IDLBitRange::below_threshold", "IDLBitRange::len", "IDLBitRange::sum") and isset(recv):
            return None
        if is_call_to(e, "Clone::clone", "clone") and not args:
            return recv
        if is_call_to(e, "AndNot::andnot", "andnot"):
            if isset(recv) and len(args) == 1 and isset(args[0]):
                return ("set", ("andnot", recv[1], args[0][1]))
            raise Shape(f"andnot on untracked operands (line {e.get('line')})")
        if is_call_to(e, "iter", "IntoIterator::into_iter", "into_iter") and not args:
            if isinstance(recv, tuple) and recv[0] in ("list", "fld"):
                return ("iter", recv)
            if isinstance(recv, tuple) and recv[0] == "iter":
                return recv
        if is_call_to(e, "Iterator::partition") and isinstance(recv, tuple) and recv[0] == "iter":
            cl = closure_of(e["args"][0]) if e["args"] else None
            okp = False
            if cl is not None and len(cl["params"]) == 1 and cl["params"][0].get("p") == "bind":
                b = unwrap(cl["body"])
                if b.get("e") == "mcall" and is_call_to(b, "FilterResolved::is_andnot") and local_of(b["recv"]) == cl["params"][0]["local"]:
                    okp = True
            if not okp:
                raise Shape(f"partition predicate is not `|f| f.is_andnot()` (line {e.get('line')})")
            return ("tuple", (("list", "neg", recv[1]), ("list", "pos", recv[1])))
        if is_call_to(e, "Iterator::next") and isinstance(recv, tuple) and recv[0] == "iter":
            return ("optelem", ("elem", recv[1]))
        if is_tracked(recv) or any(contains_tracked(a) for a in args):
            raise Shape(f"candidate set used with method `{e.get('name')}` which is not in the rule's algebra (line {e.get('line')})")
        return None

    def ev_closure(self, e, st):
        for loc, v in st.env.items():
            if is_tracked(v) and refs_to(e, loc):
                raise Shape(f"closure captures a candidate set (line {e.get('line')})")
        return [("val", ("closure",), st)]

    def ev_struct(self, e, st):
        outs = []
        for (k, v, s) in self.seq([f["x"] for f in e["fields"]], st):
            if k == "val":
                if any(contains_tracked(x) for x in v):
                    raise Shape("candidate set stored in a struct")
                outs.append(("val", None, s))
            else:
                outs.append((k, v, s))
        return outs

    def ev_field(self, e, st):
        return [(k, None if k == "val" else v, s) for (k, v, s) in self.ev(e["x"], st)]

    def ev_blockexpr(self, e, st):
        return self.ev_block(e["b"], st)

    def ev_block(self, b, st):
        outs = [("val", None, st)]
        for stmt in b["stmts"]:
            nxt = []
            for (k, v, s) in outs:
                if k != "val":
                    nxt.append((k, v, s))
                    continue
                nxt.extend(self.stmt(stmt, s))
            outs = self.dedupe(nxt)
        if "tail" in b and b["tail"] is not None:
            nxt = []
            for (k, v, s) in outs:
                if k != "val":
                    nxt.append((k, v, s))
                else:
                    nxt.extend(self.ev(b["tail"], s))
            outs = nxt
        else:
            outs = [(k, None if k == "val" else v, s) for (k, v, s) in outs]
        return outs

    def stmt(self, stmt, st):
        sk = stmt.get("s")
        if sk == "item":
            return [("val", None, st)]
        if sk == "expr":
            return [(k, None if k == "val" else v, s) for (k, v, s) in self.ev(stmt["x"], st)]
        if sk == "let":
            if stmt.get("init") is None:
                return [("val", None, self.bind_unknown(stmt["pat"], st))]
            outs = []
            for (k, v, s) in self.ev(stmt["init"], st):
                if k != "val":
                    outs.append((k, v, s))
                    continue
                outs.append(("val", None, self.bind(stmt["pat"], v, s)))
            if stmt.get("else") is not None:
                for (k, v, s) in self.ev(stmt["else"] if "e" in stmt["else"] else {"e": "blockexpr", "b": stmt["else"]}, st):
                    if k != "val":
                        outs.append((k, v, s))
            return outs
        raise Shape("statement kind " + str(sk))

    def bind_unknown(self, p, st):
        n = st.copy()
        for x in walk(p):
            if x.get("p") == "bind":
                n.env[x["local"]] = None
        return n

    def bind(self, p, v, st):
        k = p.get("p")
        if k == "bind" and "sub" not in p:
            return st.set(p["local"], v)
        if k == "ref":
            return self.bind(p["pat"], v, st)
        if k == "tuple" and isinstance(v, tuple) and v[0] == "tuple" and len(v[1]) == len(p["pats"]):
            for sp, sv in zip(p["pats"], v[1]):
                st = self.bind(sp, sv, st)
            return st
        if k == "tuple" and isinstance(v, tuple) and v[0] == "idlres" and len(p["pats"]) == 2:
            st = self.bind(p["pats"][0], ("idlvar", v[1]), st)
            return self.bind_unknown(p["pats"][1], st)
        if k == "tstruct" and p["path"].get("def") == FR + "::AndNot" and isinstance(v, tuple) and v[0] == "elem" and p["pats"]:
            st = self.bind(p["pats"][0], ("neg-inner", v[1]), st)
            for sp in p["pats"][1:]:
                st = self.bind_unknown(sp, st)
            return st
        if contains_tracked(v) and k != "wild":
            raise Shape("candidate set destructured by a pattern the rule does not understand: " + pat_s(p))
        return self.bind_unknown(p, st)

    def ev_assign(self, e, st):
        outs = []
        loc = local_of(e["l"]) if unwrap(e["l"]).get("e") == "path" else None
        for (k, v, s) in self.ev(e["r"], st):
            if k != "val":
                outs.append((k, v, s))
                continue
            if loc is not None:
                outs.append(("val", None, s.set(loc, v)))
            else:
                if contains_tracked(v):
                    raise Shape("candidate set assigned to a place the rule does not track")
                outs.append(("val", None, s))
        return outs

    def ev_assignop(self, e, st):
        loc = local_of(e["l"])
        cur = st.env.get(loc) if loc is not None else None
        outs = []
        for (k, v, s) in self.ev(e["r"], st):
            if k != "val":
                outs.append((k, v, s))
                continue
            op = e.get("op", "")
            if isinstance(cur, tuple) and cur[0] == "set":
                if op in ("|=", "&=") and isinstance(v, tuple) and v[0] == "set":
                    outs.append(("val", None, s.set(loc, ("set", ("or" if op == "|=" else "and", cur[1], v[1])))))
                    continue
                raise Shape(f"`{op}` on a candidate set (line {e.get('line')})")
            if is_tracked(cur) or contains_tracked(v):
                raise Shape(f"`{op}` involving a candidate list (line {e.get('line')})")
            if isinstance(cur, tuple) and cur[0] == "bool":
                s = s.set(loc, ("bool", None))
            outs.append(("val", None, s))
        return outs

    def ev_ret(self, e, st):
        if e.get("x") is None:
            return [("ret", None, st)]
        return [("ret", v, s) for (k, v, s) in self.ev(e["x"], st)]

    def ev_break(self, e, st):
        if e.get("x") is not None or e.get("label"):
            if self.loop_depth == 0 or e.get("x") is not None:
                raise Shape("labelled / valued break")
        return [("brk", None, st)]

    def ev_continue(self, e, st):
        return [("cont", None, st)]

    def ev_loop(self, e, st):
        raise Shape(f"bare loop (line {e.get('line')})")

    # ---- conditions ----------------------------------------------------------
    def boolval(self, v):
        if isinstance(v, tuple) and v[0] == "bool":
            return v[1]
        if isinstance(v, tuple) and v[0] == "boolop":
            a, b = self.boolval(v[2]), self.boolval(v[3])
            if v[1] == "&&":
                if a is False or b is False:
                    return False
                if a is True and b is True:
                    return True
                return None
            if a is True or b is True:
                return True
            if a is False and b is False:
                return False
        return None

    def facts(self, v, pol):
        if isinstance(v, tuple) and v[0] == "isempty":
            return [("empty", v[1])] if pol else []
        if isinstance(v, tuple) and v[0] == "notempty":
            return [("empty", v[1])] if not pol else []
        if isinstance(v, tuple) and v[0] == "boolop":
            if v[1] == "&&" and pol:
                return self.facts(v[2], True) + self.facts(v[3], True)
            if v[1] == "||" and not pol:
                return self.facts(v[2], False) + self.facts(v[3], False)
        return []

    def ev_if(self, e, st):
        c = e["cond"]
        outs = []
        branches = []   # (polarity, state)
        if c.get("e") == "let":
            for (k, v, s) in self.ev(c["init"], st):
                if k != "val":
                    outs.append((k, v, s))
                    continue
                for (absval, s2) in self.expand(v, s):
                    if absval is None:
                        branches.append((True, self.bind_unknown(c["pat"], s2)))
                        branches.append((False, s2))
                        continue
                    mb = []
                    try:
                        b = pat_match(c["pat"], absval, {}, mb)
                    except Undecided:
                        branches.append((True, self.bind_unknown(c["pat"], s2)))
                        branches.append((False, s2))
                        continue
                    if b is None:
                        branches.append((False, s2))
                    else:
                        n = self.bind_unknown(c["pat"], s2)
                        for loc, sv in b.items():
                            n.env[loc] = sv if not isinstance(sv, (V, T, LIT)) else None
                        branches.append((True, n))
                        if mb:
                            branches.append((False, s2))
        else:
            for (k, v, s) in self.ev(c, st):
                if k != "val":
                    outs.append((k, v, s))
                    continue
                bv = self.boolval(v)
                if bv is not False:
                    s1 = s
                    for f in self.facts(v, True):
                        s1 = s1.cond(f)
                    branches.append((True, s1))
                if bv is not True:
                    s1 = s
                    for f in self.facts(v, False):
                        s1 = s1.cond(f)
                    branches.append((False, s1))
        for (pol, s) in branches:
            if pol:
                outs.extend(self.ev(e["then"], s))
            elif e.get("else") is not None:
                outs.extend(self.ev(e["else"], s))
            else:
                outs.append(("val", None, s))
        return outs

    # ---- match ---------------------------------------------------------------
    def expand(self, v, st):
        """[(abstract value for pattern matching | None, state)] — enumerates the variants of an unknown candidate list."""
        if isinstance(v, tuple):
            t = v[0]
            if t == "idl":
                return [(V(v[1], [("set", v[2])] if v[2] is not None else []), st)]
            if t in ("idlvar", "idlres"):
                tag = v[1]
                alts = []
                names = [st.choices[tag]] if tag in st.choices else [n for n, _ in self.idl_variants]
                if isinstance(tag, tuple) and tag[0] == "sub":
                    return [(None, st)]
                for n in names:
                    s2 = st.choose(tag, n)
                    val = V(n, [("set", ("atom", tag))] if self.has_payload(n) else [])
                    alts.append((T([val, None]) if t == "idlres" else val, s2))
                return alts
            if t == "tuple":
                alts = [([], st)]
                for comp in v[1]:
                    nxt = []
                    for (items, s) in alts:
                        for (av, s2) in self.expand(comp, s):
                            nxt.append((items + [av], s2))
                    alts = nxt
                return [(T(items), s) for (items, s) in alts]
            if t == "optset":
                atom = v[1][1] if v[1][0] == "atom" else None
                keyid = (atom[1], repr(atom[3])) if atom and atom[0] == "idx" else None
                if keyid is not None and keyid in st.somes:
                    if keyid not in self.assumed_unreachable:
                        self.assumed_unreachable.append(keyid)
                    return [(V("Some", [("set", v[1])]), st)]
                s_some = st.copy()
                if keyid is not None:
                    s_some.somes = st.somes | {keyid}
                return [(V("Some", [("set", v[1])]), s_some), (V("None", []), st)]
            if t == "optelem":
                return [(V("Some", [v[1]]), st.choose(("next", repr(v[1])), "Some")),
                        (V("None", []), st.choose(("next", repr(v[1])), "None"))]
            if t == "some":
                return [(V("Some", [v[1]]), st), (V("None", []), st)]
            if t == "none":
                return [(V("None", []), st)]
            if t == "bool" and v[1] is not None:
                return [(LIT("true" if v[1] else "false"), st)]
        return [(None, st)]

    def ev_match(self, e, st):
        src = str(e.get("src", ""))
        if src.startswith("TryDesugar"):
            inner = try_inner(e)
            if inner is None:
                raise Shape("`?` shape")
            return self.ev(inner, st)
        if src == "ForLoopDesugar":
            return self.do_loop(e, st)
        if src != "Normal":
            raise Shape("match source " + src)
        outs = []
        for (k, v, s) in self.ev(e["scrut"], st):
            if k != "val":
                outs.append((k, v, s))
                continue
            for (absval, s2) in self.expand(v, s):
                if absval is None or (isinstance(absval, T) and all(i is None for i in absval.items)):
                    if contains_tracked(v):
                        raise Shape(f"match on a candidate list the rule cannot enumerate (line {e.get('line')})")
                    for a in e["arms"]:
                        outs.extend(self.ev(a["body"], self.bind_unknown(a["pat"], s2)))
                    continue
                for arm in e["arms"]:
                    mb = []
                    try:
                        binds = pat_match(arm["pat"], absval, {}, mb)
                    except Undecided as ex:
                        raise Shape(f"table pattern not decidable: {ex} (line {e.get('line')})")
                    if binds is None:
                        continue
                    if arm.get("guard") is not None:
                        mb.append("guard")
                    if mb and contains_tracked(v):
                        raise Shape(f"candidate-list table arm `{pat_s(arm['pat'])}` is not decidable on variants alone (line {e.get('line')})")
                    n = self.bind_unknown(arm["pat"], s2)
                    for loc, sv in binds.items():
                        n.env[loc] = None if isinstance(sv, (V, T, LIT)) else sv
                    outs.extend(self.ev(arm["body"], n))
                    if not mb:
                        break
        return outs

    # ---- loops ---------------------------------------------------------------
    def do_loop(self, e, st):
        fl = for_loop(e)
        if fl is None:
            raise Shape("for-loop shape")
        it_expr, pat, body = fl
        outs = []
        for (k, itv, s0) in self.ev(it_expr, st):
            if k != "val":
                outs.append((k, itv, s0))
                continue
            if isinstance(itv, tuple) and itv[0] in ("list", "fld"):
                itv = ("iter", itv)
            if not (isinstance(itv, tuple) and itv[0] == "iter"):
                for loc, v in s0.env.items():
                    if is_tracked(v) and refs_to(body, loc):
                        raise Shape(f"loop over an unrecognised collection touches a candidate set (line {e.get('line')})")
                outs.append(("val", None, s0))
                continue
            s0 = self.enter_loop(s0, body)
            seen = {s0.key(): s0}
            work = [s0]
            self.loop_depth += 1
            while work:
                s = work.pop()
                s1 = self.bind(pat, ("elem", itv[1]), s)
                for (k2, v2, s2) in self.ev(body, s1):
                    if k2 == "ret":
                        outs.append(("ret-inloop", v2, s2))
                        continue
                    s3 = self.after_iteration(s2, e)
                    s3.env = {a: b for a, b in s3.env.items() if a in s0.env}
                    if k2 == "brk":
                        if s3.key() not in seen:
                            seen[s3.key()] = s3      # exit state only (over-approximation: may also iterate again; harmless)
                            work.append(s3)
                        continue
                    if s3.key() not in seen:
                        seen[s3.key()] = s3
                        work.append(s3)
                    if len(seen) > 400:
                        raise Shape("loop state space too large")
            self.loop_depth -= 1
            for s in seen.values():
                outs.append(("val", None, s))
        return outs

    def enter_loop(self, st, body):
        n = st.copy()
        n.choices = {}
        n.conds = ()
        for loc, v in list(n.env.items()):
            if isinstance(v, tuple) and v[0] == "idlvar" and v[1] != "cand":
                n.env[loc] = ("idlvar", "cand")
            elif isinstance(v, tuple) and v[0] == "idl":
                # a literal start value (e.g. `let mut cand = IdList::AllIds`): it must itself be a sound claim for "no term yet"
                ok, why = self.judge(st, v, "acc")
                self.record(f"{self.mode}-init:{_claim_key(v)}", ok, f"{self.claim_s(v)} as the start value: {why}", None)
                n.env[loc] = ("idlvar", "cand")
            elif isinstance(v, tuple) and v[0] == "set" and v[1] != ("atom", ("acc", loc)):
                if not refs_to(body, loc):
                    n.env[loc] = None          # a leftover binding of an earlier table arm, not an accumulator
                    continue
                # a set accumulator: its pairs relative to the meaning accumulated so far
                n.acc[loc] = self.initial_acc_pairs(v[1], st)
                n.env[loc] = ("set", ("atom", ("acc", loc)))
        return n

    def initial_acc_pairs(self, s, st):
        if self.mode == "or":
            if set_atoms(s):
                raise Shape("Or accumulator is not initialised with an empty set")
            return frozenset({(0, set_eval(s, {}))})
        if self.mode == "sub":
            pairs = set()
            for (m, val) in self.valuations(s, st):
                pairs.add((m, set_eval(s, val)))
            return frozenset(pairs)
        raise Shape("set accumulator in an And arm")

    def after_iteration(self, st, loopnode):
        """Judge what one iteration did to the accumulators and fold them back into their invariant form."""
        n = st.copy()
        line = loopnode.get("line")
        for loc, v in list(st.env.items()):
            if isinstance(v, tuple) and v[0] == "idl":
                row = self.row_key(st)
                ok, why = self.judge(st, v, "acc")
                self.record(row, ok, f"{self.claim_s(v)}: {why}", line)
                n.env[loc] = ("idlvar", "cand")
            elif isinstance(v, tuple) and v[0] == "set" and loc in st.acc:
                if v[1] == ("atom", ("acc", loc)):
                    continue
                pairs = set()
                for (m, val) in self.valuations(v[1], st):
                    pairs.add((m, set_eval(v[1], val)))
                ok = (1, 0) not in pairs
                row = self.row_key(st)
                self.record(row, ok, f"acc := {set_s(v[1])}: " + ("accumulator stays a superset of the terms so far"
                                                                   if ok else "an entry that matches can be dropped from the accumulator (1,0 reachable)"), line)
                if not ok:
                    # report the broken row once; later rows / the final claim are judged on the repaired invariant
                    pairs = (pairs - {(1, 0)}) or set(st.acc[loc])
                n.acc[loc] = frozenset(pairs)
                n.env[loc] = ("set", ("atom", ("acc", loc)))
        n.choices = {}
        n.conds = ()
        # forget per-iteration locals that hold child values
        for loc, v in list(n.env.items()):
            if isinstance(v, tuple) and v[0] in ("idlvar", "idlres") and v[1] in ("pos", "neg", "or"):
                n.env[loc] = None
            if isinstance(v, tuple) and v[0] == "set" and set_atoms(v[1]) & {"pos", "neg", "or"}:
                n.env[loc] = None
        return n

    # ---- judgement -------------------------------------------------------------
    def row_key(self, st):
        ch = st.choices
        if self.mode == "and":
            if "neg" in ch:
                return f"andnot:({ch.get('cand', '-')},{ch['neg']})"
            if "pos" in ch and "cand" in ch:
                return f"and:({ch['cand']},{ch['pos']})"
            if "pos" in ch:
                return f"and-first:({ch['pos']})"
            if "cand" in ch:
                return f"and-cand:({ch['cand']})"
            return "and-no-positive-term"
        if self.mode == "or":
            return f"or:row:({ch.get('or', '-')})"
        if self.mode == "sub":
            return "sub:loop"
        return f"leaf:{self.variant}"

    @staticmethod
    def claim_s(v):
        if v[0] == "idl":
            return f"{v[1]}({set_s(v[2])})" if v[2] is not None else v[1]
        return str(v[0])

    def leaf_precision(self, atom):
        """Trusted leaf table: which index lookups are exact / supersets for which leaf (None = unknown source)."""
        if atom[0] != "idx":
            return None
        _, itype, key, attr = atom
        if self.mode == "sub":
            # every entry whose value contains the sub-string contains each of its trigraphs (C03 keeps the index right)
            if itype == "SubString" and attr == ("param", 1) and isinstance(key, tuple) and key[0] == "elem":
                return SUPER
            return None
        if attr != ("fld", 0):
            return None
        if self.variant == "Eq" and itype == "Equality" and key == ("key", "eq", ("fld", 1)):
            return EXACT
        if self.variant == "Pres" and itype == "Presence" and key == ("lit", "_"):
            return EXACT
        if self.variant == "LessThan" and itype == "Presence" and key == ("lit", "_"):
            return SUPER     # has-the-attribute ⊇ has-a-smaller-value
        return None

    def valuations(self, s, st):
        """All (meaning bit m, {atom: bit}) for set expression s in state st."""
        atoms = sorted(set_atoms(s), key=repr)
        for c in st.conds:
            for a in set_atoms(c[1]):
                if a not in atoms:
                    atoms.append(a)
        ch = st.choices
        res = []
        if self.mode in ("leaf", "sub"):
            const_false = self.mode == "leaf" and self.variant in self.const_false
            free = self.mode == "leaf" and self.variant in ("AndNot",)
            for mleaf in ((0,) if const_false else (0, 1)):
                opts = []
                for a in atoms:
                    if isinstance(a, tuple) and a[0] == "acc":
                        opts.append([sb for (mm, sb) in st.acc.get(a[1], frozenset({(0, 0), (0, 1), (1, 0), (1, 1)})) if mm == mleaf])
                        continue
                    p = self.leaf_precision(a) if isinstance(a, tuple) else None
                    if p is None or free:
                        opts.append([0, 1])
                    else:
                        opts.append([sb for (mm, sb) in p if mm == mleaf])
                for combo in _product(opts):
                    res.append((mleaf, dict(zip(atoms, combo))))
            if free:
                res = res + [(1 - m, val) for (m, val) in res]
            return res
        # compound modes: components with their own meaning bits
        comps = []      # (tag, [(m, s|None)])
        for tag in ("cand", "pos", "neg", "or"):
            if tag in ch:
                vn = ch[tag]
                if self.has_payload(vn):
                    p = IH.get(vn)
                    if p is None:
                        p = frozenset({(0, 0), (0, 1), (1, 0), (1, 1)})
                    comps.append((tag, sorted(p)))
                else:
                    comps.append((tag, [(0, None), (1, None)]))
        accs = [a for a in atoms if isinstance(a, tuple) and a[0] == "acc"]
        for a in accs:
            comps.append((a, sorted(st.acc.get(a[1], frozenset({(0, 0), (0, 1), (1, 0), (1, 1)})))))
        known = {c[0] for c in comps}
        unknown = [a for a in atoms if a not in known]
        for combo in _product([c[1] for c in comps]):
            mv = {c[0]: x[0] for c, x in zip(comps, combo)}
            sv = {c[0]: x[1] for c, x in zip(comps, combo) if x[1] is not None}
            ms = self.meanings(mv)
            for ucombo in _product([[0, 1]] * len(unknown)):
                val = dict(sv)
                val.update(dict(zip(unknown, ucombo)))
                if any(a not in val for a in atoms):
                    raise Shape("payload of a payload-less variant used")
                for m in ms:
                    res.append((m, val))
        return res

    def meanings(self, mv):
        if self.mode == "or":
            parts = [v for k, v in mv.items()]
            if not parts:
                return [0, 1]
            m = 0
            for p in parts:
                m |= p
            return [m]
        # and
        if not mv:
            return [0, 1]         # no positive term known: the meaning is unconstrained
        if "cand" not in mv and "pos" not in mv and not any(isinstance(k, tuple) for k in mv):
            return [0, 1]
        m = 1
        for k, v in mv.items():
            m &= (1 - v) if k == "neg" else v
        return [m]

    def judge(self, st, claim, kind):
        """kind: 'acc' (value covering all terms so far / final value), 'early-and', 'early-or'. -> (ok, why)"""
        if claim is None:
            return False, "result is not a recognisable IdList value"
        if claim[0] in ("idlvar",):
            return True, "accumulator passed through (invariant)"
        if claim[0] == "idlres":
            tag = claim[1]
            if isinstance(tag, tuple) and tag[0] == "sub":
                okp = self.mode == "leaf" and self.variant in ("Stw", "Enw", "Cnt") and tag[1] == ("fld", 0) and tag[2] == ("key", "sub", ("fld", 1))
                return okp, ("result of filter2idl_sub(attr, value.get_idx_sub_key()) passed through" if okp
                             else "filter2idl_sub result used for a term it was not computed for")
            return (kind == "acc" and self.mode != "or"), "child result passed through"
        vn, s = claim[1], claim[2]
        if vn == "AllIds":
            return True, "AllIds is always sound (top)"
        if vn not in IH:
            return False, f"IdList::{vn} has no precision in the rule table (new variant: extend IH)"
        if kind == "early-or":
            return False, "an Or may only return early with AllIds: the remaining terms can add entries"
        for a in set_atoms(s):
            if isinstance(a, tuple) and a[0] == "unknown":
                return False, "the set inside the claim has an origin the rule does not understand"
            if isinstance(a, tuple) and a[0] == "idx" and self.leaf_precision(a) is None and not (self.mode == "leaf" and self.variant in self.const_false):
                return False, (f"index lookup ({a[1]}, key={a[2]}) is not in the rule's leaf precision table for {self.variant or 'filter2idl_sub'} "
                               f"— cannot be claimed as {vn}")
        vals = self.valuations(s, st)
        pairs = {(m, set_eval(s, val)) for (m, val) in vals}
        if kind == "acc":
            bad = pairs - IH[vn]
            if not bad:
                return True, f"pairs(meaning,set)={sorted(pairs)} ⊆ {'exact' if IH[vn] == EXACT else 'superset'}"
            if (1, 0) in bad:
                return False, f"claims {vn} but an entry that matches can be missing from the set (meaning=1, in-set=0 reachable)"
            return False, f"claims {vn} (exact, no re-test) but the set can contain an entry that does not match (meaning=0, in-set=1 reachable)"
        # early return from an And: the node's meaning is ⊆ m
        if vn in ("Partial", "PartialThreshold"):
            if (1, 0) in pairs:
                return False, f"early return claims {vn} but an entry that matches all terms so far can be missing from the set"
            return True, "early superset of the terms so far"
        # Indexed on an early return: only the empty set, and only when a superset of the meaning is known empty
        if s == ("empty",):
            for c in st.conds:
                if c[0] == "empty":
                    if all(not (m == 1 and set_eval(c[1], val) == 0) for (m, val) in vals):
                        return True, f"∅ justified: {set_s(c[1])}.is_empty() was tested and it is a superset of the meaning"
            if pairs <= {(0, 0)}:
                return True, "meaning is constant false"
            return False, "claims Indexed(∅) — exact and empty, no re-test — but nothing shows the meaning is empty here"
        return False, "early return claims Indexed(non-empty set) before all terms were applied"

    const_false = ()


def _product(lists):
    res = [()]
    for l in lists:
        res = [r + (x,) for r in res for x in l]
    return res


# ---------------------------------------------------------------------------

def claim_of(v):
    """IdList claim inside an arm value / return value:  Ok((claim, plan)) | (claim, plan) | claim"""
    if isinstance(v, tuple) and v and v[0] == "ok":
        v = v[1]
    if isinstance(v, tuple) and v and v[0] == "tuple" and v[1]:
        v = v[1][0]
    return v


def run_f2i(ctx, ref):
    F = ctx.facts
    f = ctx.fn(LIB, BT + "::filter2idl")
    idl_variants = enum_variants(F, LIB, IDL)
    fr_variants = enum_variants(F, LIB, FR)
    if not ctx.check(bool(idl_variants) and bool(fr_variants), "K4-leaf", f["fn"], "enums-found", "IdList / FilterResolved item facts present",
                     "enum facts for be::IdList or filter::FilterResolved missing"):
        return
    ctx.floor("K4-leaf", "IdList variants", len(idl_variants), 4)
    filt = param_local(f, 1)
    top = None
    tail = unwrap(f["body"])          # a body that is only a tail expression unwraps to it
    if tail and tail.get("e") == "call" and ends(tail.get("ctor", ""), "Result::Ok") and tail["args"]:
        m = unwrap(tail["args"][0])
        if m.get("e") == "match" and m.get("src") == "Normal" and local_of(m["scrut"]) == filt:
            top = m
    if not ctx.check(top is not None, "K4-leaf", f["fn"], "table-found", "filter2idl = Ok(match filt {..})",
                     "filter2idl is no longer `Ok(match filt { .. })` over its filter parameter (shape not understood; fail closed)",
                     file=f["file"], line=f["line"]):
        return
    const_false = tuple(v for v, k in ref.items() if k == "false")
    n_rows = {"and": 0, "andnot": 0, "or": 0, "leaf": 0}
    for vn, ftys in fr_variants:
        if vn == "Inclusion":
            ctx.notes.append("FilterResolved::Inclusion is excluded from the C01 claim (internal aggregate existence operator; reference meaning is constant false)")
            continue
        mode = {"Or": "or", "And": "and"}.get(vn, "leaf")
        rule = {"or": "K4-or", "and": "K4-and"}.get(mode, "K4-leaf")
        if vn == "AndNot":
            rule = "K4-andnot-isolated"
        it = Interp(ctx, f, mode, idl_variants)
        it.variant = vn
        it.const_false = const_false
        try:
            _, arm, binds = first_arm(top, V(vn, [("fld", i) for i in range(len(ftys))]))
            if arm is None:
                raise Shape("no arm")
            st = St()
            for x in walk(arm["pat"]):
                if x.get("p") == "bind":
                    st.env[x["local"]] = None
            for loc, sv in binds.items():
                st.env[loc] = sv if isinstance(sv, tuple) else None
            outs = it.ev(arm["body"], st)
        except (Shape, Undecided) as ex:
            ctx.violation(rule, f["fn"], f"{vn}:shape-not-understood",
                          f"arm for FilterResolved::{vn}: {ex} — the candidate-set algebra of this arm cannot be decided (fail closed)",
                          file=f["file"], line=f["line"])
            continue
        if mode == "leaf" and vn not in REF_LEAF and vn not in ("Invalid", "AndNot"):
            ctx.violation(rule, f["fn"], f"leaf:{vn}", f"FilterResolved::{vn} has no entry in the rule's tables (new variant: extend the rule)",
                          file=f["file"], line=arm["body"].get("line"))
            continue
        # final / returned claims
        finals = {}
        for (k, v, s) in outs:
            if k in ("brk", "cont"):
                continue
            c = claim_of(v)
            if isinstance(c, tuple) and c and c[0] == "err":
                continue
            if mode == "leaf":
                kind = "acc"
                key = f"leaf:{vn}->{_leaf_key(c)}"
                if vn == "AndNot":
                    key = f"isolated-andnot:{_claim_key(c)}"
            elif mode == "or":
                if k == "ret-inloop":
                    kind, key = "early-or", it.row_key(s)
                else:
                    kind, key = "acc", f"or:final:{_claim_key(c)}"
            else:
                if k in ("ret", "ret-inloop"):
                    kind = "early-and"
                    rk = it.row_key(s)
                    key = f"{rk}:{_claim_key(c)}" if rk == "and-no-positive-term" else rk
                else:
                    kind, key = "acc", f"and:final:{_claim_key(c)}"
            try:
                ok, why = it.judge(s, c, kind)
            except Shape as ex:
                ok, why = False, f"shape not understood: {ex}"
            finals.setdefault(key, []).append((ok, f"{_claim_show(c)}: {why}", arm["body"].get("line")))
        for key, lst in it.rows.items():
            finals.setdefault(key, []).extend(lst)
        for key, lst in sorted(finals.items()):
            r = rule
            if key.startswith("andnot:"):
                r = "K4-andnot"
                n_rows["andnot"] += 1
            elif key.startswith("and:("):
                n_rows["and"] += 1
            elif key.startswith("or:row"):
                n_rows["or"] += 1
            elif key.startswith("leaf:"):
                n_rows["leaf"] += 1
            bad = [d for (ok, d, _) in lst if not ok]
            ln = next((l for (ok, _, l) in lst if not ok), lst[0][2])
            ctx.check(not bad, r, f["fn"], key,
                      "; ".join(sorted({d for (_, d, _) in lst}))[:300],
                      f"filter2idl {vn} arm, row {key}: " + "; ".join(sorted(set(bad))) +
                      " — search/exists skip the per-entry re-test for Indexed lists and only filter (never add to) Partial lists, so this row makes the answer depend on the index layout",
                      file=f["file"], line=ln)
            ctx.sample(f"{r} {key} :: " + "; ".join(sorted({d for (_, d, _) in lst}))[:160])
        for kid in it.assumed_unreachable:
            ctx.assumptions.append(f"get_idl({kid[0]}) returning None after an earlier Some for the same index table is unreachable (table existence is constant within a transaction)")
    ctx.floor("K4-and", "And pair-table rows (4x4 variant pairs)", n_rows["and"], 16)
    ctx.floor("K4-andnot", "AndNot pair-table rows (4x4 variant pairs)", n_rows["andnot"], 16)
    ctx.floor("K4-or", "Or accumulation rows", n_rows["or"], 4)
    ctx.floor("K4-leaf", "leaf outcomes", n_rows["leaf"], 12)


def _leaf_key(c):
    if isinstance(c, tuple) and c and c[0] == "idl":
        return Interp.claim_s(c)
    if isinstance(c, tuple) and c and c[0] == "idlres" and isinstance(c[1], tuple) and c[1][0] == "sub":
        return "filter2idl_sub"
    return _claim_key(c)


def _claim_show(c):
    if isinstance(c, tuple) and c and c[0] == "idl":
        return Interp.claim_s(c)
    if isinstance(c, tuple) and c and c[0] == "idlres" and isinstance(c[1], tuple) and c[1][0] == "sub":
        return "filter2idl_sub(..)?"
    if isinstance(c, tuple) and c and c[0] in ("idlvar", "idlres"):
        return "<" + str(c[1]) + " list>"
    return "<unrecognised>"


def _claim_key(c):
    if isinstance(c, tuple) and c and c[0] == "idl":
        if c[2] is None:
            return c[1]
        return f"{c[1]}({'empty' if c[2] == ('empty',) else 'set'})"
    if isinstance(c, tuple) and c and c[0] in ("idlvar", "idlres"):
        return "passthrough"
    return "unrecognised"


def run_sub(ctx):
    F = ctx.facts
    f = ctx.fn(LIB, BT + "::filter2idl_sub")
    idl_variants = enum_variants(F, LIB, IDL)
    it = Interp(ctx, f, "sub", idl_variants)
    st = St()
    for i, p in enumerate(f["params"]):
        if p["pat"].get("p") == "bind":
            st.env[p["pat"]["local"]] = ("param", i)
    try:
        outs = it.ev(f["body"], st)
    except (Shape, Undecided) as ex:
        ctx.violation("K4-sub", f["fn"], "shape-not-understood", f"filter2idl_sub: {ex} (fail closed)", file=f["file"], line=f["line"])
        return
    finals = {}
    for (k, v, s) in outs:
        c = claim_of(v)
        if isinstance(c, tuple) and c and c[0] == "err":
            continue
        key = f"sub:{_claim_key(c)}"
        empty_key = any(isinstance(t, tuple) and t[0] == "next" and ch == "None" for t, ch in s.choices.items())
        if isinstance(c, tuple) and c[0] == "idl" and c[1] == "Indexed" and c[2] == ("empty",) and empty_key and not s.somes:
            key = "sub:empty-key:Indexed(empty)"
            if ACCEPT_EMPTY_SUBSTRING_KEY:
                finals.setdefault(key, []).append((True, "Indexed(∅) for the empty sub-string key (accepted by DESIGN.md C01 leaf table)", f["line"]))
                continue
        try:
            ok, why = it.judge(s, c, "acc")
        except Shape as ex:
            ok, why = False, f"shape not understood: {ex}"
        finals.setdefault(key, []).append((ok, f"{_claim_show(c)}: {why}", f["line"]))
    for key, lst in it.rows.items():
        finals.setdefault(key, []).extend(lst)
    for key, lst in sorted(finals.items()):
        bad = [d for (ok, d, _) in lst if not ok]
        ctx.check(not bad, "K4-sub", f["fn"], key, "; ".join(sorted({d for (_, d, _) in lst}))[:300],
                  f"filter2idl_sub, {key}: " + "; ".join(sorted(set(bad))) +
                  " — trigraph lists are only supersets of the sub-string matches (starts/ends-with are not encoded), so the result must stay Partial and be re-tested",
                  file=f["file"], line=f["line"])
        ctx.sample(f"K4-sub {key} :: " + "; ".join(sorted({d for (_, d, _) in lst}))[:160])
    ctx.floor("K4-sub", "filter2idl_sub outcomes", len(finals), 3)
    for kid in it.assumed_unreachable:
        ctx.assumptions.append(f"filter2idl_sub: get_idl({kid[0]}) returning None after an earlier Some for the same (attr, index type) is unreachable "
                               f"(index-table existence is constant within a transaction); that arm is not judged")


# ---------------------------------------------------------------------------
# search / exists

def run_retest(ctx, name):
    F = ctx.facts
    f = ctx.fn(LIB, BT + "::" + name)
    rule = "K4-retest"
    idl_variants = [n for n, _ in enum_variants(F, LIB, IDL) or []]
    filt = None
    for i, p in enumerate(f["params"]):
        if "FilterValidResolved" in p["ty"] and p["pat"].get("p") == "bind":
            filt = p["pat"]["local"]
    if not ctx.check(filt is not None, rule, f["fn"], f"{name}:filter-param", "filter parameter found", "no Filter<FilterValidResolved> parameter", file=f["file"], line=f["line"]):
        return
    # (1) candidates come from filter2idl over the same (whole) filter
    ok1 = False
    for c in calls_in(f["body"], "BackendTransaction::filter2idl"):
        a = unwrap(c["args"][0]) if c["args"] else None
        if a and a.get("e") == "mcall" and is_call_to(a, "to_inner") and local_of(a["recv"]) == filt:
            ok1 = True
    ctx.check(ok1, rule, f["fn"], f"{name}:candidates-from-whole-filter", "idl = filter2idl(filt.to_inner(), ..)",
              f"{name} no longer computes its candidate list from filt.to_inner() (candidates and re-test would use different filters)", file=f["file"], line=f["line"])

    def is_retest_closure(cl):
        if cl is None or len(cl["params"]) != 1 or cl["params"][0].get("p") != "bind":
            return False
        b = unwrap(cl["body"])
        return (b.get("e") == "mcall" and is_call_to(b, "entry_match_no_index") and local_of(b["recv"]) == cl["params"][0]["local"]
                and len(b["args"]) == 1 and local_of(b["args"][0]) == filt)

    def retest_chains(node):
        """filter(...) calls with a whole-filter re-test closure -> [(call, root local)]"""
        out = []
        for n in walk(node):
            if n.get("e") == "mcall" and is_call_to(n, "Iterator::filter") and n["args"] and is_retest_closure(closure_of(n["args"][0])):
                out.append((n, local_of(recv_root(n))))
        return out

    # (2) the entries fetched with get_identry
    entry_locals = {}
    for n in walk(f["body"]):
        if n.get("s") == "let" and n.get("init") is not None and n["pat"].get("p") == "bind":
            if calls_in(strip_try(n["init"]), "get_identry", into_closures=False):
                entry_locals[n["pat"]["local"]] = n
    if not ctx.check(len(entry_locals) >= 1, rule, f["fn"], f"{name}:entries-found", "get_identry result bound", "no `let entries = ..get_identry(..)?` found (shape not understood)", file=f["file"], line=f["line"]):
        return
    # (3) dispatch tables on the candidate list that guard the re-test
    tables = []
    for n in walk(f["body"]):
        if n.get("e") == "match" and n.get("src") == "Normal" and n.get("scrut_ty", "").replace("&", "").strip() == "be::IdList":
            if any(calls_in(a["body"], "entry_match_no_index") or any(refs_to(a["body"], l) for l in entry_locals) for a in n["arms"]):
                tables.append(n)
    if not ctx.check(len(tables) >= 1, rule, f["fn"], f"{name}:table-found", "result table over IdList found",
                     f"{name} has no `match idl {{..}}` deciding about the re-test (shape not understood)", file=f["file"], line=f["line"]):
        return
    covered = set()
    for tb in tables:
        for vn in idl_variants:
            try:
                _, arm, _ = first_arm(tb, V(vn, [None] if vn != "AllIds" else []), allow_guard=False)
            except Undecided as ex:
                ctx.violation(rule, f["fn"], f"{name}:retest:{vn}", f"result table arm for IdList::{vn} not decidable: {ex}", file=f["file"], line=tb.get("line"))
                continue
            if arm is None:
                continue
            if vn == "Indexed":
                ctx.ok(rule, f["fn"], f"{name}:retest:Indexed", "exact list: re-test may be skipped")
                continue
            chains = retest_chains(arm["body"])
            roots_ok = [c for c in chains if c[1] in entry_locals]
            refs = [r for l in entry_locals for r in refs_to(arm["body"], l)]
            in_chain = set()
            for (c, _) in roots_ok:
                for r in walk(c["recv"]):
                    in_chain.add(id(r))
            stray = [r for r in refs if id(r) not in in_chain]
            # entries defined inside this arm (exists): all their uses must be re-test chains too
            ok = bool(roots_ok) and not stray
            ctx.check(ok, rule, f["fn"], f"{name}:retest:{vn}",
                      f"IdList::{vn}: entries.filter(|e| e.entry_match_no_index(filt))",
                      f"{name}: the arm for IdList::{vn} " + ("uses the fetched entries without the per-entry re-test" if stray or not chains
                                                              else "re-tests something else than the fetched entries") +
                      f" — {vn} is only a superset of the matching entries, so non-matching entries would be returned",
                      file=f["file"], line=arm["body"].get("line"))
            covered.add(vn)
            ctx.sample(f"{rule} {name} IdList::{vn} -> re-test with the whole filter")
    # (4) no use of the fetched entries outside the result tables
    for l, letn in entry_locals.items():
        allrefs = refs_to(f["body"], l)
        inside = set()
        for tb in tables:
            for a in tb["arms"]:
                for r in refs_to(a["body"], l):
                    inside.add(id(r))
        esc = [r for r in allrefs if id(r) not in inside]
        ctx.check(not esc, rule, f["fn"], f"{name}:entries-only-via-table",
                  "fetched entries are only used inside the IdList result table",
                  f"{name}: fetched candidate entries are used outside the `match idl` result table (line {esc[0].get('line') if esc else '?'}) — they could be returned without the re-test",
                  file=f["file"], line=esc[0].get("line") if esc else f["line"])
    missing = [v for v in idl_variants if v != "Indexed" and v not in covered]
    ctx.check(not missing, rule, f["fn"], f"{name}:all-variants-covered", "every non-Indexed variant re-tests",
              f"{name}: no result-table arm found for IdList variants {missing}", file=f["file"], line=f["line"])


def run(ctx):
    ctx.explanation = ("Candidate-set algebra of filter2idl decided by abstract interpretation + exhaustive one-element model check of every "
                       "table row against the reference evaluator's boolean meaning; search/exists re-test every non-Indexed list with the whole "
                       "filter. Structural induction makes the claim hold for all filters and index layouts. Not decided: index contents (C03), "
                       "Inclusion, resource limits, resolve cache.")
    ref = reference_table(ctx)
    run_f2i(ctx, ref)
    run_sub(ctx)
    for name in ("search", "exists"):
        run_retest(ctx, name)
    ctx.exhaustive = True
    if ACCEPT_EMPTY_SUBSTRING_KEY:
        ctx.notes.append("O1: filter2idl_sub returns Indexed(∅) for an empty sub-string key while the reference evaluator matches every value "
                         "(`contains(\"\")`); accepted by the DESIGN.md leaf table, not reported")
