"""C39 OAuth2 tokens are redeemable only as issued — K3 path conditions with propositional entailment, K4 cross-crate coupling.

 K3-code      check_oauth2_token_exchange_authorization_code: every site producing the access-token response (call of
              generate_access_token_response, any Ok(..)) is under
                decrypt   o2rs.key_object.jwe_decrypt(<the code parameter>) succeeded, o2rs being the *parameter* (the authenticated client)
                expiry    ¬(code.expiry <= now)
                redirect  token_req_redirect_uri == code.redirect_uri
                pkce      (challenge ⇒ PkceS256Secret::from(verifier).verify(challenge)) ∧ (no challenge ⇒ ¬require_pkce() ∧ ¬verifier.is_some())
              and the response is built from the code's own scopes / account / session.
 K3-dispatch  check_oauth2_token_exchange: the client handed to the code / refresh functions is rs_set_get(client_auth.client_id);
              a Basic (confidential) client on a non-token-exchange grant has passed authz_secret.ct_eq(secret); the results of the
              code and refresh functions are returned unchanged (needed by the commit coupling).
 K3-refresh   check_oauth2_token_refresh: response under decrypt with the client's key, the Refresh arm, ¬(exp <= now),
              check_oauth2_account_uuid_valid(..) = Ok(Some), session present, ¬(iat < session.issued_at); the scopes issued are either
              the token's own or a requested set that passed requested.is_subset(token scopes).
 K4-replay    the branch iat < session.issued_at removes the OAuth2 session (internal_modify, Modify::Removed(OAuth2Session, session_id))
              and every Err variant returned after that modify is in the set of variants on which kanidmd_core's
              handle_oauth2_token_exchange commits its write transaction (extracted from the actor's match; Ok must commit too).
 K3-valid     oauth2_token_introspect_jwt / _jwe (`active: true` responses) and oauth2_openid_userinfo (OidcToken) are under signature
              verification / decryption with the client's key object, ¬(exp <= now) and check_oauth2_account_uuid_valid(..) = Ok(Some)
              called with the token's own subject and session.
 K4-pkce      PkceS256Secret::verify compares the presented challenge with SHA-256(secret) (to_challenge) and nothing else.
 K1           who calls generate_access_token_response; who constructs an active introspection response.
Not decided: the body of check_oauth2_account_uuid_valid (C32/C36), token contents produced by generate_access_token_response, crypto.
"""
import re
from .lib.hir import *
from .lib import pathcond as pc
from .lib.x_g7util import *

META = dict(
    technique="static path-condition extraction (K3) with propositional entailment over resolved atoms; cross-crate decision-table coupling (K4) between the "
              "refresh-replay error variant and the variants the HTTP actor commits on",
    level_text="Every site that yields an access-token response from an authorisation code or a refresh token is shown to lie under decryption with the "
               "authenticated client's own key, the expiry test, redirect-URI equality and the full PKCE case split (code), respectively account/session validity, "
               "replay detection and the scope-subset test (refresh); a replayed refresh token revokes the session and returns an error the actor provably "
               "commits on; introspection and userinfo only answer for tokens that verify, are unexpired and pass the account/session validity check.",
    level_note="Decides the guard structure of exchange / refresh / introspect / userinfo and the commit coupling across kanidmd_lib and kanidmd_core. Not decided: "
               "what check_oauth2_account_uuid_valid itself tests (C32/C36), the claims written by generate_access_token_response, JWE/JWS cryptography. "
               "Trusted: rustc facts, purity of guard calls, the atom table of this rule.",
)

LIB = "kanidmd_lib"
CORE = "kanidmd_core"
O2 = "kanidmd_lib::idm::oauth2::"
W = O2 + "<impl idm::server::IdmServerProxyWriteTransaction<'_>>::"
R = O2 + "<impl idm::server::IdmServerProxyReadTransaction<'_>>::"
CODE = W + "check_oauth2_token_exchange_authorization_code"
REFRESH = W + "check_oauth2_token_refresh"
DISPATCH = W + "check_oauth2_token_exchange"
GEN = W + "generate_access_token_response"
ACTOR = "kanidmd_core::actors::v1_write::<impl actors::QueryServerWriteV1>::handle_oauth2_token_exchange"
VALID = "check_oauth2_account_uuid_valid"
ERR = O2 + "Oauth2Error"
FLIPOP = {"<=": ">=", "<": ">", ">=": "<=", ">": "<"}


def free_locals(e):
    inner = {n["local"] for n in walk(e) if n.get("p") == "bind"}
    return {n["res"]["local"] for n in walk(e) if n.get("e") == "path" and "local" in n.get("res", {})} - inner


def field_of_local(e, field, local):
    e = unwrap(e)
    while isinstance(e, dict) and e.get("e") == "mcall" and not e["args"] and e["name"] in ("clone", "as_ref", "as_str", "to_owned", "as_deref"):
        e = unwrap(e["recv"])
    return isinstance(e, dict) and e.get("e") == "field" and e["f"] == field and local_of(e["x"]) == local


def let_local_with(body, pred):
    for n in walk(body):
        if n.get("s") == "let" and "init" in n and n["pat"].get("p") == "bind" and pred(n["init"]):
            return n["pat"]["local"], n["init"]
    return None, None


class Fn:
    """Per-function context: binds, provenance helpers, atom recognisers shared by the token functions."""

    def __init__(self, f):
        self.f = f
        self.body = f["body"]
        self.binds = pc.collect_binds(self.body)
        self.mutbinds = {}
        for n in walk(self.body):
            if n.get("s") == "let" and "init" in n and n["pat"].get("p") == "bind":
                self.mutbinds.setdefault(n["pat"]["local"], n["init"])
        self.params = {p["pat"].get("name"): p["pat"].get("local") for p in f["params"] if p["pat"].get("p") == "bind"}
        self.ptys = {p["pat"].get("local"): p["ty"] for p in f["params"] if p["pat"].get("p") == "bind"}
        # pattern-bound local -> (source expr, struct def, field)
        self.psrc = {}
        for n in walk(self.body):
            src = None
            if (n.get("s") == "let" or n.get("e") == "let") and "init" in n:
                src, pats = n["init"], [n["pat"]]
            elif n.get("e") == "match" and n.get("src") == "Normal":
                src, pats = n["scrut"], [a["pat"] for a in n["arms"]]
            if src is None:
                continue
            for p in pats:
                for q in walk(p):
                    if q.get("p") == "struct":
                        for fl in q["fields"]:
                            fp = fl["pat"]
                            while fp.get("p") == "ref":
                                fp = fp["pat"]
                            if fp.get("p") == "bind":
                                self.psrc.setdefault(fp["local"], (src, q["path"].get("def", ""), fl["f"]))
                    elif q.get("p") == "tstruct":
                        for i, fp in enumerate(q["pats"]):
                            if fp.get("p") == "bind":
                                self.psrc.setdefault(fp["local"], (src, q["path"].get("def", ""), str(i)))

    def ct(self):
        for l, ty in self.ptys.items():
            if ty == "core::time::Duration":
                return l
        return None

    def init_of(self, e, depth=3):
        """Resolve a local to its (immutable) let initialiser."""
        l = local_of(e)
        while l is not None and l in self.binds and depth > 0:
            e = self.binds[l]
            l = local_of(e)
            depth -= 1
        return e

    def derives(self, e, local, depth=4):
        if mentions_local(e, local):
            return True
        if depth <= 0:
            return False
        for l in free_locals(e):
            if l in self.binds and self.derives(self.binds[l], local, depth - 1):
                return True
            if l in self.psrc and self.derives(self.psrc[l][0], local, depth - 1):
                return True
        return False

    def token_field(self, e, names, token_local=None):
        """e is a local bound by a struct pattern field in `names` (of the token `token_local` when given) or token_local.<name>."""
        u = unwrap(e)
        if isinstance(u, dict) and u.get("e") == "field" and u["f"] in names and (token_local is None or local_of(u["x"]) == token_local):
            return True
        l = local_of(e)
        if l is not None and l in self.binds and local_of(self.binds[l]) is None:
            return self.token_field(self.binds[l], names, token_local)
        if l is None or l not in self.psrc:
            return False
        src, _, fld = self.psrc[l]
        if fld not in names:
            return False
        return token_local is None or self.derives(src, token_local, 2) or local_of(src) == token_local

    def expiry_atom(self, e, is_exp):
        """bin comparison between an expiry expression and something derived from `ct` -> (atom, polarity)."""
        if e.get("e") != "bin" or e["op"] not in FLIPOP:
            return None
        ct = self.ct()
        l, r, op = e["l"], e["r"], e["op"]
        if is_exp(r) and not is_exp(l):
            l, r, op = r, l, FLIPOP[op]
        if not is_exp(l) or ct is None or not self.derives(r, ct, 2):
            return None
        return {"<=": ("expiry<=now", True), ">": ("expiry<=now", False), "<": ("expiry<now", True), ">=": ("expiry<now", False)}[op]

    def valid_call(self, e):
        """The check_oauth2_account_uuid_valid call inside e (resolving a local), or None."""
        e = self.init_of(e)
        for c in ucalls(e):
            if c.get("e") == "mcall" and is_call_to(c, "IdmServerTransaction::" + VALID, VALID):
                return c
        return None


def check_clause(ctx, rule, fnrec, inst, props, required, desc, why, line=None):
    res, model = entails(props, required)
    if res is True:
        ctx.ok(rule, fnrec["fn"], inst, desc)
        return True
    if res is None:
        ctx.violation(rule, fnrec["fn"], inst, f"cannot decide `{desc}`: too many interacting conditions ({model}) — shape not understood", file=fnrec["file"], line=line)
        return False
    ctx.violation(rule, fnrec["fn"], inst,
                  f"the site is reachable without `{desc}`: the conditions on the path are also satisfied by the assignment [{model_str(model, hide={a for a, v in model.items() if not v and a not in prop_atoms(required)})}] — {why}", file=fnrec["file"], line=line)
    return False


def key_object_call(X, e, method, o2rs_local, arg_from):
    """e contains <o2rs_local>.key_object.<method>(<derived from arg_from>)."""
    for c in ucalls(e):
        if c.get("e") == "mcall" and c["name"] == method and is_call_to(c, "KeyObjectT::" + method, method):
            r = unwrap(c["recv"])
            if r.get("e") == "field" and r["f"] == "key_object" and local_of(r["x"]) == o2rs_local and c["args"] and X.derives(c["args"][0], arg_from):
                return True
    return False


def run(ctx):
    F = ctx.facts
    ctx.explanation = ("K3 with propositional entailment on the code exchange, refresh, introspection and userinfo functions (decrypt/verify with the client's key, expiry, "
                       "redirect equality, PKCE case split, account/session validity, replay, scope subset); K4 coupling: the Err variant returned after the "
                       "session-revoking modify of a replayed refresh token is one the kanidmd_core actor commits on.")
    run_code(ctx, F)
    run_dispatch(ctx, F)
    replay_variants = run_refresh(ctx, F)
    run_actor(ctx, F, replay_variants)
    run_valid(ctx, F)
    run_pkce_verify(ctx, F)
    run_k1(ctx, F)
    ctx.exhaustive = True      # every sink site of the anchored functions is enumerated from the HIR


# ---- code exchange ----------------------------------------------------------------------------------------------------

def response_sinks(X):
    def is_sink(n):
        if n.get("exp"):
            return False
        if n.get("e") == "mcall" and is_call_to(n, GEN, "generate_access_token_response"):
            return True
        if n.get("e") == "call" and ends(n.get("ctor") or "", "core::result::Result::Ok"):
            return True
        if n.get("e") == "struct" and def_of(n).endswith("oauth2::AccessTokenResponse"):
            return True
        return False
    return pc.site_conditions(X.body, is_sink)


def run_code(ctx, F):
    f = ctx.fn(LIB, CODE)
    X = Fn(f)
    rule = "K3-code"
    P = X.params
    o2rs, code_p, uri_p, ver_p = P.get("o2rs"), None, None, None
    # parameters by type rather than by name
    o2rs = next((l for l, t in X.ptys.items() if t == "&idm::oauth2::Oauth2RS"), None)
    strs = [p["pat"]["local"] for p in f["params"] if p["ty"] == "&str" and p["pat"].get("p") == "bind"]
    code_p = strs[0] if strs else None
    uri_p = next((l for l, t in X.ptys.items() if t == "&url::Url"), None)
    ver_p = next((l for l, t in X.ptys.items() if t == "core::option::Option<&str>"), None)
    if not ctx.check(None not in (o2rs, code_p, uri_p, ver_p, X.ct()), rule, CODE, "signature", "(self, &Oauth2RS, code: &str, redirect: &Url, verifier: Option<&str>, ct)",
                     f"parameters are {[p['ty'] for p in f['params']]}: shape not understood", file=f["file"], line=f["line"]):
        return
    xl, _ = let_local_with(X.body, lambda init: key_object_call(X, init, "jwe_decrypt", o2rs, code_p))
    if not ctx.check(xl is not None, rule, CODE, "code-local", "code = o2rs.key_object.jwe_decrypt(code)",
                     "no local bound from `o2rs.key_object.jwe_decrypt(<code parameter>)` with o2rs the function's client parameter: the code is not opened with the "
                     "authenticated client's own key (a code issued to another client would be redeemable here)", file=f["file"], line=f["line"]):
        return
    chal_locals = set()
    for n in walk(X.body):
        if n.get("e") == "let" and field_of_local(n["init"], "code_challenge", xl):
            chal_locals |= {l for (l, _) in pat_binds(n["pat"])}

    def verifier_secret(e):
        """e is PkceS256Secret::from(<verifier parameter>) (possibly through locals)."""
        e = X.init_of(e)
        u = unwrap(e)
        return isinstance(u, dict) and u.get("e") == "call" and is_call_to(u, "PkceS256Secret as core::convert::From<alloc::string::String>>::from", "core::convert::From::from") \
            and X.derives(u, ver_p) and "PkceS256Secret" in (u.get("ty") or u.get("resolved") or u.get("callee") or "")

    def atom_of(leaf):
        kind = leaf[1]
        rl = as_result_leaf(leaf)
        if rl is not None:
            if key_object_call(X, rl[0], "jwe_decrypt", o2rs, code_p):
                return ("code decrypts with the client's key", rl[1])
            u = unwrap(rl[0])
            if u.get("e") == "mcall" and u["name"] in ("ok_or_else", "ok_or") and local_of(u["recv"]) == ver_p:
                return ("verifier present", rl[1])
        if kind == "let":
            pat, init = leaf[2]
            if field_of_local(init, "code_challenge", xl) and pat.get("p") == "tstruct" and ends(pat["path"].get("def", ""), "core::option::Option::Some"):
                return ("challenge recorded", True)
        elif kind == "expr":
            e = unwrap(leaf[2])
            a = X.expiry_atom(e, lambda x: field_of_local(x, "expiry", xl))
            if a:
                return a
            if e.get("e") == "bin" and e["op"] in ("==", "!="):
                sides = [unwrap(e["l"]), unwrap(e["r"])]
                if any(local_of(s) == uri_p for s in sides) and any(field_of_local(s, "redirect_uri", xl) for s in sides):
                    return ("redirect_uri == recorded", e["op"] == "==")
            if e.get("e") == "mcall" and is_call_to(e, "PkceS256Secret::verify") and len(e["args"]) == 1 and local_of(e["args"][0]) in chal_locals and verifier_secret(e["recv"]):
                return ("verifier hashes to challenge", True)
            if e.get("e") == "mcall" and is_call_to(e, "Oauth2RS::require_pkce") and local_of(e["recv"]) == o2rs:
                return ("require_pkce()", True)
            if e.get("e") == "mcall" and is_call_to(e, "Option::<T>::is_some") and local_of(e["recv"]) == ver_p:
                return ("verifier present", True)
            if e.get("e") == "mcall" and is_call_to(e, "Option::<T>::is_none") and local_of(e["recv"]) == ver_p:
                return ("verifier present", False)
        return None

    A = P_atom
    C, V, Q, Wv = A("challenge recorded"), A("verifier hashes to challenge"), A("require_pkce()"), A("verifier present")
    CLAUSES = [
        ("decrypt", A("code decrypts with the client's key"), "o2rs.key_object.jwe_decrypt(code) succeeded (client's own key object)",
         "a code that was not issued for this client yields tokens"),
        ("expiry", P_not(A("expiry<=now")), "¬(code.expiry <= now)", "an expired authorisation code yields tokens"),
        ("redirect", A("redirect_uri == recorded"), "token_req_redirect_uri == code.redirect_uri", "the code is redeemed with a different redirect URI than the one it was issued for"),
        ("pkce-challenge", P_or(P_not(C), V), "challenge recorded ⇒ PkceS256Secret::from(verifier).verify(challenge)",
         "a code issued with a PKCE challenge is redeemed without a verifier hashing to it"),
        ("pkce-none", P_or(C, P_and(P_not(Q), P_not(Wv))), "no challenge recorded ⇒ ¬require_pkce() ∧ no verifier presented",
         "a code without a recorded challenge is redeemed although the client requires PKCE (downgrade), or a stray verifier is accepted"),
    ]
    sites = response_sinks(X)
    ctx.floor(rule, "access-token response sites in the code exchange", len(sites), 1)
    for i, (s, conds) in enumerate(sites):
        key = "response" if i == 0 else f"response#{i+1}"
        props = [to_prop(subst(c, X.binds), atom_of) for c in conds]
        for (cn, req, desc, why) in CLAUSES:
            check_clause(ctx, rule, f, f"{key}:{cn}", props, req, desc, why, line=s.get("line"))
        ctx.sample(f"code exchange {key} @{s.get('line')}: decrypt ∧ ¬expired ∧ redirect== ∧ pkce case split entailed")
        if s.get("e") == "mcall" and is_call_to(s, GEN, "generate_access_token_response"):
            args = s["args"]
            ctx.check(len(args) >= 3 and local_of(args[0]) == o2rs, rule, CODE, f"{key}:same-client", "tokens generated for the same client parameter",
                      f"generate_access_token_response is called with client `{ex_s(args[0]) if args else '?'}`, expected the function's own client parameter", file=f["file"], line=s.get("line"))
            sc = args[2] if len(args) > 2 else None
            ctx.check(sc is not None and X.token_field(sc, {"scopes"}, xl), rule, CODE, f"{key}:scopes-from-code", "scopes = code.scopes",
                      f"the scopes issued are `{ex_s(sc) if sc is not None else '?'}`, expected the scopes recorded in the code (code.scopes): tokens would carry scopes that were never granted",
                      file=f["file"], line=s.get("line"))
            ctxarg = X.init_of(args[5]) if len(args) > 5 else None
            acc = None
            if ctxarg is not None and unwrap(ctxarg).get("e") == "struct":
                acc = next((fx["x"] for fx in unwrap(ctxarg)["fields"] if fx["f"] == "account_uuid"), None)
            ctx.check(acc is not None and X.token_field(acc, {"account_uuid"}, xl), rule, CODE, f"{key}:account-from-code", "account = code.account_uuid",
                      f"the session context's account is `{ex_s(acc) if acc is not None else '?'}`, expected code.account_uuid", file=f["file"], line=s.get("line"))


# ---- dispatcher ----------------------------------------------------------------------------------------------------------

def run_dispatch(ctx, F):
    f = ctx.fn(LIB, DISPATCH)
    X = Fn(f)
    rule = "K3-dispatch"
    info_p = next((l for l, t in X.ptys.items() if "ClientAuthInfo" in t), None)
    req_p = next((l for l, t in X.ptys.items() if "AccessTokenRequest" in t), None)
    ca, _ = let_local_with(X.body, lambda init: any(is_call_to(c, O2 + "get_client_auth") for c in ucalls(init)))
    o2rs, _ = let_local_with(X.body, lambda init: ca is not None and any(is_call_to(c, "Oauth2RSInner::rs_set_get") and c["args"] and field_of_local(c["args"][0], "client_id", ca)
                                                                         for c in ucalls(init)))
    if not ctx.check(ca is not None and o2rs is not None, rule, DISPATCH, "client-local", "client = rs_set_get(get_client_auth(..).client_id)",
                     "no `let o2rs = ..rs_set_get(&client_auth.client_id)..` with client_auth from get_client_auth(..): the client whose key opens the code is not the "
                     "authenticated one (shape not understood)", file=f["file"], line=f["line"]):
        return
    secret_locals = set()
    authz_locals = {l for l, (src, d, fld) in X.psrc.items() if fld == "authz_secret" and d.endswith("OauthRSType::Basic")}

    def atom_of(leaf):
        kind = leaf[1]
        if kind == "arm":
            scrut, pat = leaf[2]
            if any(l in authz_locals for (l, _) in pat_binds(pat)):
                return ("Basic client, not a token exchange", True)
        if kind == "expr":
            e = unwrap(leaf[2])
            if e.get("e") == "mcall" and is_call_to(e, "CtSecret::ct_eq") and local_of(e["recv"]) in authz_locals and e["args"] and X.derives(e["args"][0], ca):
                return ("authz_secret.ct_eq(secret)", True)
        rl = as_result_leaf(leaf)
        if rl is not None:
            for c in ucalls(rl[0]):
                if is_call_to(c, "Oauth2RSInner::rs_set_get") and c["args"] and field_of_local(c["args"][0], "client_id", ca):
                    return ("client found", rl[1])
        return None

    # exhaustiveness axioms: one arm of every (unguarded) match is taken
    axioms = []
    for m in walk(X.body):
        if m.get("e") == "match" and m.get("src") == "Normal" and not m.get("exp") and all("guard" not in a for a in m["arms"]) \
                and not any(pc.is_catch_all(a["pat"]) for a in m["arms"]):
            axioms.append(("or", [("leaf", "arm", (m["scrut"], a["pat"])) for a in m["arms"]]))

    A = P_atom
    targets = [("code", CODE, "check_oauth2_token_exchange_authorization_code"), ("refresh", REFRESH, "check_oauth2_token_refresh")]
    tails = [unwrap(v) for v in tail_values(X.body)]
    for (nm, callee, shortn) in targets:
        sites = pc.site_conditions(X.body, lambda n: n.get("e") == "mcall" and is_call_to(n, callee, shortn) and not n.get("exp"))
        if not ctx.check(len(sites) >= 1, rule, DISPATCH, f"{nm}:called", f"{shortn} called", f"check_oauth2_token_exchange no longer calls {shortn}: anchor drift",
                         file=f["file"], line=f["line"]):
            continue
        for (s, conds) in sites:
            a0 = s["args"][0] if s["args"] else None
            ctx.check(a0 is not None and local_of(a0) == o2rs, rule, DISPATCH, f"{nm}:authenticated-client", "called with the authenticated client",
                      f"{shortn} is called with client `{ex_s(a0) if a0 is not None else '?'}`, expected the client looked up from the authenticated client_id: the code/refresh token "
                      f"would be opened with another client's key object", file=f["file"], line=s.get("line"))
            props = [to_prop(subst(c, X.binds), atom_of) for c in conds + axioms]
            check_clause(ctx, rule, f, f"{nm}:client-found", props, A("client found"), "rs_set_get(client_id) succeeded", "tokens are exchanged for an unknown client")
            check_clause(ctx, rule, f, f"{nm}:client-secret", props, P_or(P_not(A("Basic client, not a token exchange")), A("authz_secret.ct_eq(secret)")),
                         "confidential (Basic) client ⇒ authz_secret.ct_eq(presented secret)",
                         "a confidential client's codes / refresh tokens are redeemable without its secret, i.e. by someone who is not that client")
            ctx.check(any(t is s for t in tails), rule, DISPATCH, f"{nm}:result-unchanged", "result returned unchanged",
                      f"the result of {shortn} is not returned as-is by check_oauth2_token_exchange (wrapped or remapped): the error variant the HTTP actor commits on "
                      f"(replay revocation) may no longer reach it", file=f["file"], line=s.get("line"))


# ---- refresh ---------------------------------------------------------------------------------------------------------------

def run_refresh(ctx, F):
    f = ctx.fn(LIB, REFRESH)
    X = Fn(f)
    rule = "K3-refresh"
    o2rs = next((l for l, t in X.ptys.items() if t == "&idm::oauth2::Oauth2RS"), None)
    strs = [p["pat"]["local"] for p in f["params"] if p["ty"] == "&str" and p["pat"].get("p") == "bind"]
    tok_p = strs[0] if strs else None
    req_p = next((l for l, t in X.ptys.items() if t.startswith("core::option::Option<&alloc::collections::btree::set::BTreeSet")), None)
    if not ctx.check(None not in (o2rs, tok_p, req_p, X.ct()), rule, REFRESH, "signature", "(self, &Oauth2RS, refresh_token: &str, req_scopes: Option<&BTreeSet<String>>, ct)",
                     f"parameters are {[p['ty'] for p in f['params']]}: shape not understood", file=f["file"], line=f["line"]):
        return set()
    tl, _ = let_local_with(X.body, lambda init: key_object_call(X, init, "jwe_decrypt", o2rs, tok_p))
    if not ctx.check(tl is not None, rule, REFRESH, "token-local", "token = o2rs.key_object.jwe_decrypt(refresh_token)",
                     "no local bound from `o2rs.key_object.jwe_decrypt(<refresh token parameter>)`: the refresh token is not opened with the authenticated client's key",
                     file=f["file"], line=f["line"]):
        return set()

    def tfield(e, *names):
        return X.token_field(e, set(names), tl)

    sess_l, _ = let_local_with(X.body, lambda init: any(is_call_to(c, "get_ava_as_oauth2session_map") for c in ucalls(init)))

    def atom_of(leaf):
        kind = leaf[1]
        rl = as_result_leaf(leaf)
        if rl is not None:
            if key_object_call(X, rl[0], "jwe_decrypt", o2rs, tok_p):
                return ("token decrypts with the client's key", rl[1])
            if any(is_call_to(c, "get_ava_as_oauth2session_map") for c in ucalls(rl[0])):
                return ("oauth2 session present", rl[1])
        if kind == "arm":
            scrut, pat = leaf[2]
            if local_of(scrut) == tl and has_token(tokens(pat), "def", "Oauth2TokenType::Refresh"):
                return ("token is a Refresh token", True)
            if local_of(scrut) == req_p and pat.get("p") == "tstruct" and ends(pat["path"].get("def", ""), "core::option::Option::Some"):
                return ("scopes requested", True)
            if local_of(scrut) == req_p and is_ctor_pat(pat, "core::option::Option::None"):
                return ("scopes requested", False)
        elif kind == "let":
            pat, init = leaf[2]
            toks = tokens(pat)
            if has_token(toks, "def", "core::result::Result::Ok") and has_token(toks, "def", "core::option::Option::Some"):
                c = X.valid_call(init)
                if c is not None and len(c["args"]) >= 5 and tfield(c["args"][0], "uuid") and tfield(c["args"][1], "session_id") and local_of(c["args"][-1]) == X.ct():
                    return ("account and session valid", True)
            if local_of(init) == req_p and pat.get("p") == "tstruct" and ends(pat["path"].get("def", ""), "core::option::Option::Some"):
                return ("scopes requested", True)
        elif kind == "expr":
            e = unwrap(leaf[2])
            a = X.expiry_atom(e, lambda x: tfield(x, "exp"))
            if a:
                return a
            if e.get("e") == "bin" and e["op"] in FLIPOP:
                l, r, op = e["l"], e["r"], e["op"]
                is_iss = lambda x: sess_l is not None and X.derives(x, sess_l, 1) and any(n.get("e") == "field" and n["f"] == "issued_at" for n in walk(x))
                if is_iss(l) and not is_iss(r):
                    l, r, op = r, l, FLIPOP[op]
                if tfield(l, "iat") and is_iss(r):
                    return {"<": ("iat < session.issued_at", True), ">=": ("iat < session.issued_at", False),
                            "<=": ("iat <= session.issued_at", True), ">": ("iat <= session.issued_at", False)}[op]
            if e.get("e") == "mcall" and is_call_to(e, "BTreeSet::<T, A>::is_subset") and len(e["args"]) == 1 and X.derives(e["recv"], req_p, 2) and tfield(e["args"][0], "scopes"):
                return ("requested ⊆ token scopes", True)
        return None

    A = P_atom
    CLAUSES = [
        ("decrypt", A("token decrypts with the client's key"), "o2rs.key_object.jwe_decrypt(refresh_token) succeeded", "a refresh token of another client is accepted"),
        ("is-refresh", A("token is a Refresh token"), "token is Oauth2TokenType::Refresh", "an access token is accepted as a refresh token"),
        ("expiry", P_not(A("expiry<=now")), "¬(exp <= now)", "an expired refresh token is accepted"),
        ("account-valid", A("account and session valid"), "check_oauth2_account_uuid_valid(uuid, session_id, ..) = Ok(Some(entry))",
         "a refresh token whose session or account was revoked / expired still yields tokens"),
        ("session", A("oauth2 session present"), "the OAuth2 session is present on the account", "tokens are refreshed for a session that does not exist"),
        ("no-replay", P_not(A("iat < session.issued_at")), "¬(iat < session.issued_at)", "an already-rotated (replayed) refresh token yields new tokens"),
        ("scope-subset", P_or(P_not(A("scopes requested")), A("requested ⊆ token scopes")), "scopes requested ⇒ requested.is_subset(token scopes)",
         "a refresh can obtain scopes beyond the original grant"),
    ]
    sites = response_sinks(X)
    ctx.floor(rule, "access-token response sites in refresh", len(sites), 1)
    for i, (s, conds) in enumerate(sites):
        key = "response" if i == 0 else f"response#{i+1}"
        props = [to_prop(subst(c, X.binds), atom_of) for c in conds]
        for (cn, req, desc, why) in CLAUSES:
            check_clause(ctx, rule, f, f"{key}:{cn}", props, req, desc, why, line=s.get("line"))
        ctx.sample(f"refresh {key} @{s.get('line')}: decrypt ∧ Refresh ∧ ¬expired ∧ account valid ∧ session ∧ ¬replay ∧ scope subset entailed")
        if s.get("e") == "mcall":
            args = s["args"]
            ctx.check(len(args) >= 3 and local_of(args[0]) == o2rs, rule, REFRESH, f"{key}:same-client", "tokens generated for the same client parameter",
                      f"generate_access_token_response is called with client `{ex_s(args[0]) if args else '?'}`", file=f["file"], line=s.get("line"))
            # the scopes issued: leaves of the initialiser are the token's scopes or the requested set under is_subset
            sc = args[2] if len(args) > 2 else None
            init = X.init_of(sc) if sc is not None else None
            leaves = [unwrap(v) for v in tail_values(init)] if init is not None else []
            leaf_ids = {id(v) for v in leaves}
            sub = {id(n): c for (n, c) in pc.site_conditions(init, lambda n: id(n) in leaf_ids)} if init is not None else {}
            bad = []
            for v in leaves:
                if v.get("e") == "ret":
                    continue
                if tfield(v, "scopes"):
                    continue
                if X.derives(v, req_p, 2) and not str_lits_any(v):
                    props2 = props + [to_prop(subst(c, X.binds), atom_of) for c in sub.get(id(v), [])]
                    res, _ = entails(props2, A("requested ⊆ token scopes"))
                    if res is True:
                        continue
                    bad.append(f"`{ex_s(v)[:50]}` (requested set, not under requested.is_subset(token scopes))")
                else:
                    bad.append(f"`{ex_s(v)[:50]}`")
            ctx.check(init is not None and leaves and not bad, rule, REFRESH, f"{key}:scopes-issued", "issued scopes = token scopes | requested ⊆ token scopes",
                      f"the scopes issued on refresh can be {bad or '?'}: a refresh must never grant scopes beyond the original grant", file=f["file"], line=s.get("line"))

    # ---- replay branch: revoke then return an error --------------------------------------------------
    rule = "K4-replay"

    def is_revoke(n):
        if n.get("e") != "mcall" or not is_call_to(n, "internal_modify"):
            return False
        toks = set()
        for a in n["args"]:
            toks |= tokens(X.init_of(a))
        return (has_token(toks, "def", "Modify::Removed") or has_token(toks, "call", "Modify::Removed")) and has_token(toks, "def", "Attribute::OAuth2Session")

    rsites = pc.site_conditions(X.body, lambda n: is_revoke(n) and not n.get("exp"))
    variants = set()
    if ctx.check(len(rsites) >= 1, rule, REFRESH, "revokes-session", "internal_modify(Removed(OAuth2Session, session))",
                 "check_oauth2_token_refresh contains no internal_modify removing the OAuth2Session: reuse of a rotated refresh token does not revoke the session",
                 file=f["file"], line=f["line"]):
        for (s, conds) in rsites:
            props = [to_prop(subst(c, X.binds), atom_of) for c in conds]
            check_clause(ctx, rule, f, "revoke:on-replay", props, A("iat < session.issued_at"), "iat < session.issued_at (refresh token older than the session's current one)",
                         "the session is revoked under another condition than replay of a rotated refresh token")
            toks = set()
            sess_ok = False
            for a in s["args"]:
                init = X.init_of(a)
                for n in walk(init):
                    if n.get("e") == "call" and ends(n.get("ctor") or "", "PartialValue::Refer") and n["args"] and tfield(n["args"][0], "session_id"):
                        sess_ok = True
            ctx.check(sess_ok, rule, REFRESH, "revoke:own-session", "removes the token's own session_id",
                      "the session removed on replay is not the refresh token's own session_id", file=f["file"], line=s.get("line"))
        # Err returned after the revoking modify succeeded
        esites = pc.site_conditions(X.body, lambda n: n.get("e") == "call" and ends(n.get("ctor") or "", "core::result::Result::Err") and not n.get("exp"))
        n_after = 0
        for (s, conds) in esites:
            after = False
            for c in conds:
                if c[0] == "leaf" and c[1] == "ok" and any(is_revoke(x) for x in walk(c[2])):
                    after = True
            if not after:
                continue
            n_after += 1
            vs = [d[len(ERR) + 2:] for d in (def_of(unwrap(a)) for a in s["args"]) if d.startswith(ERR + "::")] + \
                 [n.get("ctor")[len(ERR) + 2:] for a in s["args"] for n in [unwrap(a)] if n.get("e") == "call" and (n.get("ctor") or "").startswith(ERR + "::")]
            if not ctx.check(len(vs) == 1, rule, REFRESH, "after-revoke:variant", f"Err({vs})", f"error returned after the revoking modify is `{ex_s(s)[:60]}`: variant not recognised",
                             file=f["file"], line=s.get("line")):
                continue
            variants.add(vs[0])
        ctx.check(n_after >= 1, rule, REFRESH, "after-revoke:returns-error", "replay branch returns Err after revoking",
                  "no `Err(..)` is returned after the revoking modify: the replay branch falls through", file=f["file"], line=f["line"])
    return variants


def is_ctor_pat(p, suffix):
    while p.get("p") == "ref":
        p = p["pat"]
    return p.get("p") in ("expr", "tstruct", "struct") and ends(p.get("path", {}).get("def", ""), suffix)


def str_lits_any(e):
    return [n for n in uwalk(e) if n.get("e") == "lit" and n.get("lk") in ("str", "Str")]


# ---- the actor -------------------------------------------------------------------------------------------------------------

def run_actor(ctx, F, replay_variants):
    rule = "K4-replay"
    f = ctx.fn(CORE, ACTOR)
    X = Fn(f)
    resp, _ = let_local_with(X.body, lambda init: any(is_call_to(c, DISPATCH, "check_oauth2_token_exchange") for c in ucalls(init)) and
                             unwrap(init).get("e") == "mcall" and is_call_to(unwrap(init), DISPATCH, "check_oauth2_token_exchange"))
    if not ctx.check(resp is not None, rule, ACTOR, "resp-local", "resp = idms_prox_write.check_oauth2_token_exchange(..)",
                     "handle_oauth2_token_exchange does not bind the unmodified result of check_oauth2_token_exchange to a local: shape not understood", file=f["file"], line=f["line"]):
        return
    ms = [m for m in uwalk(X.body) if m.get("e") == "match" and m.get("src") == "Normal" and local_of(m["scrut"]) == resp]
    if not ctx.check(len(ms) == 1, rule, ACTOR, "commit-table-found", "match &resp {..}", f"found {len(ms)} `match` over the exchange result (expected one): shape not understood",
                     file=f["file"], line=f["line"]):
        return
    commit_on = set()
    all_err = False
    for a in ms[0]["arms"]:
        commits = any(is_call_to(c, "IdmServerProxyWriteTransaction::<'_>::commit") for c in ucalls(a["body"]))
        if not commits:
            continue
        if "guard" in a:
            continue
        alts = a["pat"]["pats"] if a["pat"].get("p") == "or" else [a["pat"]]
        for p in alts:
            while p.get("p") == "ref":
                p = p["pat"]
            if pc.is_catch_all(p):
                all_err = True
                commit_on.add("Ok")
            elif p.get("p") == "tstruct" and ends(p["path"].get("def", ""), "core::result::Result::Ok"):
                commit_on.add("Ok")
            elif p.get("p") == "tstruct" and ends(p["path"].get("def", ""), "core::result::Result::Err"):
                inner = p["pats"][0] if p["pats"] else {"p": "wild"}
                while inner.get("p") == "ref":
                    inner = inner["pat"]
                if pc.is_catch_all(inner):
                    all_err = True
                else:
                    d = def_of(inner)
                    if d.startswith(ERR + "::"):
                        commit_on.add(d[len(ERR) + 2:])
    ctx.sample(f"actor commits on {sorted(commit_on)}{' + every Err' if all_err else ''}; refresh replay returns {sorted(replay_variants)} after revoking")
    ctx.check("Ok" in commit_on, rule, ACTOR, "commits-on:Ok", "commits on Ok",
              "handle_oauth2_token_exchange does not commit on Ok(_): issued sessions / refresh rotation are not persisted", file=f["file"], line=ms[0].get("line"))
    ctx.check(len(replay_variants) >= 1, rule, ACTOR, "coupling:variant-known", f"replay variants {sorted(replay_variants)}",
              "no error variant was extracted from the refresh replay branch: the coupling cannot be decided", file=f["file"], line=ms[0].get("line"))
    for v in sorted(replay_variants):
        ctx.check(all_err or v in commit_on, rule, ACTOR, f"commits-on:Err({v})", f"Err({v}) ∈ commit set {sorted(commit_on)}",
                  f"check_oauth2_token_refresh returns Err(Oauth2Error::{v}) after revoking the session of a replayed refresh token, but handle_oauth2_token_exchange commits only on "
                  f"{sorted(commit_on)}: the write transaction is dropped and the revocation is lost — a stolen, already-rotated refresh token keeps its session alive",
                  file=f["file"], line=ms[0].get("line"))
    # the block that binds `resp` (inside the #[instrument] / async wrappers) must end in `resp`
    blk = None
    for n in walk(X.body):
        if n.get("e") == "block" and any(st.get("s") == "let" and st["pat"].get("p") == "bind" and st["pat"]["local"] == resp for st in n["stmts"]):
            blk = n
    tails = [unwrap(v) for v in tail_values(blk)] if blk is not None else []
    ctx.check(tails and all(local_of(t) == resp for t in tails), rule, ACTOR, "returns-resp", "returns the exchange result",
              f"the actor returns `{ex_s(tails[0])[:50] if tails else '?'}` rather than the exchange result", file=f["file"], line=f["line"])


# ---- introspection / userinfo ------------------------------------------------------------------------------------------------

def run_valid(ctx, F):
    rule = "K3-valid"
    specs = [
        (R + "oauth2_token_introspect_jwt", "jws_verify", "kanidm_proto::oauth2::AccessTokenIntrospectResponse", {"sub"}, False),
        (R + "oauth2_token_introspect_jwe", "jwe_decrypt", "kanidm_proto::oauth2::AccessTokenIntrospectResponse", {"uuid"}, True),
        (R + "oauth2_openid_userinfo", "jws_verify", "compact_jwt::oidc::OidcToken", {"sub"}, False),
    ]
    for (name, method, sink_def, subj, need_arm) in specs:
        f = ctx.fn(LIB, name)
        X = Fn(f)
        sn = name.rsplit("::", 1)[1]
        tok_p = next((l for l, t in X.ptys.items() if t in ("&compact_jwt::compact::JwsCompact", "&compact_jwt::compact::JweCompact")), None)
        if not ctx.check(tok_p is not None and X.ct() is not None, rule, name, "signature", "(.., token, ct)", f"parameters are {[p['ty'] for p in f['params']]}: shape not understood",
                         file=f["file"], line=f["line"]):
            continue
        # the client: a local bound from rs_from_kid / rs_set_get
        o2rs_locals = set()
        for n in walk(X.body):
            if n.get("s") == "let" and "init" in n and n["pat"].get("p") == "bind" and any(is_call_to(c, "Oauth2RSInner::rs_from_kid", "Oauth2RSInner::rs_set_get") for c in ucalls(n["init"])):
                o2rs_locals.add(n["pat"]["local"])
        tl = None
        for o in o2rs_locals:
            l, _ = let_local_with(X.body, lambda init: key_object_call(X, init, method, o, tok_p))
            if l is not None:
                tl, o2rs = l, o
        if not ctx.check(tl is not None, rule, name, "token-local", f"token = o2rs.key_object.{method}(token)",
                         f"{sn}: no local bound from `<client>.key_object.{method}(<token parameter>)`: the token is not authenticated with the client's key object",
                         file=f["file"], line=f["line"]):
            continue

        def tfield(e, *names):
            return X.token_field(e, set(names), tl)

        def atom_of(leaf):
            kind = leaf[1]
            rl = as_result_leaf(leaf)
            if rl is not None and key_object_call(X, rl[0], method, o2rs, tok_p):
                return ("token authenticated with the client's key", rl[1])
            if kind == "arm":
                scrut, pat = leaf[2]
                if local_of(scrut) == tl and has_token(tokens(pat), "def", "Oauth2TokenType::ClientAccess"):
                    return ("token is a ClientAccess token", True)
            if kind == "let":
                pat, init = leaf[2]
                toks = tokens(pat)
                if has_token(toks, "def", "core::result::Result::Ok") and has_token(toks, "def", "core::option::Option::Some"):
                    c = X.valid_call(init)
                    if c is not None and len(c["args"]) >= 5 and tfield(c["args"][0], *subj) and tfield(c["args"][1], "session_id") and local_of(c["args"][-1]) == X.ct():
                        return ("account and session valid", True)
            if kind == "expr":
                a = X.expiry_atom(unwrap(leaf[2]), lambda x: tfield(x, "exp"))
                if a:
                    return a
            return None

        def is_sink(n):
            if n.get("e") != "struct" or n.get("exp") or def_of(n) != sink_def:
                return False
            if sink_def.endswith("AccessTokenIntrospectResponse"):
                act = next((fx["x"] for fx in n["fields"] if fx["f"] == "active"), None)
                u = unwrap(act) if act is not None else {}
                return not (u.get("e") == "lit" and u.get("v") == "false")
            return True
        sites = pc.site_conditions(X.body, is_sink)
        ctx.floor(rule, f"positive answer sites in {sn}", len(sites), 1)
        A = P_atom
        CL = [
            ("authenticated", A("token authenticated with the client's key"), f"client.key_object.{method}(token) succeeded", "an unauthenticated token is answered for"),
            ("expiry", P_not(A("expiry<=now")), "¬(exp <= now)", "an expired token is reported active / yields user info"),
            ("account-valid", A("account and session valid"), "check_oauth2_account_uuid_valid(subject, session_id, ..) = Ok(Some(entry))",
             "a token whose session or account has been revoked or has expired is still accepted"),
        ]
        if need_arm:
            CL.append(("is-access", A("token is a ClientAccess token"), "token is Oauth2TokenType::ClientAccess", "a refresh token is reported as an active access token"))
        for i, (s, conds) in enumerate(sites):
            key = "answer" if i == 0 else f"answer#{i+1}"
            props = [to_prop(subst(c, X.binds), atom_of) for c in conds]
            for (cn, req, desc, why) in CL:
                check_clause(ctx, rule, f, f"{key}:{cn}", props, req, desc, why, line=s.get("line"))
            ctx.sample(f"{sn} {key} @{s.get('line')}: authenticated ∧ ¬expired ∧ account/session valid entailed")


# ---- PkceS256Secret::verify -----------------------------------------------------------------------------------------------------

def run_pkce_verify(ctx, F):
    rule = "K4-pkce"
    f = ctx.fn(LIB, O2 + "PkceS256Secret::verify")
    X = Fn(f)
    self_l, ch_l = param_local(f, 0), param_local(f, 1)
    tails = [unwrap(v) for v in tail_values(X.body)]
    ok = False
    if len(tails) == 1 and tails[0].get("e") == "bin" and tails[0]["op"] == "==":
        l, r = tails[0]["l"], tails[0]["r"]

        def is_hash(e):
            for c in ucalls(X.init_of(_strip(e))):
                if is_call_to(c, "PkceS256Secret::to_challenge") and local_of(c["recv"]) == self_l:
                    return True
            return False

        def _strip(e):
            e = unwrap(e)
            while isinstance(e, dict) and e.get("e") == "mcall" and not e["args"]:
                e = unwrap(e["recv"])
            return e
        ok = (X.derives(l, ch_l, 1) and is_hash(r) and not X.derives(r, ch_l, 1)) or (X.derives(r, ch_l, 1) and is_hash(l) and not X.derives(l, ch_l, 1))
    ctx.check(ok, rule, f["fn"], "compares-hash", "challenge == self.to_challenge()",
              f"PkceS256Secret::verify yields `{ex_s(tails[0])[:80] if tails else '?'}`, expected exactly `challenge.as_ref() == self.to_challenge()`: a verifier that does not hash "
              f"to the recorded challenge would be accepted", file=f["file"], line=f["line"])
    t = ctx.fn(LIB, O2 + "PkceS256Secret::to_challenge")
    ts = param_local(t, 0)
    calls = ucalls(t["body"])
    upd = [c for c in calls if c.get("e") == "mcall" and c["name"] == "update" and any(n.get("e") == "field" and n["f"] == "secret" and local_of(n["x"]) == ts for a in c["args"] for n in walk(a))]
    sha = [c for c in calls if "Sha256" in (c.get("ty") or "") or "sha2" in callee_of(c) or "Digest" in callee_of(c) or "digest" in callee_of(c)]
    fin = [c for c in calls if c.get("e") == "mcall" and c["name"] in ("finalize", "finalize_fixed")]
    ctx.check(bool(upd) and bool(fin) and "Sha256" in t.get("ret", "") + "".join(callee_of(c) + (c.get("recv_ty") or "") for c in calls), rule, t["fn"], "sha256-of-secret",
              "Sha256(secret)", "PkceS256Secret::to_challenge is no longer SHA-256 over the secret (update(secret) + finalize)", file=t["file"], line=t["line"])


# ---- K1 ---------------------------------------------------------------------------------------------------------------------------

def run_k1(ctx, F):
    allowed = {CODE, REFRESH, W + "check_oauth2_token_exchange_service_account", W + "check_oauth2_token_client_credentials"}
    callers = set()
    for crate in (LIB, CORE):
        for name in F.fns_mentioning(crate, "generate_access_token_response"):
            if "__CALLSITE" in name or name == GEN:
                continue
            fr = F.fn(crate, name)
            if fr is not None and any(is_call_to(c, GEN, "generate_access_token_response") for c in all_calls(fr["body"])):
                callers.add(name)
    for c in sorted(callers):
        ctx.check(c in allowed, "K1-token-source", c, "calls:generate_access_token_response", "allowed token source",
                  f"{short(c,1)} calls generate_access_token_response; only the grant functions {[short(a,1) for a in sorted(allowed)]} may — access tokens would be minted "
                  f"outside the guarded exchange paths")
    ctx.check({CODE, REFRESH} <= callers, "K1-token-source", "-", "positive-control", "code exchange and refresh mint tokens", "expected callers of generate_access_token_response not found: anchor drift")
    # active introspection answers
    act_allowed = {R + "oauth2_token_introspect_jwt", R + "oauth2_token_introspect_jwe"}
    found = set()
    for crate in (LIB, CORE):
        for name in F.fns_mentioning(crate, "AccessTokenIntrospectResponse"):
            if "__CALLSITE" in name or "serde" in name:
                continue
            fr = F.fn(crate, name)
            if fr is None:
                continue
            for n in walk(fr["body"]):
                if n.get("e") == "struct" and def_of(n) == "kanidm_proto::oauth2::AccessTokenIntrospectResponse":
                    act = next((fx["x"] for fx in n["fields"] if fx["f"] == "active"), None)
                    u = unwrap(act) if act is not None else {}
                    if not (u.get("e") == "lit" and u.get("v") == "false"):
                        found.add(name)
    for name in sorted(found):
        ctx.check(name in act_allowed, "K1-introspect", name, "constructs:active-response", "allowed",
                  f"{short(name,1)} constructs an AccessTokenIntrospectResponse that may be active outside the two guarded introspection functions")
    ctx.check(act_allowed <= found, "K1-introspect", "-", "positive-control", "both introspection functions answer", "active introspection answers not found where expected: anchor drift")
